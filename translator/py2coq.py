"""py2coq — fail-closed translator from a small subset of Python (`ast`) to Gallina text.

Everything outside the supported subset raises `Untranslatable`; the caller records the
obligation `extract:<file>:<function>` as broken.  Nothing here evaluates the source.

Supported:
  * numeric kernels (constants, straight-line assignments, if/elif/else with returns, arithmetic,
    comparisons, a fixed list of numpy/math calls)  ->  definitions over the `Num` record
    (`AV.lib.Num`), see `NumFn`;
  * a few *shape-specific* extractors for decision rules / recursive helpers, where the source has to
    match an expected skeleton exactly and the varying parts become Gallina parameters
    (`extract_deep_update`, ...).
"""

from __future__ import annotations

import ast
import fractions
from pathlib import Path


class Untranslatable(Exception):
    pass


def _parse(path: Path) -> ast.Module:
    return ast.parse(Path(path).read_text(), filename=str(path))


def find_function(mod: ast.AST, name: str, cls: str | None = None) -> ast.FunctionDef:
    scope = mod
    if cls is not None:
        for n in ast.walk(mod):
            if isinstance(n, ast.ClassDef) and n.name == cls:
                scope = n
                break
        else:
            raise Untranslatable(f'class {cls} not found')
    for n in scope.body:
        if isinstance(n, ast.FunctionDef) and n.name == name:
            return n
    raise Untranslatable(f'function {name} not found')


def strip_doc(body: list[ast.stmt]) -> list[ast.stmt]:
    if body and isinstance(body[0], ast.Expr) and isinstance(body[0].value, ast.Constant) \
            and isinstance(body[0].value.value, str):
        return body[1:]
    return body


def dump(n) -> str:
    return ast.dump(n, annotate_fields=False)


# ---------------------------------------------------------------------------
# C18: config/core.py:deep_update
# ---------------------------------------------------------------------------

def extract_deep_update(path: Path) -> str:
    """Skeleton required:

        def deep_update(base, overlay):
            for key, value in overlay.items():
                if <conjunction of guards>:
                    deep_update(base[key], value)
                else:
                    base[key] = value
            return base

    The guards (any subset, any order) become the three boolean parameters of `du_gen`."""
    fn = find_function(_parse(path), 'deep_update')
    args = [a.arg for a in fn.args.args]
    if len(args) != 2 or fn.args.vararg or fn.args.kwarg or fn.args.kwonlyargs or fn.args.defaults:
        raise Untranslatable('deep_update: signature')
    base, overlay = args
    body = strip_doc(fn.body)
    if len(body) != 2:
        raise Untranslatable('deep_update: body must be `for` + `return`')
    loop, ret = body
    if not (isinstance(ret, ast.Return) and isinstance(ret.value, ast.Name) and ret.value.id == base):
        raise Untranslatable('deep_update: must return base')
    if not (isinstance(loop, ast.For) and not loop.orelse and isinstance(loop.target, ast.Tuple)
            and len(loop.target.elts) == 2 and all(isinstance(e, ast.Name) for e in loop.target.elts)):
        raise Untranslatable('deep_update: for key, value in ...')
    key, value = (e.id for e in loop.target.elts)
    it = loop.iter
    if not (isinstance(it, ast.Call) and not it.args and not it.keywords and isinstance(it.func, ast.Attribute)
            and it.func.attr == 'items' and isinstance(it.func.value, ast.Name) and it.func.value.id == overlay):
        raise Untranslatable('deep_update: iterate overlay.items()')
    if len(loop.body) != 1 or not isinstance(loop.body[0], ast.If):
        raise Untranslatable('deep_update: loop body must be one if/else')
    iff = loop.body[0]
    base_key = dump(ast.parse(f'{base}[{key}]', mode='eval').body)
    guards = {
        dump(ast.parse(f'{key} in {base}', mode='eval').body): 'g_in',
        dump(ast.parse(f'isinstance({base}[{key}], dict)', mode='eval').body): 'g_bd',
        dump(ast.parse(f'isinstance({value}, dict)', mode='eval').body): 'g_vd',
    }
    conj = iff.test.values if isinstance(iff.test, ast.BoolOp) and isinstance(iff.test.op, ast.And) else [iff.test]
    flags = {'g_in': False, 'g_bd': False, 'g_vd': False}
    for c in conj:
        g = guards.get(dump(c))
        if g is None:
            raise Untranslatable(f'deep_update: unknown guard {ast.unparse(c)}')
        flags[g] = True
    # then-branch: recursive call on (base[key], value), result discarded (in-place update)
    if len(iff.body) != 1 or not isinstance(iff.body[0], ast.Expr):
        raise Untranslatable('deep_update: then-branch')
    call = iff.body[0].value
    if not (isinstance(call, ast.Call) and isinstance(call.func, ast.Name) and call.func.id == fn.name
            and len(call.args) == 2 and not call.keywords and dump(call.args[0]) == base_key
            and isinstance(call.args[1], ast.Name) and call.args[1].id == value):
        raise Untranslatable('deep_update: then-branch must be deep_update(base[key], value)')
    # else-branch: base[key] = value
    if len(iff.orelse) != 1 or not isinstance(iff.orelse[0], ast.Assign):
        raise Untranslatable('deep_update: else-branch')
    asg = iff.orelse[0]
    store = ast.parse(f'{base}[{key}] = {value}').body[0]
    if dump(asg) != dump(store):
        raise Untranslatable('deep_update: else-branch must be base[key] = value')
    b = lambda x: 'true' if x else 'false'  # noqa: E731
    return (
        '(* generated by translator/py2coq.py:extract_deep_update from config/core.py — do not edit *)\n'
        'From Coq Require Import List String.\nImport ListNotations.\n'
        'From AV Require Import lib.Tree model.C18_Model.\n'
        f'Definition deep_update := du_gen {b(flags["g_in"])} {b(flags["g_bd"])} {b(flags["g_vd"])}.\n')


def extract_config_load_order(path: Path) -> str:
    """Config.load must be: defaults read; overlay = file data (or {}); overlay = deep_update(overlay, kwargs);
    model_validate(deep_update(default_data, overlay_data)).  Emits the composition as Gallina."""
    fn = find_function(_parse(path), 'load', cls='Config')
    src = ast.unparse(fn)
    last = strip_doc(fn.body)[-1]
    if not isinstance(last, ast.Return):
        raise Untranslatable('Config.load: last statement must be return')
    want = dump(ast.parse('cls.model_validate(deep_update(default_data, overlay_data))', mode='eval').body)
    if dump(last.value) != want:
        raise Untranslatable('Config.load: final composition changed: ' + ast.unparse(last.value))
    kw = [s for s in fn.body if isinstance(s, ast.Assign)
          and dump(s) == dump(ast.parse('overlay_data = deep_update(overlay_data, kwargs)').body[0])]
    if len(kw) != 1:
        raise Untranslatable('Config.load: keyword overlay step changed')
    if 'overlay_data = tomllib.load(fp)' not in src or 'default_data = tomllib.load(fp)' not in src:
        raise Untranslatable('Config.load: TOML reading changed')
    return ('Definition load_effective (defaults file kwargs : tree) : tree :=\n'
            '  deep_update defaults (deep_update file kwargs).\n')


# ---------------------------------------------------------------------------
# numeric kernels -> Num
# ---------------------------------------------------------------------------

def lit_text(src: str) -> str:
    """Coq term for a numeric literal given by its source text: exact rational + the binary64 Python parses."""
    fr = fractions.Fraction(src.replace('_', ''))
    f = float(src.replace('_', ''))
    h = f.hex()
    hx = f'(-{h[1:]})%float' if h.startswith('-') else f'({h})%float'
    return f'(lit ({fr.numerator})%Z ({fr.denominator})%Z {hx})'


class NumModule:
    """Accumulates Gallina definitions (over `Num`) translated from numeric Python kernels.

    usage:  m = NumModule('C12_Extracted'); m.constants(path, ['T0', ...]); m.function(path, 'EI_SOx', ...)
            text = m.text()
    """

    CALLS1 = {'exp': 'nexp', 'log': 'nln', 'sqrt': 'nsqrt', 'sin': 'nsin', 'cos': 'ncos', 'abs': 'nabs',
              'fabs': 'nabs', 'absolute': 'nabs'}
    IDENT_CALLS = {'asarray', 'array', 'float', 'float64', 'atleast_1d', 'copy'}

    def __init__(self, name: str):
        self.name = name
        self.defs: list[str] = []
        self.known: dict[str, int] = {}       # python name -> arity (0 for constants)
        self.coqname: dict[str, str] = {}
        self.meta: dict[str, dict] = {}

    # -- helpers -------------------------------------------------------------
    def _src(self, path):
        self._text = Path(path).read_text()
        return ast.parse(self._text, filename=str(path))

    def _seg(self, node):
        return ast.get_source_segment(self._text, node)

    def _cid(self, pyname: str, prefix: str = '') -> str:
        c = prefix + pyname
        if c in ('T', 'add', 'sub', 'mul', 'div', 'opp', 'zero', 'one', 'lit', 'ltb', 'leb', 'eqb', 'of_Z'):
            c = c + '_'
        return c

    # -- constants -----------------------------------------------------------
    def constants(self, path, names: list[str], prefix: str = ''):
        mod = self._src(path)
        found = {}
        for st in mod.body:
            tgt = None
            if isinstance(st, ast.Assign) and len(st.targets) == 1 and isinstance(st.targets[0], ast.Name):
                tgt, val = st.targets[0].id, st.value
            elif isinstance(st, ast.AnnAssign) and isinstance(st.target, ast.Name) and st.value is not None:
                tgt, val = st.target.id, st.value
            if tgt in names:
                if tgt in found:
                    raise Untranslatable(f'{path}: constant {tgt} assigned twice')
                found[tgt] = val
                e = self.expr(val, {}, where=f'{Path(path).name}:{tgt}')
                c = self._cid(tgt, prefix)
                self.defs.append(f'Definition {c} : T N := {e}.')
                self.known[tgt] = 0
                self.coqname[tgt] = c
        missing = [n for n in names if n not in found]
        if missing:
            raise Untranslatable(f'{path}: constants not found: {missing}')

    # -- expressions ---------------------------------------------------------
    def expr(self, n: ast.AST, env: dict, where: str = '') -> str:
        E = lambda x: self.expr(x, env, where)  # noqa: E731
        if isinstance(n, ast.Constant):
            if isinstance(n.value, bool):
                raise Untranslatable(f'{where}: bool literal in numeric position')
            if isinstance(n.value, (int, float)):
                return lit_text(self._seg(n) if hasattr(self, '_text') and self._seg(n) else repr(n.value))
            raise Untranslatable(f'{where}: literal {n.value!r}')
        if isinstance(n, ast.Name):
            if n.id in env:
                return env[n.id]
            if n.id in self.known and self.known[n.id] == 0:
                return self.coqname[n.id]
            raise Untranslatable(f'{where}: unknown name {n.id}')
        if isinstance(n, ast.Attribute):
            key = self._attr_key(n)
            if key in env:
                return env[key]
            raise Untranslatable(f'{where}: unknown attribute {key}')
        if isinstance(n, ast.UnaryOp):
            if isinstance(n.op, ast.USub):
                return f'(- {E(n.operand)})'
            if isinstance(n.op, ast.UAdd):
                return E(n.operand)
            raise Untranslatable(f'{where}: unary {type(n.op).__name__}')
        if isinstance(n, ast.BinOp):
            op = {ast.Add: '+', ast.Sub: '-', ast.Mult: '*', ast.Div: '/'}.get(type(n.op))
            if op:
                return f'({E(n.left)} {op} {E(n.right)})'
            if isinstance(n.op, ast.Pow):
                if isinstance(n.right, ast.Constant) and isinstance(n.right.value, int) and 0 <= n.right.value <= 12:
                    return f'(npow_nat {E(n.left)} {n.right.value}%nat)'
                return f'(npow {E(n.left)} {E(n.right)})'
            raise Untranslatable(f'{where}: operator {type(n.op).__name__}')
        if isinstance(n, ast.IfExp):
            return f'(if {self.bexpr(n.test, env, where)} then {E(n.body)} else {E(n.orelse)})'
        if isinstance(n, ast.Call):
            f = n.func
            fname = f.attr if isinstance(f, ast.Attribute) else f.id if isinstance(f, ast.Name) else None
            if isinstance(f, ast.Attribute) and not (isinstance(f.value, ast.Name) and f.value.id in ('np', 'math', 'numpy')):
                raise Untranslatable(f'{where}: call {ast.unparse(f)}')
            if n.keywords:
                raise Untranslatable(f'{where}: keyword arguments in {fname}')
            a = n.args
            if fname in self.IDENT_CALLS and len(a) == 1:
                return E(a[0])
            if fname in self.CALLS1 and len(a) == 1:
                return f'({self.CALLS1[fname]} {E(a[0])})'
            if fname == 'log10' and len(a) == 1:
                return f'(nln {E(a[0])} / nln {lit_text("10")})'
            if fname == 'deg2rad' and len(a) == 1:
                return f'({E(a[0])} * ({lit_text("3.141592653589793")} / {lit_text("180")}))'
            if fname == 'hypot' and len(a) == 2:
                return f'(nsqrt ({E(a[0])} * {E(a[0])} + {E(a[1])} * {E(a[1])}))'
            if fname == 'where' and len(a) == 3:
                return f'(if {self.bexpr(a[0], env, where)} then {E(a[1])} else {E(a[2])})'
            if fname in ('maximum', 'max') and len(a) == 2:
                return f'(nmax {E(a[0])} {E(a[1])})'
            if fname in ('minimum', 'min') and len(a) == 2:
                return f'(nmin {E(a[0])} {E(a[1])})'
            if fname == 'power' and len(a) == 2:
                return f'(npow {E(a[0])} {E(a[1])})'
            if isinstance(f, ast.Name) and fname in self.known and self.known[fname] == len(a) and self.known[fname] > 0:
                return '(' + self.coqname[fname] + ' ' + ' '.join(E(x) for x in a) + ')'
            raise Untranslatable(f'{where}: call {fname}/{len(a)}')
        raise Untranslatable(f'{where}: expression {type(n).__name__}: {ast.unparse(n)[:60]}')

    def _attr_key(self, n: ast.Attribute) -> str:
        parts = []
        while isinstance(n, ast.Attribute):
            parts.append(n.attr)
            n = n.value
        if not isinstance(n, ast.Name):
            raise Untranslatable('attribute base')
        parts.append(n.id)
        return '.'.join(reversed(parts))

    def bexpr(self, n: ast.AST, env: dict, where: str = '') -> str:
        E = lambda x: self.expr(x, env, where)  # noqa: E731
        B = lambda x: self.bexpr(x, env, where)  # noqa: E731
        if isinstance(n, ast.Compare):
            parts = []
            left = n.left
            for op, right in zip(n.ops, n.comparators):
                l, r = E(left), E(right)
                t = {ast.Lt: f'(ltb {l} {r})', ast.LtE: f'(leb {l} {r})', ast.Gt: f'(ltb {r} {l})',
                     ast.GtE: f'(leb {r} {l})', ast.Eq: f'(eqb {l} {r})', ast.NotEq: f'(negb (eqb {l} {r}))'}.get(type(op))
                if t is None:
                    raise Untranslatable(f'{where}: comparison {type(op).__name__}')
                parts.append(t)
                left = right
            return parts[0] if len(parts) == 1 else '(' + ' && '.join(parts) + ')'
        if isinstance(n, ast.BoolOp):
            j = ' && ' if isinstance(n.op, ast.And) else ' || '
            return '(' + j.join(B(v) for v in n.values) + ')'
        if isinstance(n, ast.BinOp) and isinstance(n.op, (ast.BitAnd, ast.BitOr)):
            j = ' && ' if isinstance(n.op, ast.BitAnd) else ' || '
            return f'({B(n.left)}{j}{B(n.right)})'
        if isinstance(n, ast.UnaryOp) and isinstance(n.op, (ast.Not, ast.Invert)):
            return f'(negb {B(n.operand)})'
        if isinstance(n, ast.Constant) and isinstance(n.value, bool):
            return 'true' if n.value else 'false'
        if isinstance(n, ast.Name) and n.id in env and env[n.id].startswith('(*b*)'):
            return env[n.id][5:]
        raise Untranslatable(f'{where}: boolean expression {ast.unparse(n)[:60]}')

    # -- functions -----------------------------------------------------------
    def function(self, path, fname: str, params: list[str] | None = None, cls: str | None = None,
                 attrs: dict[str, list[str]] | None = None, coq_name: str | None = None,
                 skip_guards: bool = True, bool_params: list[str] | None = None,
                 result_fields: list[str] | None = None):
        """Translate `def fname(...)`.

        params  python parameter names to keep (default: all positional), each a scalar `T N`;
        attrs   {param: [attr, ...]}: record-like parameters, each listed attribute becomes a scalar parameter
                named <param>_<attr>, in the order given;
        `if <cond>: raise ...` statements are dropped when skip_guards (recorded in meta['guards'])."""
        mod = self._src(path)
        fn = find_function(mod, fname, cls)
        where = f'{Path(path).name}:{fname}'
        allp = [a.arg for a in fn.args.args if a.arg not in ('self', 'cls')]
        if fn.args.vararg or fn.args.kwarg:
            raise Untranslatable(f'{where}: *args/**kwargs')
        params = params if params is not None else allp
        attrs = attrs or {}
        bool_params = bool_params or []
        env: dict[str, str] = {}
        sig: list[str] = []
        for p in allp:
            if p in attrs:
                for a in attrs[p]:
                    env[f'{p}.{a}'] = f'{p}_{a}'
                    sig.append(f'({p}_{a} : T N)')
            elif p in bool_params:
                env[p] = f'(*b*){p}'
                sig.append(f'({p} : bool)')
            elif p in params:
                env[p] = self._cid(p, 'v_')
                sig.append(f'({env[p]} : T N)')
            else:
                raise Untranslatable(f'{where}: parameter {p} not declared to the translator')
        guards: list[str] = []
        body = self.block(strip_doc(fn.body), env, where, guards, skip_guards, result_fields)
        c = coq_name or self._cid(fname)
        self.defs.append(f'Definition {c} {" ".join(sig)} :=\n{body}.')
        self.known[fname] = len(sig)
        self.coqname[fname] = c
        self.meta[fname] = {'params': [s.strip('()').split(' : ')[0] for s in sig], 'guards': guards}
        return self.meta[fname]

    def block(self, stmts, env, where, guards, skip_guards, result_fields, indent='  ') -> str:
        if not stmts:
            raise Untranslatable(f'{where}: control reaches end of function without return')
        st, rest = stmts[0], stmts[1:]
        env = dict(env)
        nxt = lambda: self.block(rest, env, where, guards, skip_guards, result_fields, indent)  # noqa: E731
        if isinstance(st, ast.Return):
            if rest:
                raise Untranslatable(f'{where}: code after return')
            return indent + self.ret(st.value, env, where, result_fields)
        if isinstance(st, (ast.Assign, ast.AnnAssign)):
            tgt = st.targets[0] if isinstance(st, ast.Assign) else st.target
            if isinstance(st, ast.Assign) and len(st.targets) != 1:
                raise Untranslatable(f'{where}: chained assignment')
            if not isinstance(tgt, ast.Name):
                raise Untranslatable(f'{where}: assignment target {ast.unparse(tgt)}')
            try:
                e = self.expr(st.value, env, where)
                v = self._fresh(tgt.id, env)
                env[tgt.id] = v
                return f'{indent}let {v} := {e} in\n' + nxt()
            except Untranslatable:
                b = self.bexpr(st.value, env, where)
                v = self._fresh(tgt.id, env)
                env[tgt.id] = f'(*b*){v}'
                return f'{indent}let {v} := {b} in\n' + nxt()
        if isinstance(st, ast.AugAssign) and isinstance(st.target, ast.Name):
            op = {ast.Add: '+', ast.Sub: '-', ast.Mult: '*', ast.Div: '/'}.get(type(st.op))
            if op is None:
                raise Untranslatable(f'{where}: augmented {type(st.op).__name__}')
            e = f'({self.expr(st.target, env, where)} {op} {self.expr(st.value, env, where)})'
            v = self._fresh(st.target.id, env)
            env[st.target.id] = v
            return f'{indent}let {v} := {e} in\n' + nxt()
        if isinstance(st, ast.If):
            if all(isinstance(s, ast.Raise) for s in st.body) and not st.orelse:
                if not skip_guards:
                    raise Untranslatable(f'{where}: raise guard')
                guards.append(ast.unparse(st.test))
                return nxt()
            test = self.bexpr(st.test, env, where)
            then_returns = self._returns(st.body)
            else_returns = self._returns(st.orelse) if st.orelse else False
            if then_returns and (else_returns or not st.orelse):
                th = self.block(st.body, env, where, guards, skip_guards, result_fields, indent + '  ')
                el = self.block((st.orelse or []) + rest if not else_returns else st.orelse, env, where, guards,
                                skip_guards, result_fields, indent + '  ')
                if else_returns and rest:
                    raise Untranslatable(f'{where}: code after if/else that both return')
                return f'{indent}if {test} then\n{th}\n{indent}else\n{el}'
            # non-returning branches: each assigns the same set of variables
            tv = self._assigned(st.body)
            ev = self._assigned(st.orelse)
            vs = sorted(set(tv) | set(ev))
            if not vs or then_returns or else_returns:
                raise Untranslatable(f'{where}: unsupported if shape')
            for v in vs:
                if v not in env and (v not in tv or v not in ev):
                    raise Untranslatable(f'{where}: {v} assigned in one branch only and undefined before')
            tup = lambda e2: ('(' + ', '.join(e2[v] for v in vs) + ')') if len(vs) > 1 else e2[vs[0]]  # noqa: E731
            th = self._branch_lets(st.body, env, where, indent + '  ', tup)
            el = self._branch_lets(st.orelse, env, where, indent + '  ', tup)
            news = []
            for v in vs:
                nv = self._fresh(v, env)
                env[v] = nv
                news.append(nv)
            pat = ("'(" + ', '.join(news) + ')') if len(news) > 1 else news[0]
            return f'{indent}let {pat} := (if {test} then\n{th}\n{indent}else\n{el}) in\n' + nxt()
        if isinstance(st, ast.Expr) and isinstance(st.value, ast.Constant):
            return nxt()
        if isinstance(st, ast.Assert):
            guards.append('assert ' + ast.unparse(st.test))
            return nxt()
        raise Untranslatable(f'{where}: statement {type(st).__name__}: {ast.unparse(st)[:60]}')

    def _branch_lets(self, stmts, env, where, indent, tup):
        env = dict(env)
        out = ''
        for s in stmts:
            if isinstance(s, ast.Assign) and len(s.targets) == 1 and isinstance(s.targets[0], ast.Name):
                e = self.expr(s.value, env, where)
                v = self._fresh(s.targets[0].id, env)
                env[s.targets[0].id] = v
                out += f'{indent}let {v} := {e} in\n'
            elif isinstance(s, ast.Pass):
                continue
            else:
                raise Untranslatable(f'{where}: statement in branch: {ast.unparse(s)[:60]}')
        return out + indent + tup(env)

    def _assigned(self, stmts):
        out = []
        for s in stmts or []:
            if isinstance(s, ast.Assign) and len(s.targets) == 1 and isinstance(s.targets[0], ast.Name):
                out.append(s.targets[0].id)
            elif isinstance(s, ast.Pass):
                pass
            else:
                raise Untranslatable(f'unsupported statement in if-branch: {ast.unparse(s)[:60]}')
        return out

    def _returns(self, stmts) -> bool:
        if not stmts:
            return False
        last = stmts[-1]
        if isinstance(last, ast.Return):
            return True
        if isinstance(last, ast.If):
            return self._returns(last.body) and bool(last.orelse) and self._returns(last.orelse)
        return False

    _n = 0

    def _fresh(self, base: str, env) -> str:
        NumModule._n += 1
        return f'{base}_{NumModule._n}'

    def ret(self, v, env, where, result_fields) -> str:
        if isinstance(v, ast.Tuple):
            return '(' + ', '.join(self.expr(x, env, where) for x in v.elts) + ')'
        if isinstance(v, ast.Call) and v.keywords and not v.args and result_fields is not None:
            kw = {k.arg: k.value for k in v.keywords}
            if sorted(kw) != sorted(result_fields):
                raise Untranslatable(f'{where}: result fields {sorted(kw)} != {sorted(result_fields)}')
            return '(' + ', '.join(self.expr(kw[f], env, where) for f in result_fields) + ')'
        return self.expr(v, env, where)

    def raw(self, text: str):
        self.defs.append(text)

    def text(self) -> str:
        return ('(* generated by translator/py2coq.py from the current /repo working tree — do not edit *)\n'
                'From Coq Require Import ZArith PrimFloat Bool.\nFrom AV Require Import lib.Num.\n'
                'Section Gen.\nContext {N : Num}.\nLocal Open Scope num_scope.\nLocal Open Scope bool_scope.\n\n'
                + '\n\n'.join(self.defs) + '\n\nEnd Gen.\n')


# ---------------------------------------------------------------------------
# C18: singleton protocol of config/core.py (shape-specific, fail-closed)
# ---------------------------------------------------------------------------

def extract_singleton_protocol(path: Path) -> str:
    """Reads, from class Config: the order of the `@model_validator(mode='after')` methods, which of them
    registers the singleton (`_config = self`), whether that assignment can be reached on a failure path
    (inside try/finally), which of them refuse when a configuration is active; from `reset` and `get` and
    `ConfigProxy` the unset handling.  Emits boolean facts as Gallina definitions."""
    mod = _parse(path)
    cfg = next((n for n in mod.body if isinstance(n, ast.ClassDef) and n.name == 'Config'), None)
    if cfg is None:
        raise Untranslatable('class Config not found')

    def is_after_validator(fn):
        for d in fn.decorator_list:
            if isinstance(d, ast.Call) and ast.unparse(d.func) == 'model_validator':
                kw = {k.arg: ast.unparse(k.value) for k in d.keywords}
                if kw.get('mode') == "'after'":
                    return True
                raise Untranslatable(f'validator {fn.name}: mode {kw.get("mode")} not modelled')
        return False

    validators = [n for n in cfg.body if isinstance(n, ast.FunctionDef) and is_after_validator(n)]
    if not validators:
        raise Untranslatable('no after-validators in Config')

    def registers(fn):
        hits = []
        for node in ast.walk(fn):
            if isinstance(node, ast.Assign) and any(isinstance(t, ast.Name) and t.id == '_config' for t in node.targets):
                hits.append(node)
        return hits

    reg = [(i, fn, registers(fn)) for i, fn in enumerate(validators) if registers(fn)]
    if len(reg) != 1 or len(reg[0][2]) != 1:
        raise Untranslatable('singleton must be registered by exactly one assignment in exactly one validator')
    idx, fn, (asg,) = reg[0]
    if ast.unparse(asg.value) != 'self':
        raise Untranslatable('singleton registration must be `_config = self`')
    body = strip_doc(fn.body)
    # registration must be a top-level statement of the validator (not in try/finally/if), directly
    # followed by `return self`, and be preceded only by the global statement and the "already" refusal
    top = [s for s in body if not isinstance(s, ast.Global)]
    pos = next((k for k, s in enumerate(top) if s is asg), None)
    unconditional_last = pos is not None and pos == len(top) - 2 and ast.unparse(top[-1]) == 'return self'
    late = unconditional_last and idx == len(validators) - 1

    def refuses_when_active(f):
        for s in strip_doc(f.body):
            if isinstance(s, ast.If) and ast.unparse(s.test) == '_config is not None' \
                    and len(s.body) == 1 and isinstance(s.body[0], ast.Raise) \
                    and 'RuntimeError' in ast.unparse(s.body[0]):
                return True
        return False

    if not refuses_when_active(validators[0]) or not refuses_when_active(fn):
        raise Untranslatable('the first validator and the registering validator must refuse when a configuration is active')
    # reset / get / proxy
    reset = find_function(mod, 'reset', cls='Config')
    rb = [s for s in strip_doc(reset.body) if not isinstance(s, ast.Global)]
    if [ast.unparse(s) for s in rb] != ['_config = None']:
        raise Untranslatable('Config.reset must be exactly `_config = None`')
    get = find_function(mod, 'get', cls='Config')
    gb = [ast.unparse(s) for s in strip_doc(get.body) if not isinstance(s, ast.Global)]
    if len(gb) != 2 or not gb[0].startswith('if _config is None:\n    raise ValueError(') or gb[1] != 'return _config':
        raise Untranslatable('Config.get changed shape')
    for meth, tail in (('__getattr__', 'return getattr(_config, name)'), ('__setattr__', 'return setattr(_config, name, value)')):
        f = find_function(mod, meth, cls='ConfigProxy')
        fb = [ast.unparse(s) for s in strip_doc(f.body) if not isinstance(s, ast.Global)]
        if len(fb) != 2 or not fb[0].startswith('if _config is None:\n    raise ValueError(') or fb[1] != tail:
            raise Untranslatable(f'ConfigProxy.{meth} changed shape')
    frozen = []
    for rel, cls in ((path, 'Config'), (Path(path).parent / 'weather.py', 'WeatherConfig'),
                     (Path(path).parent / 'emissions.py', 'EmissionsConfig')):
        m2 = _parse(rel)
        c2 = next((n for n in m2.body if isinstance(n, ast.ClassDef) and n.name == cls), None)
        if c2 is None:
            raise Untranslatable(f'class {cls} not found')
        mc = [s for s in c2.body if isinstance(s, ast.Assign) and ast.unparse(s.targets[0]) == 'model_config']
        frozen.append(len(mc) == 1 and ast.unparse(mc[0].value).replace(' ', '') == 'ConfigDict(frozen=True)')
    # the validators as a stage list (VRefuseIfActive / VRegister / VResolve), in source order
    stages = []
    for v in validators:
        vb = [s2 for s2 in strip_doc(v.body) if not isinstance(s2, ast.Global)]
        atoms = []
        for node in vb:
            txt = ast.unparse(node)
            if isinstance(node, ast.If) and ast.unparse(node.test) == '_config is not None' and 'RuntimeError' in txt:
                atoms.append('VRefuseIfActive')
            elif any(isinstance(x, ast.Assign) and any(isinstance(t, ast.Name) and t.id == '_config' for t in x.targets)
                     for x in ast.walk(node)):
                atoms.append('VRegister')
            elif txt == 'return self':
                continue
            elif txt == 'self._normalize_path()':
                continue                      # resolves the search path itself; never raises for missing data files
            elif 'file_location' in txt:
                if 'VResolve' not in atoms:
                    atoms.append('VResolve')  # may raise FileNotFoundError
            else:
                raise Untranslatable(f'validator {v.name}: statement not modelled: {txt[:60]}')
        stages += atoms
    owners = {'Config': '[]', 'WeatherConfig': '["weather"]', 'EmissionsConfig': '["emissions"]'}
    fz = dict(zip(['Config', 'WeatherConfig', 'EmissionsConfig'], frozen))
    b = lambda x: 'true' if x else 'false'  # noqa: E731
    frozen_def = ('Definition extracted_frozen (p : list string) : bool :=\n  match p with\n'
                  + ''.join(f'  | {owners[c]} => {b(fz[c])}\n' for c in owners if owners[c] != '[]')
                  + f'  | [] => {b(fz["Config"])}\n  | _ => true\n  end.\n')
    return (f'Definition extracted_stages : list vstage := [{"; ".join(stages)}].\n'
            'Open Scope string_scope.\n' + frozen_def +
            f'(* after-validators in order: {", ".join(v.name for v in validators)}; singleton registered in {fn.name} *)\n'
            f'Definition late_registration : bool := {b(late)}.\n'
            f'Definition all_models_frozen : bool := {b(all(frozen))}.\n')

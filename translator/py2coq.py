"""py2coq — fail-closed translator from a small subset of Python (`ast`) to Gallina text.

Everything outside the supported subset raises `Untranslatable`; the caller records the
obligation `extract:<file>:<function>` as broken.  Nothing here evaluates the source.

Supported:
  * numeric kernels (constants, straight-line assignments, if/elif/else with returns, arithmetic,
    comparisons, a fixed list of numpy/math calls)  ->  definitions over the `Num` record
    (`AV.lib.Num`), see `NumFn`;
  * a few *shape-specific* extractors for decision rules / recursive helpers, where the source has to
    match an expected skeleton exactly and the varying parts become Gallina parameters
    (`extract_deep_update`, ...).
"""

from __future__ import annotations

import ast
import fractions
from pathlib import Path


class Untranslatable(Exception):
    pass


def _parse(path: Path) -> ast.Module:
    return ast.parse(Path(path).read_text(), filename=str(path))


def find_function(mod: ast.AST, name: str, cls: str | None = None) -> ast.FunctionDef:
    scope = mod
    if cls is not None:
        for n in ast.walk(mod):
            if isinstance(n, ast.ClassDef) and n.name == cls:
                scope = n
                break
        else:
            raise Untranslatable(f'class {cls} not found')
    for n in scope.body:
        if isinstance(n, ast.FunctionDef) and n.name == name:
            return n
    raise Untranslatable(f'function {name} not found')


def strip_doc(body: list[ast.stmt]) -> list[ast.stmt]:
    if body and isinstance(body[0], ast.Expr) and isinstance(body[0].value, ast.Constant) \
            and isinstance(body[0].value.value, str):
        return body[1:]
    return body


def dump(n) -> str:
    return ast.dump(n, annotate_fields=False)


# ---------------------------------------------------------------------------
# C18: config/core.py:deep_update
# ---------------------------------------------------------------------------

def extract_deep_update(path: Path) -> str:
    """Skeleton required:

        def deep_update(base, overlay):
            for key, value in overlay.items():
                if <conjunction of guards>:
                    deep_update(base[key], value)
                else:
                    base[key] = value
            return base

    The guards (any subset, any order) become the three boolean parameters of `du_gen`."""
    fn = find_function(_parse(path), 'deep_update')
    args = [a.arg for a in fn.args.args]
    if len(args) != 2 or fn.args.vararg or fn.args.kwarg or fn.args.kwonlyargs or fn.args.defaults:
        raise Untranslatable('deep_update: signature')
    base, overlay = args
    body = strip_doc(fn.body)
    if len(body) != 2:
        raise Untranslatable('deep_update: body must be `for` + `return`')
    loop, ret = body
    if not (isinstance(ret, ast.Return) and isinstance(ret.value, ast.Name) and ret.value.id == base):
        raise Untranslatable('deep_update: must return base')
    if not (isinstance(loop, ast.For) and not loop.orelse and isinstance(loop.target, ast.Tuple)
            and len(loop.target.elts) == 2 and all(isinstance(e, ast.Name) for e in loop.target.elts)):
        raise Untranslatable('deep_update: for key, value in ...')
    key, value = (e.id for e in loop.target.elts)
    it = loop.iter
    if not (isinstance(it, ast.Call) and not it.args and not it.keywords and isinstance(it.func, ast.Attribute)
            and it.func.attr == 'items' and isinstance(it.func.value, ast.Name) and it.func.value.id == overlay):
        raise Untranslatable('deep_update: iterate overlay.items()')
    if len(loop.body) != 1 or not isinstance(loop.body[0], ast.If):
        raise Untranslatable('deep_update: loop body must be one if/else')
    iff = loop.body[0]
    base_key = dump(ast.parse(f'{base}[{key}]', mode='eval').body)
    guards = {
        dump(ast.parse(f'{key} in {base}', mode='eval').body): 'g_in',
        dump(ast.parse(f'isinstance({base}[{key}], dict)', mode='eval').body): 'g_bd',
        dump(ast.parse(f'isinstance({value}, dict)', mode='eval').body): 'g_vd',
    }
    conj = iff.test.values if isinstance(iff.test, ast.BoolOp) and isinstance(iff.test.op, ast.And) else [iff.test]
    flags = {'g_in': False, 'g_bd': False, 'g_vd': False}
    for c in conj:
        g = guards.get(dump(c))
        if g is None:
            raise Untranslatable(f'deep_update: unknown guard {ast.unparse(c)}')
        flags[g] = True
    # then-branch: recursive call on (base[key], value), result discarded (in-place update)
    if len(iff.body) != 1 or not isinstance(iff.body[0], ast.Expr):
        raise Untranslatable('deep_update: then-branch')
    call = iff.body[0].value
    if not (isinstance(call, ast.Call) and isinstance(call.func, ast.Name) and call.func.id == fn.name
            and len(call.args) == 2 and not call.keywords and dump(call.args[0]) == base_key
            and isinstance(call.args[1], ast.Name) and call.args[1].id == value):
        raise Untranslatable('deep_update: then-branch must be deep_update(base[key], value)')
    # else-branch: base[key] = value
    if len(iff.orelse) != 1 or not isinstance(iff.orelse[0], ast.Assign):
        raise Untranslatable('deep_update: else-branch')
    asg = iff.orelse[0]
    store = ast.parse(f'{base}[{key}] = {value}').body[0]
    if dump(asg) != dump(store):
        raise Untranslatable('deep_update: else-branch must be base[key] = value')
    b = lambda x: 'true' if x else 'false'  # noqa: E731
    return (
        '(* generated by translator/py2coq.py:extract_deep_update from config/core.py — do not edit *)\n'
        'From AV Require Import lib.Tree model.C18_Model.\n'
        f'Definition deep_update := du_gen {b(flags["g_in"])} {b(flags["g_bd"])} {b(flags["g_vd"])}.\n')


def extract_config_load_order(path: Path) -> str:
    """Config.load must be: defaults read; overlay = file data (or {}); overlay = deep_update(overlay, kwargs);
    model_validate(deep_update(default_data, overlay_data)).  Emits the composition as Gallina."""
    fn = find_function(_parse(path), 'load', cls='Config')
    src = ast.unparse(fn)
    last = strip_doc(fn.body)[-1]
    if not isinstance(last, ast.Return):
        raise Untranslatable('Config.load: last statement must be return')
    want = dump(ast.parse('cls.model_validate(deep_update(default_data, overlay_data))', mode='eval').body)
    if dump(last.value) != want:
        raise Untranslatable('Config.load: final composition changed: ' + ast.unparse(last.value))
    kw = [s for s in fn.body if isinstance(s, ast.Assign)
          and dump(s) == dump(ast.parse('overlay_data = deep_update(overlay_data, kwargs)').body[0])]
    if len(kw) != 1:
        raise Untranslatable('Config.load: keyword overlay step changed')
    if 'overlay_data = tomllib.load(fp)' not in src or 'default_data = tomllib.load(fp)' not in src:
        raise Untranslatable('Config.load: TOML reading changed')
    return ('Definition load_effective (defaults file kwargs : tree) : tree :=\n'
            '  deep_update defaults (deep_update file kwargs).\n')


# ---------------------------------------------------------------------------
# numeric kernels -> Num
# ---------------------------------------------------------------------------

def lit_text(src: str) -> str:
    """Coq term for a numeric literal given by its source text: exact rational + the binary64 Python parses."""
    fr = fractions.Fraction(src.replace('_', ''))
    f = float(src.replace('_', ''))
    h = f.hex()
    hx = f'(-{h[1:]})%float' if h.startswith('-') else f'({h})%float'
    return f'(lit ({fr.numerator})%Z ({fr.denominator})%Z {hx})'

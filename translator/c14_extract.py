"""C14 extractors (fail-closed, shape-specific), built on translator/py2coq.py.

Regenerated from missions/filter.py on every run, as Gallina text:

  Filter._normalize   the spatial compatibility rule `ok = ...`            -> spatial_ok_src
                      which kinds are counted, and how (lists / boxes)      -> spatial_kinds
                      the attributes normalised from str to [str]           -> normalised_attrs
  Filter._spatial     (strict shape) non-empty lists / non-None boxes count -> checked, no text
  Filter.to_sql       the simple range conjuncts (column, operator, attr)   -> range_conjuncts
                      the IN-list conjuncts and their non-empty guards      -> inlist_conjuncts
"""

from __future__ import annotations

import ast
from pathlib import Path

from translator.py2coq import Untranslatable, _parse, dump, find_function, strip_doc

_SPATIAL_CANON = '''
def _spatial(self, attr: str, lists: bool = False) -> tuple[int, int, int]:
    both = getattr(self, attr)
    origin = getattr(self, 'origin_' + attr)
    destination = getattr(self, 'destination_' + attr)

    if not lists:
        return (
            1 if both is not None else 0,
            1 if origin is not None else 0,
            1 if destination is not None else 0,
        )
    else:
        assert both is None or isinstance(both, list)
        assert origin is None or isinstance(origin, list)
        assert destination is None or isinstance(destination, list)
        return (
            1 if (both is not None and len(both) > 0) else 0,
            1 if (origin is not None and len(origin) > 0) else 0,
            1 if (destination is not None and len(destination) > 0) else 0,
        )
'''


def _bool_expr(n: ast.AST, names: dict[str, str], where: str) -> str:
    if isinstance(n, ast.BoolOp):
        j = ' && ' if isinstance(n.op, ast.And) else ' || '
        return '(' + j.join(_bool_expr(v, names, where) for v in n.values) + ')'
    if isinstance(n, ast.UnaryOp) and isinstance(n.op, ast.Not):
        return f'(negb {_bool_expr(n.operand, names, where)})'
    if isinstance(n, ast.Compare) and len(n.ops) == 1:
        def side(x):
            if isinstance(x, ast.Name) and x.id in names:
                return names[x.id]
            if isinstance(x, ast.Constant) and isinstance(x.value, int) and not isinstance(x.value, bool):
                return f'({x.value})%Z'
            raise Untranslatable(f'{where}: operand {ast.unparse(x)}')
        a, b = side(n.left), side(n.comparators[0])
        t = {ast.Eq: f'({a} =? {b})', ast.NotEq: f'(negb ({a} =? {b}))', ast.Lt: f'({a} <? {b})',
             ast.LtE: f'({a} <=? {b})', ast.Gt: f'({b} <? {a})', ast.GtE: f'({b} <=? {a})'}.get(type(n.ops[0]))
        if t:
            return t
    raise Untranslatable(f'{where}: unsupported test `{ast.unparse(n)}`')


def extract_normalize(path: Path) -> str:
    where = 'filter.py:Filter._normalize'
    mod = _parse(path)
    fn = find_function(mod, '_normalize', cls='Filter')
    body = strip_doc(fn.body)
    if len(body) != 4:
        raise Untranslatable(f'{where}: expected 4 statements (str->list loop, counts, ok, refusal), got {len(body)}')
    loop, counts, okst, refuse = body
    # 1. str -> [str]
    if not (isinstance(loop, ast.For) and isinstance(loop.iter, ast.List) and isinstance(loop.target, ast.Name)):
        raise Untranslatable(f'{where}: normalisation loop')
    attrs = []
    for e in loop.iter.elts:
        if not (isinstance(e, ast.Constant) and isinstance(e.value, str)):
            raise Untranslatable(f'{where}: normalisation attribute list')
        attrs.append(e.value)
    v = loop.target.id
    want_loop = ast.parse(f'if isinstance(getattr(self, {v}), str):\n    setattr(self, {v}, [getattr(self, {v})])').body
    if [dump(s) for s in loop.body] != [dump(s) for s in want_loop]:
        raise Untranslatable(f'{where}: normalisation loop body changed')
    # 2. combined, origin, destination = tuple(map(sum, zip(self._spatial(k, lists=b), ...)))
    if not (isinstance(counts, ast.Assign) and len(counts.targets) == 1 and isinstance(counts.targets[0], ast.Tuple)
            and [ast.unparse(t) for t in counts.targets[0].elts] == ['combined', 'origin', 'destination']):
        raise Untranslatable(f'{where}: counts assignment')
    c = counts.value
    ok = (isinstance(c, ast.Call) and ast.unparse(c.func) == 'tuple' and len(c.args) == 1
          and isinstance(c.args[0], ast.Call) and ast.unparse(c.args[0].func) == 'map'
          and len(c.args[0].args) == 2 and ast.unparse(c.args[0].args[0]) == 'sum'
          and isinstance(c.args[0].args[1], ast.Call) and ast.unparse(c.args[0].args[1].func) == 'zip')
    if not ok:
        raise Untranslatable(f'{where}: counts are not tuple(map(sum, zip(...)))')
    kinds = []
    for call in c.args[0].args[1].args:
        if not (isinstance(call, ast.Call) and ast.unparse(call.func) == 'self._spatial' and len(call.args) == 1
                and isinstance(call.args[0], ast.Constant) and len(call.keywords) == 1
                and call.keywords[0].arg == 'lists' and isinstance(call.keywords[0].value, ast.Constant)):
            raise Untranslatable(f'{where}: _spatial call shape')
        kinds.append((call.args[0].value, bool(call.keywords[0].value.value)))
    # 3. ok = <rule>
    if not (isinstance(okst, ast.Assign) and ast.unparse(okst.targets[0]) == 'ok'):
        raise Untranslatable(f'{where}: ok assignment')
    rule = _bool_expr(okst.value, {'combined': 'combined', 'origin': 'origin', 'destination': 'destination'}, where)
    # 4. if not ok: raise ValueError(...)
    if not (isinstance(refuse, ast.If) and ast.unparse(refuse.test) == 'not ok' and not refuse.orelse
            and len(refuse.body) == 1 and isinstance(refuse.body[0], ast.Raise)
            and ast.unparse(refuse.body[0].exc).startswith('ValueError(')):
        raise Untranslatable(f'{where}: refusal is not `if not ok: raise ValueError(...)`')
    # _spatial: strict
    sp = find_function(mod, '_spatial', cls='Filter')
    canon = ast.parse(_SPATIAL_CANON).body[0]
    if [dump(s) for s in strip_doc(sp.body)] != [dump(s) for s in canon.body] or dump(sp.args) != dump(canon.args):
        raise Untranslatable('filter.py:Filter._spatial: body differs from the expected counting rule')
    # to_sql must call _normalize before building conditions
    ts = find_function(mod, 'to_sql', cls='Filter')
    calls = [ast.unparse(s) for s in ts.body if isinstance(s, ast.Expr)]
    if 'self._normalize()' not in calls:
        raise Untranslatable('filter.py:Filter.to_sql no longer calls self._normalize()')

    def sl(xs):
        return '[' + '; '.join(f'"{x}"%string' for x in xs) + ']'
    kinds_txt = '[' + '; '.join(f'("{k}"%string, {"true" if b else "false"})' for k, b in kinds) + ']'
    return (f'Definition spatial_ok_src (combined origin destination : Z) : bool :=\n  {rule}.\n'
            f'Definition spatial_kinds : list (string * bool) := {kinds_txt}.\n'
            f'Definition normalised_attrs : list string := {sl(attrs)}.\n')


def extract_to_sql(path: Path) -> str:
    where = 'filter.py:Filter.to_sql'
    fn = find_function(_parse(path), 'to_sql', cls='Filter')
    ranges, inlists, subs = [], [], []
    empty_guard = False
    for st in fn.body:
        if isinstance(st, ast.Expr) and isinstance(st.value, ast.Call) and ast.unparse(st.value.func) == 'simple':
            a = st.value.args
            if not (len(a) == 2 and isinstance(a[0], ast.JoinedStr) and isinstance(a[1], ast.Attribute)
                    and ast.unparse(a[1].value) == 'self'):
                raise Untranslatable(f'{where}: simple(...) call shape')
            parts = a[0].values
            if not (len(parts) == 2 and isinstance(parts[0], ast.FormattedValue) and ast.unparse(parts[0].value) == 'table'
                    and isinstance(parts[1], ast.Constant)):
                raise Untranslatable(f'{where}: simple(...) expression must be f"{{table}}<col> <op> ?"')
            ranges.append(parts[1].value + ' @' + a[1].attr)
        elif isinstance(st, ast.If):
            t = ast.unparse(st.test)
            if t == 'table is not None':          # column prefix only
                continue
            if t == 'not conditions':             # repaired shape (F12): a filter without conditions -> ('', [])
                if not (len(st.body) == 1 and not st.orelse and ast.unparse(st.body[0]) == "return ('', [])"):
                    raise Untranslatable(f'{where}: `if not conditions` must return (\'\', [])')
                empty_guard = True
                continue
            for attr in ('service_type', 'aircraft_type'):
                if t == f'self.{attr} is not None and len(self.{attr}) > 0':
                    src = ast.unparse(st)
                    if f"{{table}}{attr} IN ({{placeholders}})" not in src or f"', '.join('?' * len(self.{attr}))" not in src:
                        raise Untranslatable(f'{where}: IN-list conjunct for {attr} changed')
                    inlists.append(attr)
                    break
            else:
                raise Untranslatable(f'{where}: unexpected conditional `{t}`')
        elif isinstance(st, ast.AugAssign) and ast.unparse(st.target) == 'conditions':
            subs.append(ast.unparse(st.value))
    sdef = [s for s in fn.body if isinstance(s, ast.FunctionDef) and s.name == 'simple']
    want = ast.parse('def simple(expr, value):\n    if value is not None:\n        conditions.append((expr, value))').body[0]
    if len(sdef) != 1 or dump(sdef[0]) != dump(want):
        raise Untranslatable(f'{where}: helper simple() changed')
    if subs != ['self._airport_condition(table)', 'self._country_condition(table)',
                'self._continent_condition(table)', 'self._bounding_box_condition(table)']:
        raise Untranslatable(f'{where}: spatial sub-conditions changed: {subs}')

    def sl(xs):
        return '[' + '; '.join(f'"{x}"%string' for x in xs) + ']'
    return (f'Definition range_conjuncts : list string := {sl(ranges)}.\n'
            f'Definition inlist_conjuncts : list string := {sl(inlists)}.\n'
            f'Definition empty_guard : bool := {"true" if empty_guard else "false"}.\n')


def extract_all(repo: Path) -> str:
    f = Path(repo) / 'src' / 'AEIC' / 'missions' / 'filter.py'
    head = ('(* generated by translator/c14_extract.py from the current working tree — do not edit *)\n'
            'From Coq Require Import ZArith List String Bool.\nImport ListNotations.\nOpen Scope Z_scope.\n\n')
    return head + extract_normalize(f) + '\n' + extract_to_sql(f)

"""C14 extractors (fail-closed, shape-specific), built on translator/py2coq.py.

Regenerated from missions/filter.py on every run, as Gallina text:

  Filter._normalize   the spatial compatibility rule `ok = ...`            -> spatial_ok_src
                      which kinds are counted, and how (lists / boxes)      -> spatial_kinds
                      the attributes normalised from str to [str]           -> normalised_attrs
  Filter._spatial     (strict shape) non-empty lists / non-None boxes count -> checked, no text
  Filter.to_sql       the simple range conjuncts (column, operator, attr)   -> range_conjuncts
                      the IN-list conjuncts and their non-empty guards      -> inlist_conjuncts
"""

from __future__ import annotations

import ast
from pathlib import Path

from translator.py2coq import Untranslatable, _parse, dump, find_function, strip_doc

_SPATIAL_CANON = '''
def _spatial(self, attr: str, lists: bool = False) -> tuple[int, int, int]:
    both = getattr(self, attr)
    origin = getattr(self, 'origin_' + attr)
    destination = getattr(self, 'destination_' + attr)

    if not lists:
        return (
            1 if both is not None else 0,
            1 if origin is not None else 0,
            1 if destination is not None else 0,
        )
    else:
        assert both is None or isinstance(both, list)
        assert origin is None or isinstance(origin, list)
        assert destination is None or isinstance(destination, list)
        return (
            1 if (both is not None and len(both) > 0) else 0,
            1 if (origin is not None and len(origin) > 0) else 0,
            1 if (destination is not None and len(destination) > 0) else 0,
        )
'''


def _bool_expr(n: ast.AST, names: dict[str, str], where: str) -> str:
    if isinstance(n, ast.BoolOp):
        j = ' && ' if isinstance(n.op, ast.And) else ' || '
        return '(' + j.join(_bool_expr(v, names, where) for v in n.values) + ')'
    if isinstance(n, ast.UnaryOp) and isinstance(n.op, ast.Not):
        return f'(negb {_bool_expr(n.operand, names, where)})'
    if isinstance(n, ast.Compare) and len(n.ops) == 1:
        def side(x):
            if isinstance(x, ast.Name) and x.id in names:
                return names[x.id]
            if isinstance(x, ast.Constant) and isinstance(x.value, int) and not isinstance(x.value, bool):
                return f'({x.value})%Z'
            raise Untranslatable(f'{where}: operand {ast.unparse(x)}')
        a, b = side(n.left), side(n.comparators[0])
        t = {ast.Eq: f'({a} =? {b})', ast.NotEq: f'(negb ({a} =? {b}))', ast.Lt: f'({a} <? {b})',
             ast.LtE: f'({a} <=? {b})', ast.Gt: f'({b} <? {a})', ast.GtE: f'({b} <=? {a})'}.get(type(n.ops[0]))
        if t:
            return t
    raise Untranslatable(f'{where}: unsupported test `{ast.unparse(n)}`')


def extract_normalize(path: Path) -> str:
    where = 'filter.py:Filter._normalize'
    mod = _parse(path)
    fn = find_function(mod, '_normalize', cls='Filter')
    body = strip_doc(fn.body)
    if len(body) != 4:
        raise Untranslatable(f'{where}: expected 4 statements (str->list loop, counts, ok, refusal), got {len(body)}')
    loop, counts, okst, refuse = body
    # 1. str -> [str]
    if not (isinstance(loop, ast.For) and isinstance(loop.iter, ast.List) and isinstance(loop.target, ast.Name)):
        raise Untranslatable(f'{where}: normalisation loop')
    attrs = []
    for e in loop.iter.elts:
        if not (isinstance(e, ast.Constant) and isinstance(e.value, str)):
            raise Untranslatable(f'{where}: normalisation attribute list')
        attrs.append(e.value)
    v = loop.target.id
    want_loop = ast.parse(f'if isinstance(getattr(self, {v}), str):\n    setattr(self, {v}, [getattr(self, {v})])').body
    if [dump(s) for s in loop.body] != [dump(s) for s in want_loop]:
        raise Untranslatable(f'{where}: normalisation loop body changed')
    # 2. combined, origin, destination = tuple(map(sum, zip(self._spatial(k, lists=b), ...)))
    if not (isinstance(counts, ast.Assign) and len(counts.targets) == 1 and isinstance(counts.targets[0], ast.Tuple)
            and [ast.unparse(t) for t in counts.targets[0].elts] == ['combined', 'origin', 'destination']):
        raise Untranslatable(f'{where}: counts assignment')
    c = counts.value
    ok = (isinstance(c, ast.Call) and ast.unparse(c.func) == 'tuple' and len(c.args) == 1
          and isinstance(c.args[0], ast.Call) and ast.unparse(c.args[0].func) == 'map'
          and len(c.args[0].args) == 2 and ast.unparse(c.args[0].args[0]) == 'sum'
          and isinstance(c.args[0].args[1], ast.Call) and ast.unparse(c.args[0].args[1].func) == 'zip')
    if not ok:
        raise Untranslatable(f'{where}: counts are not tuple(map(sum, zip(...)))')
    kinds = []
    for call in c.args[0].args[1].args:
        if not (isinstance(call, ast.Call) and ast.unparse(call.func) == 'self._spatial' and len(call.args) == 1
                and isinstance(call.args[0], ast.Constant) and len(call.keywords) == 1
                and call.keywords[0].arg == 'lists' and isinstance(call.keywords[0].value, ast.Constant)):
            raise Untranslatable(f'{where}: _spatial call shape')
        kinds.append((call.args[0].value, bool(call.keywords[0].value.value)))
    # 3. ok = <rule>
    if not (isinstance(okst, ast.Assign) and ast.unparse(okst.targets[0]) == 'ok'):
        raise Untranslatable(f'{where}: ok assignment')
    rule = _bool_expr(okst.value, {'combined': 'combined', 'origin': 'origin', 'destination': 'destination'}, where)
    # 4. if not ok: raise ValueError(...)
    if not (isinstance(refuse, ast.If) and ast.unparse(refuse.test) == 'not ok' and not refuse.orelse
            and len(refuse.body) == 1 and isinstance(refuse.body[0], ast.Raise)
            and ast.unparse(refuse.body[0].exc).startswith('ValueError(')):
        raise Untranslatable(f'{where}: refusal is not `if not ok: raise ValueError(...)`')
    # _spatial: strict
    sp = find_function(mod, '_spatial', cls='Filter')
    canon = ast.parse(_SPATIAL_CANON).body[0]
    if [dump(s) for s in strip_doc(sp.body)] != [dump(s) for s in canon.body] or dump(sp.args) != dump(canon.args):
        raise Untranslatable('filter.py:Filter._spatial: body differs from the expected counting rule')
    # to_sql must call _normalize before building conditions
    ts = find_function(mod, 'to_sql', cls='Filter')
    calls = [ast.unparse(s) for s in ts.body if isinstance(s, ast.Expr)]
    if 'self._normalize()' not in calls:
        raise Untranslatable('filter.py:Filter.to_sql no longer calls self._normalize()')

    def sl(xs):
        return '[' + '; '.join(f'"{x}"%string' for x in xs) + ']'
    kinds_txt = '[' + '; '.join(f'("{k}"%string, {"true" if b else "false"})' for k, b in kinds) + ']'
    return (f'Definition spatial_ok_src (combined origin destination : Z) : bool :=\n  {rule}.\n'
            f'Definition spatial_kinds : list (string * bool) := {kinds_txt}.\n'
            f'Definition normalised_attrs : list string := {sl(attrs)}.\n')


def extract_to_sql(path: Path) -> str:
    where = 'filter.py:Filter.to_sql'
    fn = find_function(_parse(path), 'to_sql', cls='Filter')
    ranges, inlists, subs = [], [], []
    empty_guard = False
    for st in fn.body:
        if isinstance(st, ast.Expr) and isinstance(st.value, ast.Call) and ast.unparse(st.value.func) == 'simple':
            a = st.value.args
            if not (len(a) == 2 and isinstance(a[0], ast.JoinedStr) and isinstance(a[1], ast.Attribute)
                    and ast.unparse(a[1].value) == 'self'):
                raise Untranslatable(f'{where}: simple(...) call shape')
            parts = a[0].values
            if not (len(parts) == 2 and isinstance(parts[0], ast.FormattedValue) and ast.unparse(parts[0].value) == 'table'
                    and isinstance(parts[1], ast.Constant)):
                raise Untranslatable(f'{where}: simple(...) expression must be f"{{table}}<col> <op> ?"')
            ranges.append(parts[1].value + ' @' + a[1].attr)
        elif isinstance(st, ast.If):
            t = ast.unparse(st.test)
            if t == 'table is not None':          # column prefix only
                continue
            if t == 'not conditions':             # repaired shape (F12): a filter without conditions -> ('', [])
                if not (len(st.body) == 1 and not st.orelse and ast.unparse(st.body[0]) == "return ('', [])"):
                    raise Untranslatable(f'{where}: `if not conditions` must return (\'\', [])')
                empty_guard = True
                continue
            for attr in ('service_type', 'aircraft_type'):
                if t == f'self.{attr} is not None and len(self.{attr}) > 0':
                    src = ast.unparse(st)
                    if f"{{table}}{attr} IN ({{placeholders}})" not in src or f"', '.join('?' * len(self.{attr}))" not in src:
                        raise Untranslatable(f'{where}: IN-list conjunct for {attr} changed')
                    inlists.append(attr)
                    break
            else:
                raise Untranslatable(f'{where}: unexpected conditional `{t}`')
        elif isinstance(st, ast.AugAssign) and ast.unparse(st.target) == 'conditions':
            subs.append(ast.unparse(st.value))
    sdef = [s for s in fn.body if isinstance(s, ast.FunctionDef) and s.name == 'simple']
    if len(sdef) != 1 or [a.arg for a in sdef[0].args.args] != ['expr', 'value'] or len(sdef[0].body) != 1 \
            or not isinstance(sdef[0].body[0], ast.If) or sdef[0].body[0].orelse \
            or [ast.unparse(x) for x in sdef[0].body[0].body] != ['conditions.append((expr, value))']:
        raise Untranslatable(f'{where}: helper simple() changed shape')
    range_guard = ast.unparse(sdef[0].body[0].test)
    if subs != ['self._airport_condition(table)', 'self._country_condition(table)',
                'self._continent_condition(table)', 'self._bounding_box_condition(table)']:
        raise Untranslatable(f'{where}: spatial sub-conditions changed: {subs}')

    def sl(xs):
        return '[' + '; '.join(f'"{x}"%string' for x in xs) + ']'
    return (f'Definition range_conjuncts : list string := {sl(ranges)}.\n'
            f'Definition inlist_conjuncts : list string := {sl(inlists)}.\n'
            f'Definition empty_guard : bool := {"true" if empty_guard else "false"}.\n'
            f'Definition range_guard : string := {cstr(range_guard)}.\n')


def cstr(x: str) -> str:
    """Coq string literal (double quotes doubled; a line break is written ' | ', indentation kept)."""
    x = x.replace('\n', ' | ')
    if any(ord(c) < 32 or ord(c) > 126 for c in x):
        raise Untranslatable(f'non-printable character in {x!r}')
    return '"' + x.replace('"', '""') + '"%string'


def clist(xs) -> str:
    return '[' + '; '.join(xs) + ']'


def _template(n: ast.AST, where: str) -> str:
    """An f-string / string constant / concatenation of those, rendered with {expr} placeholders."""
    if isinstance(n, ast.Constant) and isinstance(n.value, str):
        return n.value
    if isinstance(n, ast.JoinedStr):
        out = ''
        for v in n.values:
            if isinstance(v, ast.Constant):
                out += v.value
            elif isinstance(v, ast.FormattedValue) and v.format_spec is None and v.conversion == -1:
                out += '{' + ast.unparse(v.value) + '}'
            else:
                raise Untranslatable(f'{where}: f-string part')
        return out
    if isinstance(n, ast.BinOp) and isinstance(n.op, ast.Add):
        return _template(n.left, where) + _template(n.right, where)
    if isinstance(n, ast.Call):
        return '{' + ast.unparse(n) + '}'
    raise Untranslatable(f'{where}: not a string template: {ast.unparse(n)[:60]}')


# ---------------------------------------------------------------------------------------------
# filter.py: the spatial condition builders (column mapping, guards, if/elif structure, parameters)
# ---------------------------------------------------------------------------------------------

def _spatial_builder(fn: ast.FunctionDef) -> tuple[str, list[str]]:
    """-> (sub-select template, [branch descriptors]) ; a branch = 'if|elif <test> => return|append <sql> @ <params>'"""
    where = f'filter.py:Filter.{fn.name}'
    sub = None
    branches = []

    def tuple_of(call_or_list):
        t = call_or_list
        if not (isinstance(t, ast.Tuple) and len(t.elts) == 2):
            raise Untranslatable(f'{where}: condition must be a (sql, params) pair')
        return _template(t.elts[0], where), ast.unparse(t.elts[1])

    def branch(node: ast.If, kw: str):
        acts = [x for x in node.body if not isinstance(x, ast.Assert)]
        pre = ''
        if acts and isinstance(acts[0], ast.Assign) and ast.unparse(acts[0].targets[0]) == 'sub_select':
            pre = 'sub_select=' + ast.unparse(acts[0].value) + '; '
            acts = acts[1:]
        if len(acts) != 1:
            raise Untranslatable(f'{where}: branch body')
        a = acts[0]
        if isinstance(a, ast.Return) and isinstance(a.value, ast.List) and len(a.value.elts) == 1:
            sql, prm = tuple_of(a.value.elts[0])
            act = 'return'
        elif isinstance(a, ast.Expr) and isinstance(a.value, ast.Call) and ast.unparse(a.value.func) == 'conds.append' \
                and len(a.value.args) == 1:
            sql, prm = tuple_of(a.value.args[0])
            act = 'append'
        else:
            raise Untranslatable(f'{where}: branch action {ast.unparse(a)[:60]}')
        branches.append(f'{kw} {ast.unparse(node.test)} => {pre}{act} {sql} @ {prm}')
        if node.orelse:
            if len(node.orelse) == 1 and isinstance(node.orelse[0], ast.If):
                branch(node.orelse[0], 'elif')
            else:
                raise Untranslatable(f'{where}: else branch')
    for st in strip_doc(fn.body):
        if isinstance(st, ast.FunctionDef) and st.name == 'sub_select_for':
            if len(st.body) != 1 or not isinstance(st.body[0], ast.Return):
                raise Untranslatable(f'{where}: sub_select_for')
            sub = _template(st.body[0].value, where)
        elif isinstance(st, ast.Assign) and ast.unparse(st.targets[0]) == 'sub_select':
            sub = _template(st.value, where)
        elif isinstance(st, ast.Assign) and ast.unparse(st) == 'conds = []':
            branches.append('conds = []')
        elif isinstance(st, ast.If):
            branch(st, 'if')
        elif isinstance(st, ast.Return) and ast.unparse(st) == 'return conds':
            branches.append('return conds')
        else:
            raise Untranslatable(f'{where}: unexpected statement {ast.unparse(st)[:60]}')
    if sub is None:
        raise Untranslatable(f'{where}: no sub-select')
    return sub, branches


def extract_spatial_builders(path: Path) -> str:
    mod = _parse(path)
    out = ''
    for kind in ('airport', 'country', 'continent', 'bounding_box'):
        sub, br = _spatial_builder(find_function(mod, f'_{kind}_condition', cls='Filter'))
        out += (f'Definition {kind}_subselect : string := {cstr(sub)}.\n'
                f'Definition {kind}_branches : list string := {clist(cstr(b) for b in br)}.\n')
    return out


# ---------------------------------------------------------------------------------------------
# query.py
# ---------------------------------------------------------------------------------------------

def _append_pair(stmts, where):
    """[self._conditions.append(<sql>), self._params.append(<p>) | self._params += [...]] -> (sql template, params src)"""
    if len(stmts) != 2:
        raise Untranslatable(f'{where}: expected one condition and one parameter statement')
    a, b = stmts
    if not (isinstance(a, ast.Expr) and isinstance(a.value, ast.Call) and ast.unparse(a.value.func) == 'self._conditions.append'
            and len(a.value.args) == 1):
        raise Untranslatable(f'{where}: condition append')
    sql = _template(a.value.args[0], where)
    if isinstance(b, ast.Expr) and isinstance(b.value, ast.Call) and ast.unparse(b.value.func) == 'self._params.append' \
            and len(b.value.args) == 1:
        prm = '[' + ast.unparse(b.value.args[0]) + ']'
    elif isinstance(b, ast.AugAssign) and ast.unparse(b.target) == 'self._params' and isinstance(b.op, ast.Add):
        prm = ast.unparse(b.value)
    else:
        raise Untranslatable(f'{where}: parameter append')
    return sql, prm


def extract_query(path: Path) -> str:
    mod = _parse(path)
    out = ''
    # ---- QueryBase._common_conditions
    where = 'query.py:QueryBase._common_conditions'
    body = strip_doc(find_function(mod, '_common_conditions', cls='QueryBase').body)
    srcs = [ast.unparse(x) for x in body]
    reset = srcs[:2] == ['self._conditions = []', 'self._params = []']
    if reset:
        body, srcs = body[2:], srcs[2:]
    if any('_conditions = ' in x or '_params = ' in x for x in srcs):
        raise Untranslatable(f'{where}: _conditions/_params are re-bound somewhere else than at the start')
    if len(body) != 3 or not all(isinstance(x, ast.If) and not x.orelse for x in body):
        raise Untranslatable(f'{where}: expected filter / start_date / end_date blocks, got {len(body)} statements')
    fl, st, en = body
    want_filter = ("if self.filter is not None:\n    cond, p = self.filter.to_sql(table='f')\n    if cond:\n"
                   "        self._conditions.append(cond)\n        self._params.extend(p)")
    if ast.unparse(fl) != want_filter:
        raise Untranslatable(f'{where}: filter block changed')
    if ast.unparse(st.test) != 'self.start_date is not None' or ast.unparse(en.test) != 'self.end_date is not None':
        raise Untranslatable(f'{where}: date guards changed')
    ssql, sprm = _append_pair(st.body, where)
    esql, eprm = _append_pair(en.body, where)
    col = 's.departure_timestamp '
    if not (ssql.startswith(col) and ssql.endswith(' ?') and esql.startswith(col) and esql.endswith(' ?')):
        raise Untranslatable(f'{where}: date conjuncts are not on s.departure_timestamp')
    if sprm != '[int(date_to_timestamp(self.start_date).timestamp())]':
        raise Untranslatable(f'{where}: start parameter {sprm}')
    pre, post = '[int((date_to_timestamp(self.end_date) + timedelta(days=', ')).timestamp())]'
    if not (eprm.startswith(pre) and eprm.endswith(post) and eprm[len(pre):-len(post)].lstrip('-').isdigit()):
        raise Untranslatable(f'{where}: end parameter {eprm}')
    plus = int(eprm[len(pre):-len(post)])
    d2t = find_function(mod, 'date_to_timestamp')
    if ast.unparse(strip_doc(d2t.body)[-1]) != 'return cast(pd.Timestamp, pd.Timestamp(d, tzinfo=UTC))':
        raise Untranslatable('query.py:date_to_timestamp changed')
    wc = find_function(mod, '_where_clause', cls='QueryBase')
    where_src = ast.unparse(strip_doc(wc.body)[-1])
    # ---- Query.to_sql
    where = 'query.py:Query.to_sql'
    qb = strip_doc(find_function(mod, 'to_sql', cls='Query').body)
    i = 0
    validations = []
    while i < len(qb) and isinstance(qb[i], ast.If) and len(qb[i].body) == 1 and isinstance(qb[i].body[0], ast.Raise):
        if not ast.unparse(qb[i].body[0].exc).startswith('ValueError('):
            raise Untranslatable(f'{where}: validation must raise ValueError')
        validations.append(ast.unparse(qb[i].test))
        i += 1
    rest = qb[i:]
    if len(rest) != 6 or ast.unparse(rest[0]) != 'self._common_conditions()':
        raise Untranslatable(f'{where}: expected _common_conditions(), sample, every_nth, sql, limit, return')
    smp, nth, sqlst, lim, ret = rest[1:]
    if not (isinstance(smp, ast.If) and ast.unparse(smp.test) == 'self.sample is not None' and not smp.orelse):
        raise Untranslatable(f'{where}: sample block')
    sample_sql, sample_prm = _append_pair(smp.body, where)
    if not (isinstance(nth, ast.If) and not nth.orelse):
        raise Untranslatable(f'{where}: every_nth block')
    nth_guard = ast.unparse(nth.test)
    anchored = False
    if len(nth.body) == 1 and isinstance(nth.body[0], ast.If) and nth.body[0].orelse:
        inner = nth.body[0]
        if ast.unparse(inner.test) != 'self.start_date is None':
            raise Untranslatable(f'{where}: every_nth inner test {ast.unparse(inner.test)}')
        anchored = True
        min_sql, min_prm = _append_pair(inner.body, where)
        base_sql, base_prm = _append_pair(inner.orelse, where)
    else:
        min_sql, min_prm = _append_pair(nth.body, where)
        base_sql, base_prm = '', ''
    if not (isinstance(sqlst, ast.Assign) and ast.unparse(sqlst.targets[0]) == 'sql'):
        raise Untranslatable(f'{where}: sql assignment')
    q_sql = _template(sqlst.value, where)
    lim_src = ast.unparse(lim)
    if ast.unparse(ret) != 'return (sql, self._params)':
        raise Untranslatable(f'{where}: return')
    # ---- QueryResult.from_row
    fr = find_function(mod, 'from_row', cls='QueryResult')
    call = strip_doc(fr.body)[-1]
    if not (isinstance(call, ast.Return) and isinstance(call.value, ast.Call) and ast.unparse(call.value.func) == 'cls'
            and not call.value.args):
        raise Untranslatable('query.py:QueryResult.from_row: return cls(...)')
    fields = [f'{k.arg}={ast.unparse(k.value)}' for k in call.value.keywords]
    # ---- CountQuery / FrequentFlightQuery
    cq = strip_doc(find_function(mod, 'to_sql', cls='CountQuery').body)
    count_src = [ast.unparse(x) for x in cq]
    cls_count = [n for n in mod.body if isinstance(n, ast.ClassDef) and n.name == 'CountQuery'][0]
    proc = [ast.unparse(x.value) for x in cls_count.body
            if isinstance(x, ast.Assign) and ast.unparse(x.targets[0]) == 'PROCESS_RESULT']
    fq = strip_doc(find_function(mod, 'to_sql', cls='FrequentFlightQuery').body)
    if len(fq) != 4 or not isinstance(fq[0], ast.If) or ast.unparse(fq[1]) != 'self._common_conditions()' \
            or not isinstance(fq[2], ast.Assign) or ast.unparse(fq[3]) != 'return (sql, self._params)':
        raise Untranslatable('query.py:FrequentFlightQuery.to_sql changed shape')
    freq_valid = ast.unparse(fq[0].test)
    freq_sql = _template(fq[2].value, 'query.py:FrequentFlightQuery.to_sql')
    ffr = find_function(mod, 'from_row', cls='FrequentFlightQueryResult')
    freq_fields = ast.unparse(strip_doc(ffr.body)[-1])
    b = lambda x: 'true' if x else 'false'  # noqa: E731
    out += (f'Definition src_reset_first : bool := {b(reset)}.\n'
            f'Definition src_shape : shape := Shape {cstr(ssql[len(col):-2])} {cstr(esql[len(col):-2])} ({plus})%Z '
            f'{cstr(nth_guard)} {b(anchored)}.\n'
            f'Definition src_where_clause : string := {cstr(where_src)}.\n'
            f'Definition src_validations : list string := {clist(cstr(v) for v in validations)}.\n'
            f'Definition src_sample : string * string := ({cstr(sample_sql)}, {cstr(sample_prm)}).\n'
            f'Definition src_nth_min : string * string := ({cstr(min_sql)}, {cstr(min_prm)}).\n'
            f'Definition src_nth_base : string * string := ({cstr(base_sql)}, {cstr(base_prm)}).\n'
            f'Definition src_query_sql : string := {cstr(q_sql)}.\n'
            f'Definition src_limit_offset : string := {cstr(lim_src)}.\n'
            f'Definition src_result_fields : list string := {clist(cstr(f) for f in fields)}.\n'
            f'Definition src_count : list string := {clist(cstr(x) for x in count_src + proc)}.\n'
            f'Definition src_frequent : list string := {clist(cstr(x) for x in (freq_valid, freq_sql, freq_fields))}.\n')
    return out


def extract_database(path: Path) -> str:
    """Database.__call__ / _yield_results (a fresh cursor per query) and the instance state bound in __init__."""
    mod = _parse(path)
    call = [ast.unparse(x) for x in strip_doc(find_function(mod, '__call__', cls='Database').body)]
    yld = [ast.unparse(x) for x in strip_doc(find_function(mod, '_yield_results', cls='Database').body)]
    init = find_function(mod, '__init__', cls='Database')
    attrs = sorted({t.attr for n in ast.walk(init) if isinstance(n, (ast.Assign, ast.AnnAssign))
                    for t in (n.targets if isinstance(n, ast.Assign) else [n.target])
                    if isinstance(t, ast.Attribute) and isinstance(t.value, ast.Name) and t.value.id == 'self'})
    return (f'Definition src_database_call : list string := {clist(cstr(x) for x in call)}.\n'
            f'Definition src_yield_results : list string := {clist(cstr(x) for x in yld)}.\n'
            f'Definition src_database_state : list string := {clist(cstr(x) for x in attrs)}.\n')



HEAD = ('(* generated by translator/c14_extract.py from the current working tree — do not edit *)\n'
        'From Coq Require Import ZArith List String Bool.\nFrom AV Require Import lib.Dates model.C14_Model model.C14_Sql.\n'
        'Import ListNotations.\nOpen Scope Z_scope.\n\n')


def extract_all(repo: Path) -> str:
    return ''.join(t for _, t in extract_parts(repo))


def extract_parts(repo: Path):
    """[(obligation name, text)] — each part is extracted separately so that a failure names the function."""
    src = Path(repo) / 'src' / 'AEIC' / 'missions'
    f, q = src / 'filter.py', src / 'query.py'
    return [('header', HEAD),
            ('extract:filter.py:Filter._normalize+_spatial', extract_normalize(f) + '\n'),
            ('extract:filter.py:Filter.to_sql', extract_to_sql(f) + '\n'),
            ('extract:filter.py:spatial condition builders', extract_spatial_builders(f) + '\n'),
            ('extract:query.py:_common_conditions+Query+CountQuery+FrequentFlightQuery', extract_query(q) + '\n'),
            ('extract:database.py:Database.__call__', extract_database(src / 'database.py'))]

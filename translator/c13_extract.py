"""C13 extractors (fail-closed, shape-specific), built on translator/py2coq.py.

Regenerates from the current working tree, as Gallina text over Z / string / bool:

  oag.py        EXCLUDE_EQUIPMENT, CSVEntry.is_row_valid          -> exclude_equipment, is_row_valid
  oag.py        OAGDatabase.add: defaulted dates, which dates reach _add_schedule, distance conversion
                                                                   -> default_from_md, default_to_md, raw_dates
  units.py      STATUTE_MILES_TO_KM                                -> statute_miles_to_mm
  writable_database.py  _distance_check (decision part + geodesic argument order)
                                                                   -> distance_check_verdict, swap_latlon
  writable_database.py  _make_dow_mask                             -> make_dow_mask
  types/time.py DayOfWeek values, from_pandas                      -> dayofweek_values

Meaning assigned (trusted): Python float arithmetic on kilometres is read as exact arithmetic on integer
millimetres; `x / gc > c` is cross-multiplied (gc > 0 is guaranteed by the preceding zero-distance test,
which the extractor insists on); a NaN geodesic makes every comparison that depends on it false.
"""

from __future__ import annotations

import ast
from fractions import Fraction
from pathlib import Path

from translator.py2coq import Untranslatable, _parse, dump, find_function, strip_doc

KM_TO_MM = 10 ** 6


# ---------------------------------------------------------------------------------------------
# helpers
# ---------------------------------------------------------------------------------------------

def coq_string(s: str) -> str:
    if all(32 <= ord(c) < 127 and c != '"' for c in s):
        return f'"{s}"%string'
    out = 'EmptyString'
    for c in reversed(s):
        if ord(c) > 255:
            raise Untranslatable(f'non-latin1 character in string literal {s!r}')
        out = f'(String (Ascii.ascii_of_nat {ord(c)}) {out})'
    return out


def _const_str_list(n: ast.AST, where: str) -> list[str]:
    if not isinstance(n, (ast.Tuple, ast.List, ast.Set)):
        raise Untranslatable(f'{where}: expected a literal collection of strings')
    out = []
    for e in n.elts:
        if not (isinstance(e, ast.Constant) and isinstance(e.value, str)):
            raise Untranslatable(f'{where}: non-string element')
        out.append(e.value)
    return out


def _module_assign(mod: ast.Module, name: str) -> ast.AST:
    found = [st.value for st in mod.body
             if isinstance(st, ast.Assign) and len(st.targets) == 1
             and isinstance(st.targets[0], ast.Name) and st.targets[0].id == name]
    found += [st.value for st in mod.body
              if isinstance(st, ast.AnnAssign) and isinstance(st.target, ast.Name) and st.target.id == name
              and st.value is not None]
    if len(found) != 1:
        raise Untranslatable(f'module constant {name}: found {len(found)} assignments')
    return found[0]


def _num(n: ast.AST, where: str) -> Fraction:
    if isinstance(n, ast.Constant) and isinstance(n.value, (int, float)) and not isinstance(n.value, bool):
        return Fraction(repr(n.value)) if isinstance(n.value, float) else Fraction(n.value)
    if isinstance(n, ast.UnaryOp) and isinstance(n.op, ast.USub):
        return -_num(n.operand, where)
    raise Untranslatable(f'{where}: numeric literal expected, got {ast.unparse(n)}')


# ---------------------------------------------------------------------------------------------
# oag.py: row validity
# ---------------------------------------------------------------------------------------------

STR_FIELDS = {'carrier': 'c_carrier', 'service': 'c_service', 'operating': 'c_operating', 'genacft': 'c_genacft'}
INT_FIELDS = {'stops': 'c_stops'}


def _row_field(n: ast.AST, rowvar: str):
    if isinstance(n, ast.Subscript) and isinstance(n.value, ast.Name) and n.value.id == rowvar \
            and isinstance(n.slice, ast.Constant) and isinstance(n.slice.value, str):
        return n.slice.value
    return None


def _valid_test(n: ast.AST, rowvar: str) -> str:
    where = 'oag.py:is_row_valid'
    if isinstance(n, ast.BoolOp):
        j = ' && ' if isinstance(n.op, ast.And) else ' || '
        return '(' + j.join(_valid_test(v, rowvar) for v in n.values) + ')'
    if isinstance(n, ast.UnaryOp) and isinstance(n.op, ast.Not):
        return f'(negb {_valid_test(n.operand, rowvar)})'
    if isinstance(n, ast.Compare) and len(n.ops) == 1:
        op, left, right = n.ops[0], n.left, n.comparators[0]
        f = _row_field(left, rowvar)
        if f in STR_FIELDS:
            acc = f'({STR_FIELDS[f]} r)'
            if isinstance(op, (ast.Eq, ast.NotEq)) and isinstance(right, ast.Constant) and isinstance(right.value, str):
                t = f'(String.eqb {acc} {coq_string(right.value)})'
                return t if isinstance(op, ast.Eq) else f'(negb {t})'
            if isinstance(op, (ast.In, ast.NotIn)):
                if isinstance(right, ast.Name) and right.id == 'EXCLUDE_EQUIPMENT':
                    t = f'(str_in {acc} exclude_equipment)'
                else:
                    lits = _const_str_list(right, where)
                    t = f'(str_in {acc} [{"; ".join(coq_string(x) for x in lits)}])'
                return t if isinstance(op, ast.In) else f'(negb {t})'
        # int(row['stops']) <op> k
        if isinstance(left, ast.Call) and isinstance(left.func, ast.Name) and left.func.id == 'int' \
                and len(left.args) == 1 and not left.keywords and _row_field(left.args[0], rowvar) in INT_FIELDS \
                and isinstance(right, ast.Constant) and isinstance(right.value, int) and not isinstance(right.value, bool):
            acc = f'({INT_FIELDS[_row_field(left.args[0], rowvar)]} r)'
            k = f'({right.value})%Z'
            t = {ast.Eq: f'(Z.eqb {acc} {k})', ast.NotEq: f'(negb (Z.eqb {acc} {k}))',
                 ast.Lt: f'(Z.ltb {acc} {k})', ast.LtE: f'(Z.leb {acc} {k})',
                 ast.Gt: f'(Z.ltb {k} {acc})', ast.GtE: f'(Z.leb {k} {acc})'}.get(type(op))
            if t:
                return t
    raise Untranslatable(f'{where}: unsupported test `{ast.unparse(n)}`')


def extract_row_valid(oag: Path) -> str:
    mod = _parse(oag)
    excl = sorted(_const_str_list(_module_assign(mod, 'EXCLUDE_EQUIPMENT'), 'oag.py:EXCLUDE_EQUIPMENT'))
    fn = find_function(mod, 'is_row_valid', cls='CSVEntry')
    if not any(isinstance(d, ast.Name) and d.id == 'staticmethod' for d in fn.decorator_list):
        raise Untranslatable('is_row_valid: expected a staticmethod')
    args = [a.arg for a in fn.args.args]
    if len(args) != 1 or fn.args.vararg or fn.args.kwarg or fn.args.kwonlyargs:
        raise Untranslatable('is_row_valid: signature')
    rowvar = args[0]
    body = strip_doc(fn.body)
    if not body or not (isinstance(body[-1], ast.Return) and isinstance(body[-1].value, ast.Constant)
                        and body[-1].value.value is True):
        raise Untranslatable('is_row_valid: must end with `return True`')
    tests = []
    for st in body[:-1]:
        if not (isinstance(st, ast.If) and not st.orelse and len(st.body) == 1 and isinstance(st.body[0], ast.Return)
                and isinstance(st.body[0].value, ast.Constant) and st.body[0].value.value is False):
            raise Untranslatable(f'is_row_valid: statement is not `if ...: return False`: {ast.unparse(st)[:80]}')
        tests.append(_valid_test(st.test, rowvar))
    chain = 'true'
    for t in reversed(tests):
        chain = f'if {t} then false else\n    {chain}'
    # from_csv_row must consult is_row_valid first and return None for an invalid row
    fcr = find_function(mod, 'from_csv_row', cls='CSVEntry')
    src = ast.unparse(fcr)
    if 'if not cls.is_row_valid(row):\n            return None' not in src:
        raise Untranslatable('from_csv_row: no longer starts by rejecting rows with is_row_valid')
    return (f'Definition exclude_equipment : list string := [{"; ".join(coq_string(x) for x in excl)}].\n'
            f'Definition is_row_valid (r : csvrow) : bool :=\n    {chain}.\n')


# ---------------------------------------------------------------------------------------------
# oag.py: OAGDatabase.add — date defaults, which dates reach _add_schedule, distance conversion
# ---------------------------------------------------------------------------------------------

def extract_add(oag: Path, units: Path) -> str:
    mod = _parse(oag)
    fn = find_function(mod, 'add', cls='OAGDatabase')
    assigns = {st.targets[0].id: st.value for st in ast.walk(fn)
               if isinstance(st, ast.Assign) and len(st.targets) == 1 and isinstance(st.targets[0], ast.Name)}

    def default_md(var: str, raw: str):
        v = assigns.get(var)
        want_left = dump(ast.parse(f'e.{raw}', mode='eval').body)
        if not (isinstance(v, ast.BoolOp) and isinstance(v.op, ast.Or) and len(v.values) == 2
                and dump(v.values[0]) == want_left):
            raise Untranslatable(f'OAGDatabase.add: {var} is not `e.{raw} or date(...)`')
        c = v.values[1]
        if not (isinstance(c, ast.Call) and isinstance(c.func, ast.Name) and c.func.id == 'date' and len(c.args) == 3
                and not c.keywords and dump(c.args[0]) == dump(ast.parse('self._year', mode='eval').body)):
            raise Untranslatable(f'OAGDatabase.add: default of {var} is not date(self._year, m, d)')
        return int(_num(c.args[1], var)), int(_num(c.args[2], var))

    fm = default_md('effective_from', 'efffrom')
    tm = default_md('effective_to', 'effto')

    calls = {}
    for n in ast.walk(fn):
        if isinstance(n, ast.Call) and isinstance(n.func, ast.Attribute) and isinstance(n.func.value, ast.Name) \
                and n.func.value.id == 'self':
            calls.setdefault(n.func.attr, []).append(n)
    for name in ('_add_flight', '_add_schedule', '_distance_check', '_set_flight_count'):
        if len(calls.get(name, [])) != 1:
            raise Untranslatable(f'OAGDatabase.add: expected exactly one call of self.{name}')
    sched = calls['_add_schedule'][0]
    if sched.keywords or len(sched.args) != 11:
        raise Untranslatable('OAGDatabase.add: _add_schedule call shape')
    a5, a6 = ast.unparse(sched.args[5]), ast.unparse(sched.args[6])
    if (a5, a6) == ('e.efffrom', 'e.effto'):
        raw = True
    elif (a5, a6) == ('effective_from', 'effective_to'):
        raw = False
    else:
        raise Untranslatable(f'OAGDatabase.add: _add_schedule receives dates ({a5}, {a6})')
    rest = [ast.unparse(x) for x in sched.args[:5] + sched.args[7:]]
    if rest != ['cur', 'e.line', 'flight_id', 'origin', 'destination', 'e.days', 'e.deptim', 'e.arrtim', 'e.arrday']:
        raise Untranslatable(f'OAGDatabase.add: _add_schedule arguments changed: {rest}')
    fl = calls['_add_flight'][0]
    if [ast.unparse(x) for x in fl.args] != [
            'cur', 'e.carrier', 'e.fltno', 'origin', 'destination', 'effective_from', 'effective_to', 'e.days',
            'e.deptim', 'e.arrtim', 'e.arrday', 'e.service', 'e.inpacft', 'e.seats',
            'e.distance * STATUTE_MILES_TO_KM'] or fl.keywords:
        raise Untranslatable('OAGDatabase.add: _add_flight arguments changed')
    dc = calls['_distance_check'][0]
    if [ast.unparse(x) for x in dc.args] != ['e.line', 'origin', 'destination', 'e.distance * STATUTE_MILES_TO_KM'] \
            or dc.keywords:
        raise Untranslatable('OAGDatabase.add: _distance_check arguments changed (thresholds must be the defaults)')
    sc = calls['_set_flight_count'][0]
    if [ast.unparse(x) for x in sc.args] != ['cur', 'flight_id', 'num_flights'] \
            or ast.unparse(assigns.get('num_flights', ast.Constant(0)))[:19] != 'self._add_schedule(':
        raise Untranslatable('OAGDatabase.add: recorded count is no longer the return value of _add_schedule')

    k = _num(_module_assign(_parse(units), 'STATUTE_MILES_TO_KM'), 'units.py:STATUTE_MILES_TO_KM') * KM_TO_MM
    if k.denominator != 1:
        raise Untranslatable('STATUTE_MILES_TO_KM is not a whole number of millimetres')
    b = 'true' if raw else 'false'
    return (f'Definition default_from_md : Z * Z := (({fm[0]})%Z, ({fm[1]})%Z).\n'
            f'Definition default_to_md : Z * Z := (({tm[0]})%Z, ({tm[1]})%Z).\n'
            f'Definition raw_dates : bool := {b}.\n'
            f'Definition statute_miles_to_mm : Z := ({k.numerator})%Z.\n')


# ---------------------------------------------------------------------------------------------
# writable_database.py: _distance_check
# ---------------------------------------------------------------------------------------------

class _Q:
    """A numeric expression of the distance rule: kind 'km' (integer mm text), 'ratio' (num, den texts),
    'const' (Fraction); `dep` = depends on the geodesic."""

    def __init__(self, kind, a=None, b=None, c=None, dep=False):
        self.kind, self.a, self.b, self.c, self.dep = kind, a, b, c, dep


def _z(fr: Fraction, where: str) -> str:
    if fr.denominator != 1:
        raise Untranslatable(f'{where}: {fr} is not integral in the model units')
    return f'({fr.numerator})%Z'


def _dist_expr(n: ast.AST, env: dict, where: str) -> _Q:
    if isinstance(n, ast.Name):
        if n.id in env:
            return env[n.id]
        raise Untranslatable(f'{where}: unknown name {n.id}')
    if isinstance(n, (ast.Constant, ast.UnaryOp)):
        return _Q('const', c=_num(n, where))
    if isinstance(n, ast.Call) and isinstance(n.func, ast.Name) and n.func.id == 'abs' and len(n.args) == 1:
        x = _dist_expr(n.args[0], env, where)
        if x.kind != 'km':
            raise Untranslatable(f'{where}: abs of a non-distance')
        return _Q('km', a=f'(Z.abs {x.a})', dep=x.dep)
    if isinstance(n, ast.BinOp):
        l, r = _dist_expr(n.left, env, where), _dist_expr(n.right, env, where)
        dep = l.dep or r.dep
        if isinstance(n.op, (ast.Sub, ast.Add)) and l.kind == r.kind == 'km':
            o = '-' if isinstance(n.op, ast.Sub) else '+'
            return _Q('km', a=f'({l.a} {o} {r.a})', dep=dep)
        if isinstance(n.op, ast.Mult):
            if l.kind == 'const' and r.kind == 'km':
                return _Q('km', a=f'({_z(l.c, where)} * {r.a})', dep=dep)
            if l.kind == 'km' and r.kind == 'const':
                return _Q('km', a=f'({_z(r.c, where)} * {l.a})', dep=dep)
            if l.kind == 'const' and r.kind == 'const':
                return _Q('const', c=l.c * r.c)
        if isinstance(n.op, ast.Div) and l.kind == 'km' and r.kind == 'km':
            if r.a != 'g':
                raise Untranslatable(f'{where}: division by something other than the geodesic distance')
            return _Q('ratio', a=l.a, b=r.a, dep=dep)
    raise Untranslatable(f'{where}: unsupported expression `{ast.unparse(n)}`')


def _dist_cmp(n: ast.AST, env: dict, where: str, nan: bool) -> str:
    if isinstance(n, ast.BoolOp):
        j = ' && ' if isinstance(n.op, ast.And) else ' || '
        return '(' + j.join(_dist_cmp(v, env, where, nan) for v in n.values) + ')'
    if isinstance(n, ast.UnaryOp) and isinstance(n.op, ast.Not):
        return f'(negb {_dist_cmp(n.operand, env, where, nan)})'
    if not (isinstance(n, ast.Compare) and len(n.ops) == 1):
        raise Untranslatable(f'{where}: unsupported test `{ast.unparse(n)}`')
    op = type(n.ops[0])
    l, r = _dist_expr(n.left, env, where), _dist_expr(n.comparators[0], env, where)
    if nan and (l.dep or r.dep):
        if op is ast.NotEq:
            raise Untranslatable(f'{where}: != on a NaN-able quantity')
        return 'false'

    def side(x: _Q, other: _Q):
        """text of x scaled so both sides are comparable"""
        if x.kind == 'km':
            if other.kind in ('km', 'const'):
                return x.a
        if x.kind == 'const':
            if other.kind == 'km':
                return _z(x.c * KM_TO_MM, where)
            if other.kind == 'ratio':      # c  vs  num/den  ->  c.num * den  vs  num * c.den
                return f'({x.c.numerator})%Z * {other.b}'
        if x.kind == 'ratio' and other.kind == 'const':
            return f'{x.a} * ({other.c.denominator})%Z'
        raise Untranslatable(f'{where}: cannot compare {x.kind} with {other.kind}')

    a, b = side(l, r), side(r, l)
    t = {ast.Lt: f'({a} <? {b})', ast.LtE: f'({a} <=? {b})', ast.Gt: f'({b} <? {a})', ast.GtE: f'({b} <=? {a})'}.get(op)
    if t is None:
        raise Untranslatable(f'{where}: comparison {op.__name__}')
    return t


_WARN_VERDICT = {'ZERO_DISTANCE': 'DZero', 'SUSPICIOUS_DISTANCE': 'DSuspicious'}


def _dist_block(stmts: list, env: dict, where: str, nan: bool, pending: str | None = None, ind: str = '    ') -> str:
    if not stmts:
        raise Untranslatable(f'{where}: control reaches the end without a return')
    st, rest = stmts[0], stmts[1:]
    if isinstance(st, ast.Return):
        if not (isinstance(st.value, ast.Constant) and isinstance(st.value.value, bool)):
            raise Untranslatable(f'{where}: return of a non-literal')
        if st.value.value:
            return ind + 'DPlausible'
        if pending is None:
            raise Untranslatable(f'{where}: `return False` without a recorded warning')
        return ind + pending
    if isinstance(st, ast.Assign) and len(st.targets) == 1 and isinstance(st.targets[0], ast.Name):
        env = dict(env)
        env[st.targets[0].id] = _dist_expr(st.value, env, where)
        return _dist_block(rest, env, where, nan, pending, ind)
    if isinstance(st, ast.Expr) and isinstance(st.value, ast.Call) and ast.unparse(st.value.func) == 'self._warn':
        kind = ast.unparse(st.value.args[0]) if st.value.args else ''
        if not kind.startswith('Warning.Type.') or kind.split('.')[-1] not in _WARN_VERDICT:
            raise Untranslatable(f'{where}: unknown warning {kind}')
        return _dist_block(rest, env, where, nan, _WARN_VERDICT[kind.split('.')[-1]], ind)
    if isinstance(st, ast.Expr) and isinstance(st.value, ast.Constant):
        return _dist_block(rest, env, where, nan, pending, ind)
    if isinstance(st, ast.If) and not st.orelse:
        t = _dist_cmp(st.test, env, where, nan)
        th = _dist_block(st.body + rest, env, where, nan, pending, ind + '  ')
        el = _dist_block(rest, env, where, nan, pending, ind + '  ')
        return f'{ind}if {t} then\n{th}\n{ind}else\n{el}'
    raise Untranslatable(f'{where}: unsupported statement `{ast.unparse(st)[:70]}`')


def extract_distance_check(wdb: Path) -> str:
    where = 'writable_database.py:_distance_check'
    fn = find_function(_parse(wdb), '_distance_check', cls='WritableDatabase')
    names = [a.arg for a in fn.args.args]
    if names[:5] != ['self', 'line', 'origin', 'destination', 'given_distance_km'] or fn.args.vararg or fn.args.kwarg:
        raise Untranslatable(f'{where}: signature')
    thr = names[5:]
    if len(thr) != len(fn.args.defaults) or len(thr) != 3:
        raise Untranslatable(f'{where}: expected three threshold parameters with defaults')
    env: dict = {'given_distance_km': _Q('km', a='given')}
    kinds = {}
    for nme, dflt in zip(thr, fn.args.defaults):
        c = _num(dflt, where)
        if nme.endswith('_km'):
            env[nme] = _Q('km', a=_z(c * KM_TO_MM, where))
            kinds[nme] = c
        elif nme.endswith('_percent'):
            env[nme] = _Q('const', c=c)
        else:
            raise Untranslatable(f'{where}: threshold {nme} has no unit suffix')
    body = strip_doc(fn.body)
    first = body[0]
    # gc_distance_km = GEOD.inv(a, b, c, d)[2] / 1000.0
    if not (isinstance(first, ast.Assign) and len(first.targets) == 1 and isinstance(first.targets[0], ast.Name)):
        raise Untranslatable(f'{where}: first statement must compute the geodesic distance')
    gname = first.targets[0].id
    v = first.value
    ok = (isinstance(v, ast.BinOp) and isinstance(v.op, ast.Div) and _num(v.right, where) == 1000
          and isinstance(v.left, ast.Subscript) and isinstance(v.left.slice, ast.Constant) and v.left.slice.value == 2
          and isinstance(v.left.value, ast.Call) and ast.unparse(v.left.value.func) == 'GEOD.inv'
          and len(v.left.value.args) == 4 and not v.left.value.keywords)
    if not ok:
        raise Untranslatable(f'{where}: geodesic distance is not GEOD.inv(...)[2] / 1000.0')
    order = [ast.unparse(a) for a in v.left.value.args]
    lonlat = ['origin.airport.longitude', 'origin.airport.latitude',
              'destination.airport.longitude', 'destination.airport.latitude']
    latlon = [lonlat[1], lonlat[0], lonlat[3], lonlat[2]]
    if order == lonlat:
        swap = 'false'
    elif order == latlon:
        swap = 'true'
    else:
        raise Untranslatable(f'{where}: GEOD.inv argument order {order}')
    env[gname] = _Q('km', a='g', dep=True)
    # the zero-distance test must come first and have a positive threshold (division by gc later)
    zt = [k for k in kinds if 'zero' in k]
    if len(zt) != 1 or kinds[zt[0]] <= 0:
        raise Untranslatable(f'{where}: zero-distance threshold')
    want_first = dump(ast.parse(f'{gname} < {zt[0]}', mode='eval').body)
    if not (len(body) > 1 and isinstance(body[1], ast.If) and dump(body[1].test) == want_first
            and isinstance(body[1].body[-1], ast.Return)):
        raise Untranslatable(f'{where}: the zero-distance test must precede the relative test')
    some = _dist_block(body[1:], env, where, nan=False)
    none = _dist_block(body[1:], env, where, nan=True)
    return (f'Definition swap_latlon : bool := {swap}.\n'
            'Definition distance_check_verdict (gc : option Z) (given : Z) : dverdict :=\n'
            '  match gc with\n  | Some g =>\n' + some + '\n  | None =>\n' + none + '\n  end.\n')


# ---------------------------------------------------------------------------------------------
# writable_database.py: _make_dow_mask ; types/time.py: DayOfWeek
# ---------------------------------------------------------------------------------------------

def extract_dow(wdb: Path, timepy: Path) -> str:
    fn = find_function(_parse(wdb), '_make_dow_mask', cls='WritableDatabase')
    body = strip_doc(fn.body)
    if len(body) != 1 or not isinstance(body[0], ast.Return):
        raise Untranslatable('_make_dow_mask: body must be one return')
    v = body[0].value
    ok = (isinstance(v, ast.Call) and isinstance(v.func, ast.Name) and v.func.id == 'sum' and len(v.args) == 1
          and isinstance(v.args[0], ast.GeneratorExp) and len(v.args[0].generators) == 1)
    if not ok:
        raise Untranslatable('_make_dow_mask: expected sum(<generator>)')
    g = v.args[0].generators[0]
    if not (isinstance(g.target, ast.Name) and not g.ifs and isinstance(g.iter, ast.Name)
            and g.iter.id == fn.args.args[-1].arg):
        raise Untranslatable('_make_dow_mask: generator must run over the days argument')
    var = g.target.id
    e = v.args[0].elt
    if not (isinstance(e, ast.BinOp) and isinstance(e.op, ast.LShift) and isinstance(e.right, ast.BinOp)
            and isinstance(e.right.op, ast.Sub) and ast.unparse(e.right.left) == f'{var}.value'):
        raise Untranslatable(f'_make_dow_mask: element must be <b> << ({var}.value - <k>): {ast.unparse(e)}')
    base, off = _num(e.left, 'dow'), _num(e.right.right, 'dow')
    mod = _parse(timepy)
    cls = [n for n in mod.body if isinstance(n, ast.ClassDef) and n.name == 'DayOfWeek']
    if len(cls) != 1:
        raise Untranslatable('types/time.py: DayOfWeek not found')
    members = [(st.targets[0].id, st.value.value) for st in cls[0].body
               if isinstance(st, ast.Assign) and isinstance(st.targets[0], ast.Name)
               and isinstance(st.value, ast.Constant) and isinstance(st.value.value, int)]
    if [m for m, _ in members] != ['MONDAY', 'TUESDAY', 'WEDNESDAY', 'THURSDAY', 'FRIDAY', 'SATURDAY', 'SUNDAY']:
        raise Untranslatable('DayOfWeek: member names/order changed')
    fp = find_function(mod, 'from_pandas', cls='DayOfWeek')
    ret = strip_doc(fp.body)
    if len(ret) != 1 or ast.unparse(ret[0]) != f'return cls({fp.args.args[1].arg}.isoweekday())':
        raise Untranslatable('DayOfWeek.from_pandas is no longer cls(t.isoweekday())')
    vals = '; '.join(f'({v})%Z' for _, v in members)
    return (f'Definition make_dow_mask : list Z -> Z := dow_mask_gen {_z(base, "dow")} {_z(off, "dow")}.\n'
            f'Definition dayofweek_values : list Z := [{vals}].\n')


# ---------------------------------------------------------------------------------------------
# oag.py: CSVEntry.from_csv_row — the CSV conventions (strict shapes; the constants become parameters)
# ---------------------------------------------------------------------------------------------

def _same(node: ast.AST, src: str) -> bool:
    want = ast.parse(src).body[0]
    return dump(node) == dump(want)


def extract_parsing(oag: Path) -> str:
    where = 'oag.py:CSVEntry.from_csv_row'
    fn = find_function(_parse(oag), 'from_csv_row', cls='CSVEntry')
    body = strip_doc(fn.body)
    if len(body) != 1 or not isinstance(body[0], ast.Try):
        raise Untranslatable(f'{where}: body must be one try/except')
    tr = body[0]
    if not (len(tr.handlers) == 1 and ast.unparse(tr.handlers[0].type) == 'Exception' and not tr.orelse
            and not tr.finalbody and isinstance(tr.handlers[0].body[-1], ast.Return)
            and ast.unparse(tr.handlers[0].body[-1]) == 'return None'):
        raise Untranslatable(f'{where}: a failing conversion must be caught and the row dropped (return None)')
    stmts = tr.body
    helpers = {s.name: s for s in stmts if isinstance(s, ast.FunctionDef)}
    for h in ('make_date', 'make_time', 'optional', 'convert_arrday'):
        if h not in helpers:
            raise Untranslatable(f'{where}: helper {h} not found')
    # make_date
    md = helpers['make_date']
    consts = [n.value for n in ast.walk(md) if isinstance(n, ast.Constant) and isinstance(n.value, (str, int))
              and not isinstance(n.value, bool)]
    markers = [c for c in consts if isinstance(c, str) and len(c) == 8]
    ints = [c for c in consts if isinstance(c, int)]
    ints = sorted(ints)
    if len(markers) != 2 or len(ints) != 4 or ints[0] != ints[1] or ints[2] != ints[3]:
        raise Untranslatable(f'{where}: make_date constants {consts}')
    k1, k2 = ints[2], ints[0]
    src_md = ast.unparse(md)
    markers.sort(key=src_md.index)
    if not _same(md, f"def make_date(t: str) -> date | None:\n    if t == {markers[0]!r} or t == {markers[1]!r}:\n"
                     f"        return None\n    tint = int(t)\n"
                     f"    return date(tint // {k1}, tint % {k1} // {k2}, tint % {k2})"):
        raise Untranslatable(f'{where}: make_date changed shape')
    # make_time
    mt = helpers['make_time']
    ints = [n.value for n in ast.walk(mt) if isinstance(n, ast.Constant) and isinstance(n.value, int)]
    if len(ints) != 2 or ints[0] != ints[1] or not _same(
            mt, f"def make_time(t: str) -> TimeOfDay:\n    tint = int(t)\n"
                f"    return TimeOfDay(hour=tint // {ints[0]}, minute=tint % {ints[0]})"):
        raise Untranslatable(f'{where}: make_time changed shape')
    kt = ints[0]
    # convert_arrday
    ca = helpers['convert_arrday']
    if not (len(ca.body) == 1 and isinstance(ca.body[0], ast.Match) and ast.unparse(ca.body[0].subject) == 't'
            and len(ca.body[0].cases) == 3):
        raise Untranslatable(f'{where}: convert_arrday must be a three-way match on t')
    c_prev, c_blank, c_else = ca.body[0].cases
    if not (isinstance(c_prev.pattern, ast.MatchValue) and isinstance(c_prev.pattern.value, ast.Constant)
            and isinstance(c_prev.pattern.value.value, str) and len(c_prev.body) == 1
            and isinstance(c_prev.body[0], ast.Return)):
        raise Untranslatable(f'{where}: convert_arrday first case')
    prev_code, prev_val = c_prev.pattern.value.value, int(_num(c_prev.body[0].value, where))
    pats = c_blank.pattern.patterns if isinstance(c_blank.pattern, ast.MatchOr) else [c_blank.pattern]
    blanks = []
    for p_ in pats:
        if not (isinstance(p_, ast.MatchValue) and isinstance(p_.value, ast.Constant) and isinstance(p_.value.value, str)):
            raise Untranslatable(f'{where}: convert_arrday blank case')
        blanks.append(p_.value.value)
    if not (len(c_blank.body) == 1 and isinstance(c_blank.body[0], ast.Return)):
        raise Untranslatable(f'{where}: convert_arrday blank case body')
    blank_val = int(_num(c_blank.body[0].value, where))
    if not (isinstance(c_else.pattern, ast.MatchAs) and c_else.pattern.pattern is None and c_else.guard is None
            and len(c_else.body) == 1 and ast.unparse(c_else.body[0]) == 'return int(t)'):
        raise Untranslatable(f'{where}: convert_arrday default case must be int(t)')
    if c_prev.guard is not None or c_blank.guard is not None:
        raise Untranslatable(f'{where}: convert_arrday guards')
    # optional
    if not _same(helpers['optional'], "def optional(t: str) -> str | None:\n    return t if t else None"):
        raise Untranslatable(f'{where}: optional changed')
    # days loop
    rest = [s for s in stmts if not isinstance(s, ast.FunctionDef)]
    srcs = [ast.unparse(s) for s in rest]
    if len(rest) != 6:
        raise Untranslatable(f'{where}: expected validity test, days, days loop, flight number (2), return; got {len(rest)}')
    if srcs[0] != 'if not cls.is_row_valid(row):\n    return None' or srcs[1] != 'days = set()':
        raise Untranslatable(f'{where}: prologue changed')
    loop = rest[2]
    rng = [n for n in ast.walk(loop) if isinstance(n, ast.Call) and ast.unparse(n.func) == 'range']
    if len(rng) != 1 or len(rng[0].args) != 2:
        raise Untranslatable(f'{where}: days loop range')
    lo, hi = int(_num(rng[0].args[0], where)), int(_num(rng[0].args[1], where))
    if srcs[2] != (f"if row.get('days'):\n    for day in range({lo}, {hi}):\n        if str(day) in row['days']:\n"
                   "            days.add(DayOfWeek(day))"):
        raise Untranslatable(f'{where}: days loop changed')
    if srcs[3] != "fltno = row.get('fltno')" or \
            srcs[4] != "if fltno is None or fltno == '':\n    fltno = 0\nelse:\n    fltno = int(fltno)":
        raise Untranslatable(f'{where}: flight number handling changed')
    ret = rest[5]
    if not (isinstance(ret, ast.Return) and isinstance(ret.value, ast.Call) and ast.unparse(ret.value.func) == 'cls'
            and not ret.value.args):
        raise Untranslatable(f'{where}: must end with return cls(...)')
    got = {k.arg: ast.unparse(k.value) for k in ret.value.keywords}
    want = {'line': 'line', 'carrier': "row['carrier']", 'fltno': 'fltno', 'depapt': "row['depapt']",
            'depctry': "optional(row.get('depctry', ''))", 'arrapt': "row['arrapt']",
            'arrctry': "optional(row.get('arrctry', ''))", 'deptim': "make_time(row['deptim'])",
            'arrtim': "make_time(row['arrtim'])", 'arrday': "convert_arrday(row['arrday'])", 'days': 'days',
            'distance': "int(row['distance'])", 'service': "row['service']", 'inpacft': "row['inpacft']",
            'seats': "int(row['seats'])", 'efffrom': "make_date(row['efffrom'])", 'effto': "make_date(row['effto'])",
            'stops': "int(row['stops'])", 'longest': "row['longest'] == 'L'"}
    if got != want:
        diff = {k: (got.get(k), want.get(k)) for k in set(got) | set(want) if got.get(k) != want.get(k)}
        raise Untranslatable(f'{where}: field mapping changed: {diff}')
    bl = '[' + '; '.join(coq_string(b) for b in blanks) + ']'
    return (f'Definition src_parse_date := parse_date_gen [{coq_string(markers[0])}; {coq_string(markers[1])}] '
            f'({k1})%Z ({k2})%Z.\n'
            f'Definition src_parse_time := parse_time_gen ({kt})%Z.\n'
            f'Definition src_parse_arrday := parse_arrday_gen {coq_string(prev_code)} ({prev_val})%Z {bl} ({blank_val})%Z.\n'
            f'Definition src_parse_days := parse_days_gen ({lo})%Z ({hi})%Z.\n')



# ---------------------------------------------------------------------------------------------
# writable_database.py: _add_schedule (instance arithmetic), importer state, od_pair key
# ---------------------------------------------------------------------------------------------

def cstr(x: str) -> str:
    x = x.replace('\n', ' | ')
    if any(ord(c) < 32 or ord(c) > 126 for c in x):
        raise Untranslatable(f'non-printable character in {x!r}')
    return '"' + x.replace('"', '""') + '"%string'


def extract_add_schedule(wdb: Path) -> str:
    """The statements of _add_schedule, in order, as data: the inclusive date range, the weekday test, the two
    localisations (wall-clock time built first, then localised), the arrival day offset, the drop test, the UTC day,
    the stored tuple, and the returned count."""
    where = 'writable_database.py:_add_schedule'
    fn = find_function(_parse(wdb), '_add_schedule', cls='WritableDatabase')
    body = strip_doc(fn.body)
    if len(body) != 4:
        raise Untranslatable(f'{where}: expected data = [], the date loop, the bulk insert, the return; got {len(body)} statements')
    init, loop, ins, ret = body
    if ast.unparse(init) != 'data = []':
        raise Untranslatable(f'{where}: data initialisation')
    if not (isinstance(loop, ast.For) and not loop.orelse and ast.unparse(loop.target) == 'flight_date'):
        raise Untranslatable(f'{where}: loop over flight_date')
    lb = [x for x in loop.body if not (isinstance(x, ast.Expr) and isinstance(x.value, ast.Constant))]
    if len(lb) != 8:
        raise Untranslatable(f'{where}: loop body has {len(lb)} statements (expected weekday test, two localisations, two '
                             'timestamps, drop test, day, append)')
    wk, dep, arr, dts, ats, drop, day, app = lb
    if not (isinstance(wk, ast.If) and [ast.unparse(x) for x in wk.body] == ['continue'] and not wk.orelse):
        raise Untranslatable(f'{where}: weekday test must `continue`')
    if not (isinstance(drop, ast.If) and not drop.orelse and len(drop.body) == 2
            and ast.unparse(drop.body[0]).startswith('self._warn(Warning.Type.TIME_MISORDERING, line,')
            and ast.unparse(drop.body[1]) == 'continue'):
        raise Untranslatable(f'{where}: drop test must warn TIME_MISORDERING and `continue`')
    if not (isinstance(ins, ast.If) and not ins.orelse and len(ins.body) == 1):
        raise Untranslatable(f'{where}: bulk insert block')
    insert_sql = ' '.join(ins.body[0].value.args[0].value.split()) if (
        isinstance(ins.body[0], ast.Expr) and isinstance(ins.body[0].value, ast.Call)
        and ast.unparse(ins.body[0].value.func) == 'cur.executemany' and len(ins.body[0].value.args) == 2
        and isinstance(ins.body[0].value.args[0], ast.Constant) and ast.unparse(ins.body[0].value.args[1]) == 'data') else None
    if insert_sql is None:
        raise Untranslatable(f'{where}: cur.executemany(<sql>, data)')
    names = [a.arg for a in fn.args.args]
    items = [('sched_params', ', '.join(names)), ('sched_range', ast.unparse(loop.iter)),
             ('sched_weekday_skip', ast.unparse(wk.test)), ('sched_dep_local', ast.unparse(dep)),
             ('sched_arr_local', ast.unparse(arr)), ('sched_dep_utc', ast.unparse(dts)), ('sched_arr_utc', ast.unparse(ats)),
             ('sched_drop_test', ast.unparse(drop.test)), ('sched_day', ast.unparse(day)), ('sched_append', ast.unparse(app)),
             ('sched_insert_guard', ast.unparse(ins.test)), ('sched_insert_sql', insert_sql),
             ('sched_return', ast.unparse(ret))]
    mod = _parse(wdb)
    epoch = ast.unparse(_module_assign(mod, 'EPOCH'))
    items.append(('sched_epoch', epoch))
    return ''.join(f'Definition {k} : string := {cstr(v)}.\n' for k, v in items)


def extract_importer_state(wdb: Path) -> str:
    """Instance state of WritableDatabase (attributes bound in __init__), the state _distance_check consults, and the
    direction-independent route key of _add_flight."""
    mod = _parse(wdb)
    init = find_function(mod, '__init__', cls='WritableDatabase')
    attrs = []
    for n in ast.walk(init):
        tgt = None
        if isinstance(n, ast.Assign) and len(n.targets) == 1:
            tgt = n.targets[0]
        elif isinstance(n, ast.AnnAssign):
            tgt = n.target
        if isinstance(tgt, ast.Attribute) and isinstance(tgt.value, ast.Name) and tgt.value.id == 'self':
            attrs.append(tgt.attr)
    dc = find_function(mod, '_distance_check', cls='WritableDatabase')
    used = sorted({n.attr for n in ast.walk(dc) if isinstance(n, ast.Attribute) and isinstance(n.value, ast.Name)
                   and n.value.id == 'self'})
    glob = sorted({n.id for st in dc.body for n in ast.walk(st) if isinstance(n, ast.Name) and isinstance(n.ctx, ast.Load)}
                  - {a.arg for a in dc.args.args} - {'abs'}
                  - {t.id for n in ast.walk(dc) if isinstance(n, ast.Assign) for t in n.targets if isinstance(t, ast.Name)})
    if used != ['_warn']:
        raise Untranslatable(f'writable_database.py:_distance_check consults instance state besides _warn: {used}')
    af = find_function(mod, '_add_flight', cls='WritableDatabase')
    od = [ast.unparse(n.value) for n in ast.walk(af) if isinstance(n, ast.Assign) and ast.unparse(n.targets[0]) == 'od_pair']
    if len(od) != 1:
        raise Untranslatable('writable_database.py:_add_flight: od_pair assignment')
    sl = lambda xs: '[' + '; '.join(cstr(x) for x in xs) + ']'  # noqa: E731
    return (f'Definition importer_state : list string := {sl(sorted(attrs))}.\n'
            f'Definition distance_check_names : list string := {sl(glob)}.\n'
            f'Definition od_pair_expr : string := {cstr(od[0])}.\n')



# ---------------------------------------------------------------------------------------------
# utils/airports.py: which airports are known
# ---------------------------------------------------------------------------------------------

def extract_airports(ap: Path) -> str:
    """AirportsData: the row filter of _read_file (the condition of its dict comprehension), its key, the two files
    read (main, then the patch file laid over it) and the lookup."""
    where = 'utils/airports.py:AirportsData'
    mod = _parse(ap)
    rf = find_function(mod, '_read_file', cls='AirportsData')
    comps = [n for n in ast.walk(rf) if isinstance(n, ast.DictComp)]
    if len(comps) != 1 or len(comps[0].generators) != 1:
        raise Untranslatable(f'{where}._read_file: expected one dict comprehension over the CSV rows')
    dc = comps[0]
    g = dc.generators[0]
    if ast.unparse(g.target) != 'row' or ast.unparse(g.iter) != 'reader':
        raise Untranslatable(f'{where}._read_file: comprehension must run over `row in reader`')
    key = ast.unparse(dc.key)
    flt = ' and '.join(ast.unparse(c) for c in g.ifs)
    val = dc.value
    if not (isinstance(val, ast.Call) and ast.unparse(val.func) == 'Airport'):
        raise Untranslatable(f'{where}._read_file: values must be Airport(...)')
    kw = {k.arg: ast.unparse(k.value) for k in val.keywords}
    for k, want in (('iata_code', "row['iata_code']"), ('latitude', "float(row['latitude_deg'])"),
                    ('longitude', "float(row['longitude_deg'])"), ('country', "row['iso_country']")):
        if kw.get(k) != want:
            raise Untranslatable(f'{where}._read_file: Airport.{k} = {kw.get(k)}')
    init = find_function(mod, '__init__', cls='AirportsData')
    srcs = [ast.unparse(x) for x in strip_doc(init.body)]
    gi = find_function(mod, '__getitem__', cls='AirportsData')
    lookup = ast.unparse(strip_doc(gi.body)[-1])
    fn = find_function(mod, 'airport')
    if ast.unparse(strip_doc(fn.body)[-1]) != 'return _airports[code]':
        raise Untranslatable('utils/airports.py:airport(): lookup changed')
    sl = lambda xs: '[' + '; '.join(cstr(x) for x in xs) + ']'  # noqa: E731
    return (f'Definition airport_row_key : string := {cstr(key)}.\n'
            f'Definition airport_row_filter : string := {cstr(flt)}.\n'
            f'Definition airport_sources : list string := {sl(srcs)}.\n'
            f'Definition airport_lookup : string := {cstr(lookup)}.\n')



HEAD = ('(* generated by translator/c13_extract.py from the current working tree — do not edit *)\n'
        'From Coq Require Import ZArith List String Bool Ascii.\n'
        'From AV Require Import lib.Dates model.C13_Model model.C13_Parse model.C13_Shape.\n'
        'Import ListNotations.\nOpen Scope Z_scope.\n\n')


def extract_parts(repo: Path):
    """[(obligation name, thunk)] — each source function under its own name."""
    src = Path(repo) / 'src' / 'AEIC'
    oag, wdb = src / 'missions/oag.py', src / 'missions/writable_database.py'
    return [('extract:oag.py:CSVEntry.is_row_valid+EXCLUDE_EQUIPMENT', lambda: extract_row_valid(oag) + '\n'),
            ('extract:oag.py:OAGDatabase.add+units.py', lambda: extract_add(oag, src / 'units.py') + '\n'),
            ('extract:writable_database.py:_distance_check', lambda: extract_distance_check(wdb) + '\n'),
            ('extract:writable_database.py:_make_dow_mask+types/time.py:DayOfWeek',
             lambda: extract_dow(wdb, src / 'types/time.py') + '\n'),
            ('extract:oag.py:CSVEntry.from_csv_row', lambda: extract_parsing(oag) + '\n'),
            ('extract:writable_database.py:_add_schedule', lambda: extract_add_schedule(wdb) + '\n'),
            ('extract:writable_database.py:importer state+_add_flight od_pair', lambda: extract_importer_state(wdb) + '\n'),
            ('extract:utils/airports.py:AirportsData', lambda: extract_airports(src / 'utils/airports.py'))]


def extract_all(repo: Path) -> str:
    return HEAD + ''.join(fn() for _, fn in extract_parts(repo))

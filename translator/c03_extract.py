"""C03 extractor: the facts about trajectories/store.py (and Container.species) that coq/model/C03_Model.v
embodies  ->  Gallina record `Gen.C03_Extracted.facts : code_facts`.

Fail-closed and shape-specific: every statement of _write_to_nc_var, _read_from_nc_var (+ _read_thrust_modes), the
call sites that hand a species list to them, _create_dimensions, the species arguments of _create_nc_file in _create /
create_associated and Container.species must have one of the recognised forms (normalised with ast.unparse, so
layout and comments do not matter); what varies between recognised forms — which sequence each loop enumerates
(`species` of the file, the `Species` enum, `ThrustMode`), whether unknown species are refused, whether unwritten
entries are skipped, ... — is captured and emitted.  Anything else raises `Untranslatable`.
"""

from __future__ import annotations

import ast
import re
from dataclasses import dataclass, field
from pathlib import Path

from translator.py2coq import Untranslatable

SEQ = {'species': 'OverFileSpecies', 'Species': 'OverSpeciesEnum', 'ThrustMode': 'OverThrustModes'}


@dataclass
class Facts:
    write: list = field(default_factory=list)        # [(has_sp, has_tm, coq wcase)]
    write_refuses_unknown: bool = False
    write_none: tuple = (False, False)
    writer_gets_file_species: bool = False
    read: list = field(default_factory=list)         # [(sp, tm, pt, coq rcase)]
    written_test: tuple = (False, False)
    read_empty_optional_none: bool = False
    reader_gets_file_species: bool = False
    npoints_skips_unset: bool = False
    species_dim_from_argument: bool = False
    modes_dim_from_enum: bool = False
    create_species_of_first: bool = False
    mapped_species_of_first_result: bool = False
    species_skip_unset: bool = False
    coord_with_every_variable: bool = False
    notes: list = field(default_factory=list)

    @property
    def repaired(self) -> bool:
        return self.write_refuses_unknown


def _u(node) -> str:
    return ast.unparse(node)


def _body(fn: ast.FunctionDef):
    b = fn.body
    if b and isinstance(b[0], ast.Expr) and isinstance(b[0].value, ast.Constant) and isinstance(b[0].value.value, str):
        b = b[1:]
    return b


def _seq(name: str, where: str, allowed) -> str:
    if name not in allowed:
        raise Untranslatable(f'{where}: loop over `{name}`, expected one of {sorted(allowed)}')
    return SEQ[name]


def _bool(b: bool) -> str:
    return 'true' if b else 'false'


def _match_full(pattern: str, text: str, where: str):
    m = re.fullmatch(pattern, text, re.S)
    if not m:
        raise Untranslatable(f'{where}: unrecognised form:\n{text[:400]}')
    return m


def _case_key(case: ast.match_case, n: int, where: str):
    """pattern of a match case -> list of bool tuples (an or-pattern gives several)"""
    def one(p):
        if isinstance(p, ast.MatchSequence) and len(p.patterns) == n and all(
                isinstance(q, ast.MatchSingleton) and isinstance(q.value, bool) for q in p.patterns):
            return tuple(q.value for q in p.patterns)
        raise Untranslatable(f'{where}: unsupported case pattern {_u(p)}')
    p = case.pattern
    if isinstance(p, ast.MatchOr):
        return [one(q) for q in p.patterns]
    if isinstance(p, ast.MatchAs) and p.pattern is None and p.name is None:
        return None                       # case _
    return [one(p)]


# ---------------------------------------------------------------------------------------------------------
# _write_to_nc_var
# ---------------------------------------------------------------------------------------------------------

def _extract_writer(fn: ast.FunctionDef, f: Facts):
    W = '_write_to_nc_var'
    params = [a.arg for a in fn.args.args]
    if params not in (['self', 'var', 'index', 'name', 'field', 'val'],
                      ['self', 'var', 'index', 'name', 'field', 'val', 'species']):
        raise Untranslatable(f'{W}: unexpected parameters {params}')
    has_species_param = 'species' in params
    body = list(_body(fn))
    # 1. None handling
    _match_full(r"if val is None:\n    if field\.required:\n        raise ValueError\(.*\)\n    return", _u(body[0]), f'{W}: None handling')
    f.write_none = (True, True)
    if _u(body[1]) != 'has_sp = Dimension.SPECIES in field.dimensions' or \
            _u(body[2]) != 'has_tm = Dimension.THRUST_MODE in field.dimensions':
        raise Untranslatable(f'{W}: has_sp / has_tm are not computed from the field dimensions as expected')
    rest = body[3:]
    # 2. optional guard against species that have no place in the file
    if len(rest) == 2:
        _match_full(r"if has_sp:\n    unknown = \[sp\.name for sp in val if sp not in species\]\n"
                    r"    if len\(unknown\) > 0:\n        raise ValueError\(.*\)", _u(rest[0]), f'{W}: unknown-species guard')
        if not has_species_param:
            raise Untranslatable(f'{W}: guard uses `species` but the function has no such parameter')
        f.write_refuses_unknown = True
        rest = rest[1:]
    if len(rest) != 1 or not isinstance(rest[0], ast.Match) or _u(rest[0].subject) != '(has_sp, has_tm)':
        raise Untranslatable(f'{W}: expected a single `match (has_sp, has_tm)` after the preamble')
    allowed_sp = {'species', 'Species'} if has_species_param else {'Species'}
    seen = {}
    for case in rest[0].cases:
        keys = _case_key(case, 2, W)
        if keys is None or len(keys) != 1:
            raise Untranslatable(f'{W}: unexpected case {_u(case.pattern)}')
        key = keys[0]
        text = '\n'.join(_u(s) for s in case.body)
        where = f'{W} case {key}'
        if key == (False, False):
            _match_full(r"var\[index\] = val", text, where)
            coq = 'WPlain'
        elif key == (False, True):
            m = _match_full(r"for ti, tm in enumerate\((\w+)\):\n    var\[index, ti\] = val\[tm\]", text, where)
            coq = f'WModes {_seq(m.group(1), where, {"ThrustMode"})}'
        elif key == (True, False):
            m = _match_full(r"for si, sp in enumerate\((\w+)\):\n    if sp in val:\n        var\[index, si\] = val\[sp\]", text, where)
            coq = f'WSpecies {_seq(m.group(1), where, allowed_sp)}'
        elif key == (True, True):
            m = _match_full(r"for si, sp in enumerate\((\w+)\):\n    for ti, tm in enumerate\((\w+)\):\n"
                            r"        if sp in val and tm in val\[sp\]:\n            var\[index, si, ti\] = val\[sp\]\[tm\]", text, where)
            coq = f'WSpeciesModes {_seq(m.group(1), where, allowed_sp)} {_seq(m.group(2), where, {"ThrustMode"})}'
        else:
            raise Untranslatable(f'{W}: unexpected case {key}')
        if key in seen:
            raise Untranslatable(f'{W}: case {key} twice')
        seen[key] = coq
    order = [(False, False), (False, True), (True, False), (True, True)]
    if set(seen) != set(order):
        raise Untranslatable(f'{W}: cases {sorted(seen)} do not cover the four dimension combinations')
    f.write = [(k[0], k[1], seen[k]) for k in order]


# ---------------------------------------------------------------------------------------------------------
# _read_from_nc_var (+ _read_thrust_modes)
# ---------------------------------------------------------------------------------------------------------

def _extract_reader(fn: ast.FunctionDef, helper: ast.FunctionDef | None, f: Facts):
    R = '_read_from_nc_var'
    params = [a.arg for a in fn.args.args]
    if params != ['self', 'var', 'index', 'name', 'field', 'species']:
        raise Untranslatable(f'{R}: unexpected parameters {params}')
    body = list(_body(fn))
    if _u(body[0]) != 'var.set_auto_mask(False)':
        raise Untranslatable(f'{R}: expected var.set_auto_mask(False) first')
    rest = body[1:]
    skipping = False
    subject_new = '(Dimension.SPECIES in field.dimensions, Dimension.THRUST_MODE in field.dimensions, has_point)'
    subject_old = ('(Dimension.SPECIES in field.dimensions, Dimension.THRUST_MODE in field.dimensions, '
                   'Dimension.POINT in field.dimensions)')
    if len(rest) == 8:                                   # repaired reader: preamble defining written()
        pre = '\n'.join(_u(s) for s in rest[:5])
        _match_full(r"has_point = Dimension\.POINT in field\.dimensions\nfill = None\n"
                    r"if not has_point and field\.field_type is not str:\n    fill = var\.get_fill_value\(\)\n"
                    r"def written\(v: Any\) -> bool:\n    if fill is None:\n        return len\(v\) > 0\n    return v != fill\n"
                    r"val: Any", pre, f'{R}: preamble / written()')
        f.written_test = (True, True)
        skipping = True
        match, tail = rest[5], rest[6:]
        if not isinstance(match, ast.Match) or _u(match.subject) != subject_new:
            raise Untranslatable(f'{R}: unexpected match subject')
        _match_full(r"if len\(val\) == 0 and \(?not field\.required\)?:\n    return None\nreturn val",
                    '\n'.join(_u(s) for s in tail), f'{R}: tail')
        f.read_empty_optional_none = True
        if helper is None:
            raise Untranslatable('_read_thrust_modes not found')
        hp = [a.arg for a in helper.args.args], helper.args.vararg.arg if helper.args.vararg else None
        if hp != (['var', 'written'], 'index'):
            raise Untranslatable(f'_read_thrust_modes: unexpected parameters {hp}')
        hm = _match_full(r"tmv = \{\}\nfor ti, tm in enumerate\((\w+)\):\n    v = var\[\*index, ti\]\n"
                         r"    if written\(v\):\n        tmv\[tm\] = v\nreturn tmv",
                         '\n'.join(_u(s) for s in _body(helper)), '_read_thrust_modes')
        helper_modes = _seq(hm.group(1), '_read_thrust_modes', {'ThrustMode'})
    elif len(rest) == 1:                                 # the reader before the repair
        match = rest[0]
        if not isinstance(match, ast.Match) or _u(match.subject) != subject_old:
            raise Untranslatable(f'{R}: unexpected match subject')
        helper_modes = None
    else:
        raise Untranslatable(f'{R}: unexpected number of statements ({len(rest) + 1})')
    seen = {}
    default_ok = False
    sk = _bool(skipping)
    for case in match.cases:
        keys = _case_key(case, 3, R)
        text = '\n'.join(_u(s) for s in case.body)
        if keys is None:
            _match_full(r"raise ValueError\(.*\)", text, f'{R} default case')
            default_ok = True
            continue
        where = f'{R} case {keys}'
        if keys == [(False, False, False)]:
            _match_full(r"if var\[index\] == var\.get_fill_value\(\):\n    return None\nreturn var\[index\]", text, where)
            coq = 'RScalarFillNone'
        elif keys == [(False, False, True)]:
            _match_full(r"if all\(var\[index\] == var\.get_fill_value\(\)\):\n    return None\nreturn var\[index\]", text, where)
            coq = 'RArrayEmptyNone'
        elif keys == [(True, False, False), (True, False, True)]:
            if skipping:
                m = _match_full(r"val = SpeciesValues\(\)\nfor si, sp in enumerate\((\w+)\):\n    v = var\[index, si\]\n"
                                r"    if written\(v\):\n        val\[sp\] = v", text, where)
            else:
                m = _match_full(r"return SpeciesValues\(\{sp: var\[index, si\] for si, sp in enumerate\((\w+)\)\}\)", text, where)
            coq = f'RSpecies {_seq(m.group(1), where, {"species"})} {sk}'
        elif keys == [(False, True, False)]:
            if skipping:
                _match_full(r"val = ThrustModeValues\(self\._read_thrust_modes\(var, written, index\)\)", text, where)
                coq = f'RModes {helper_modes} {sk}'
            else:
                m = _match_full(r"return ThrustModeValues\(\{tm: var\[index, ti\] for ti, tm in enumerate\((\w+)\)\}\)", text, where)
                coq = f'RModes {_seq(m.group(1), where, {"ThrustMode"})} {sk}'
        elif keys == [(True, True, False)]:
            if skipping:
                m = _match_full(r"val = SpeciesValues\[ThrustModeValues\]\(\)\nfor si, sp in enumerate\((\w+)\):\n"
                                r"    tmv = self\._read_thrust_modes\(var, written, index, si\)\n"
                                r"    if len\(tmv\) > 0:\n        val\[sp\] = ThrustModeValues\(tmv\)", text, where)
                coq = f'RSpeciesModes {_seq(m.group(1), where, {"species"})} {helper_modes} {sk}'
            else:
                m = _match_full(r"return SpeciesValues\[ThrustModeValues\]\(\{sp: ThrustModeValues\(\{tm: var\[index, si, ti\] "
                                r"for ti, tm in enumerate\((\w+)\)\}\) for si, sp in enumerate\((\w+)\)\}\)", text, where)
                coq = (f'RSpeciesModes {_seq(m.group(2), where, {"species"})} '
                       f'{_seq(m.group(1), where, {"ThrustMode"})} {sk}')
        else:
            raise Untranslatable(f'{R}: unexpected case {keys}')
        for k in keys:
            if k in seen:
                raise Untranslatable(f'{R}: case {k} twice')
            seen[k] = coq
    order = [(False, False, False), (False, False, True), (True, False, False), (True, False, True),
             (False, True, False), (True, True, False)]
    if set(seen) != set(order) or not default_ok:
        raise Untranslatable(f'{R}: cases {sorted(seen)} are not the six supported combinations plus a refusing default')
    f.read = [(k[0], k[1], k[2], seen[k]) for k in order]


# ---------------------------------------------------------------------------------------------------------
# the rest
# ---------------------------------------------------------------------------------------------------------

def _calls(fn: ast.FunctionDef, attr: str):
    return [n for n in ast.walk(fn) if isinstance(n, ast.Call) and isinstance(n.func, ast.Attribute) and n.func.attr == attr]


def _extract_call_sites(cls_fn, f: Facts):
    lt = cls_fn('_load_trajectory')
    c = _calls(lt, '_read_from_nc_var')
    if len(c) != 1:
        raise Untranslatable('_load_trajectory: expected exactly one call of _read_from_nc_var')
    txt = _u(c[0])
    if txt == 'self._read_from_nc_var(group.variables[name], group_index, name, field, nc_files.species or [])':
        # nc_files must be the file of the field set being read, group a group of that file
        src = _u(lt)
        if 'nc_files = self._nc[fs_name]' not in src or 'group = nc_files.groups[fs_name][file_index]' not in src:
            raise Untranslatable('_load_trajectory: nc_files / group are not those of the field set being read')
        f.reader_gets_file_species = True
    else:
        raise Untranslatable(f'_load_trajectory: the reader is not given the species of the field set\'s own file: {txt}')
    # number of points: the repaired loop skips None / empty mappings
    src = _u(lt)
    if 'and (val is not None)' in src and 'if len(val) > 0:\n' in src:
        f.npoints_skips_unset = True
    elif 'npoints = len(next(iter(data[name].values())))' in src and 'npoints = len(data[name])' in src:
        f.npoints_skips_unset = False
    else:
        raise Untranslatable('_load_trajectory: unrecognised way of determining the number of points')
    wd = cls_fn('_write_data')
    c = _calls(wd, '_write_to_nc_var')
    if len(c) != 1:
        raise Untranslatable('_write_data: expected exactly one call of _write_to_nc_var')
    txt = _u(c[0])
    src = _u(wd)
    if 'nc_file = single_nc_file or self._nc[fs_name]' not in src or 'group = nc_file.groups[fs_name][0]' not in src:
        raise Untranslatable('_write_data: nc_file / group are not those of the field set being written')
    # the trajectory coordinate of the file of the field set being written is written inside the per-variable loop
    # (that is what extends the trajectory dimension of EVERY file, also when all fields of a record are unset)
    inner = [n for n in ast.walk(wd) if isinstance(n, ast.For) and _u(n.iter) == 'group.variables']
    if len(inner) != 1 or _u(inner[0].body[-1]) != 'nc_file.traj_var[0][index] = index' or \
            src.count('traj_var[0][index] = index') != 1 or not isinstance(inner[0].body[-2], ast.Expr) or \
            '_write_to_nc_var' not in _u(inner[0].body[-2]):
        raise Untranslatable('_write_data: the trajectory coordinate is not written after every variable, '
                             'inside the loop over the variables of the field set\'s group')
    outer = [n for n in ast.walk(wd) if isinstance(n, ast.For) and _u(n.iter) == 'fieldsets']
    if len(outer) != 1 or inner[0] not in outer[0].body or any(isinstance(n, ast.Return) for n in ast.walk(wd)):
        raise Untranslatable('_write_data: unexpected loop structure (field sets / variables) or an early return')
    f.coord_with_every_variable = True
    if txt == 'self._write_to_nc_var(var, index, name, field, val, nc_file.species or [])':
        f.writer_gets_file_species = True
    elif txt == 'self._write_to_nc_var(var, index, name, field, val)':
        f.writer_gets_file_species = False
    else:
        raise Untranslatable(f'_write_data: unrecognised call {txt}')
    cr = cls_fn('_create')
    src = _u(cr)
    calls = [_u(x) for x in _calls(cr, '_create_nc_file')]
    if ('proto = next(iter(self._trajectories.values()))' in src and 'species = proto.species' in src and len(calls) == 2
            and calls[0] == 'self._create_nc_file(self.base_file, base_nc_fieldsets, species)'
            and calls[1].startswith('self._create_nc_file(nc_file, set(fieldsets), species, ')):
        f.create_species_of_first = True
    else:
        raise Untranslatable(f'_create: files are not created with the species of the first trajectory: {calls}')
    ca = cls_fn('create_associated')
    src = _u(ca)
    calls = [_u(x) for x in _calls(ca, '_create_nc_file')]
    if (len(calls) == 1 and calls[0].startswith('self._create_nc_file(associated_file, set(fieldsets), sorted(species), ')
            and 'if nc_info is None:\n' in src and 'species = set()' in src
            and 'if Dimension.SPECIES in metadata.dimensions:' in src):
        f.mapped_species_of_first_result = True
    else:
        raise Untranslatable(f'create_associated: unrecognised species of the new file: {calls}')
    skip_a = 'if getattr(associated_data, f) is not None:\n' in src
    if not skip_a and 'species.update(getattr(associated_data, f).keys())' not in src:
        raise Untranslatable('create_associated: unrecognised species scan')
    # every _create_nc_file hands its species argument to _create_dimensions and keeps it in the file record
    cn = cls_fn('_create_nc_file')
    src = _u(cn)
    if 'traj_dim, traj_var = _create_dimensions(dataset, fieldsets, species)' not in src or 'species=species' not in src:
        raise Untranslatable('_create_nc_file: species argument is not what _create_dimensions / the file record get')
    return skip_a


def _extract_create_dimensions(fn: ast.FunctionDef, f: Facts):
    src = _u(fn)
    if ("dataset.createDimension(name, len(values) if values is not None else len(enum_type))" in src
            and re.search(r"for idx, m in enumerate\(values if values is not None else enum_type\):\n\s+dataset\.variables\[name\]\[idx\] = m\.name", src)
            and "create_enum_dimension('species', Species, species)" in src):
        f.species_dim_from_argument = True
    else:
        raise Untranslatable('_create_dimensions: the species dimension is not built from the `species` argument')
    if "create_enum_dimension('thrust_mode', ThrustMode)" in src:
        f.modes_dim_from_enum = True
    else:
        raise Untranslatable('_create_dimensions: the thrust-mode dimension is not the ThrustMode enumeration')


def _extract_container_species(container_py: Path) -> bool:
    mod = ast.parse(Path(container_py).read_text())
    cls = next((n for n in mod.body if isinstance(n, ast.ClassDef) and n.name == 'Container'), None)
    fn = next((n for n in (cls.body if cls else []) if isinstance(n, ast.FunctionDef) and n.name == 'species'), None)
    if fn is None:
        raise Untranslatable('Container.species not found')
    txt = '\n'.join(_u(s) for s in _body(fn))
    m = _match_full(r"species = set\(\)\nfor name, field in self\._data_dictionary\.items\(\):\n"
                    r"    if Dimension\.SPECIES in field\.dimensions:\n"
                    r"(        if self\._data\[name\] is None:\n            continue\n)?"
                    r"        assert isinstance\(self\._data\[name\], SpeciesValues\)\n"
                    r"        species\.update\(self\._data\[name\]\.keys\(\)\)\nreturn sorted\(species\)", txt, 'Container.species')
    return m.group(1) is not None


def extract_facts(repo_src: Path) -> Facts:
    store_py = Path(repo_src) / 'AEIC/trajectories/store.py'
    mod = ast.parse(store_py.read_text(), filename=str(store_py))
    cls = next((n for n in mod.body if isinstance(n, ast.ClassDef) and n.name == 'TrajectoryStore'), None)
    if cls is None:
        raise Untranslatable('class TrajectoryStore not found')

    def cls_fn(name, required=True):
        fn = next((n for n in cls.body if isinstance(n, ast.FunctionDef) and n.name == name), None)
        if fn is None and required:
            raise Untranslatable(f'TrajectoryStore.{name} not found')
        return fn
    f = Facts()
    _extract_writer(cls_fn('_write_to_nc_var'), f)
    _extract_reader(cls_fn('_read_from_nc_var'), cls_fn('_read_thrust_modes', required=False), f)
    skip_assoc = _extract_call_sites(cls_fn, f)
    cd = next((n for n in mod.body if isinstance(n, ast.FunctionDef) and n.name == '_create_dimensions'), None)
    if cd is None:
        raise Untranslatable('_create_dimensions not found')
    _extract_create_dimensions(cd, f)
    skip_cont = _extract_container_species(Path(repo_src) / 'AEIC/storage/container.py')
    if skip_cont != skip_assoc:
        raise Untranslatable('Container.species and create_associated treat unset species-indexed fields differently')
    f.species_skip_unset = skip_cont
    # the writer's species loops must be fed by what the call site passes
    if f.writer_gets_file_species != any('OverFileSpecies' in w[2] for w in f.write):
        raise Untranslatable('_write_to_nc_var loops over the file\'s species but _write_data does not pass them (or vice versa)')
    return f


def coq_text(f: Facts) -> str:
    def pair(a, b):
        return f'({_bool(a)}, {_bool(b)})'
    w = '; '.join(f'({_bool(a)}, {_bool(b)}, {c})' for a, b, c in f.write)
    r = '; '.join(f'({_bool(a)}, {_bool(b)}, {_bool(c)}, {d})' for a, b, c, d in f.read)
    return ('(* generated by translator/c03_extract.py from src/AEIC/trajectories/store.py and storage/container.py — do not edit *)\n'
            'From Coq Require Import List Bool.\nFrom AV Require Import model.C03_Model.\nImport ListNotations.\n\n'
            'Definition facts : code_facts :=\n'
            f'  {{| cf_write := [{w}];\n'
            f'     cf_write_refuses_unknown_species := {_bool(f.write_refuses_unknown)};\n'
            f'     cf_write_none := {pair(*f.write_none)};\n'
            f'     cf_writer_gets_species_of_its_file := {_bool(f.writer_gets_file_species)};\n'
            f'     cf_read := [{r}];\n'
            f'     cf_written_test := {pair(*f.written_test)};\n'
            f'     cf_read_empty_optional_is_none := {_bool(f.read_empty_optional_none)};\n'
            f'     cf_reader_gets_species_of_its_file := {_bool(f.reader_gets_file_species)};\n'
            f'     cf_npoints_skips_unset := {_bool(f.npoints_skips_unset)};\n'
            f'     cf_species_dim_from_argument := {_bool(f.species_dim_from_argument)};\n'
            f'     cf_modes_dim_from_enum := {_bool(f.modes_dim_from_enum)};\n'
            f'     cf_create_species_of_first_trajectory := {_bool(f.create_species_of_first)};\n'
            f'     cf_mapped_species_of_first_result := {_bool(f.mapped_species_of_first_result)};\n'
            f'     cf_species_skip_unset_fields := {_bool(f.species_skip_unset)};\n'
            f'     cf_coordinate_written_with_every_variable := {_bool(f.coord_with_every_variable)} |}}.\n')

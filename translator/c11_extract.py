"""C11 extractors — regenerate, from the current source, the discrete decision data the option-combination
model rests on (module Gen.C11_Extracted, over the vocabulary of coq/model/C11_Model.v):

  config/emissions.py   the option enums (members and their documented string values), the 13 option
                        fields of EmissionsConfig, the *_enabled properties, enabled_species (table of add() calls)
  emissions/trajectory.py  compute_EI_NOx, _calculate_EI_PMvol, _calculate_EI_PMnvol  } which enum members each
  emissions/lto.py         _lto_pmvol, _lto_pmnvol                                    } dispatcher handles, and
                        that the fall-through branch raises an error naming `config.emissions.<opt>.value`

Shape-specific and fail-closed (py2coq.Untranslatable on anything unexpected).
"""

from __future__ import annotations

import ast
from pathlib import Path

from translator.py2coq import Untranslatable, find_function, strip_doc

ENUMS = {
    'EINOxMethod': (['BFFM2', 'P3T3', 'NONE'], {'BFFM2': 'G_BFFM2', 'P3T3': 'G_P3T3', 'NONE': 'G_NONE'}, 'gas_method'),
    'PMvolMethod': (['FUEL_FLOW', 'FOA3', 'NONE'], {'FUEL_FLOW': 'PV_FUEL_FLOW', 'FOA3': 'PV_FOA3', 'NONE': 'PV_NONE'},
                    'pmvol_method'),
    'PMnvolMethod': (['MEEM', 'SCOPE11', 'FOA3', 'NONE'],
                     {'MEEM': 'PN_MEEM', 'SCOPE11': 'PN_SCOPE11', 'FOA3': 'PN_FOA3', 'NONE': 'PN_NONE'}, 'pmnvol_method'),
    'ClimbDescentMode': (['TRAJECTORY', 'LTO'], {'TRAJECTORY': 'CD_TRAJECTORY', 'LTO': 'CD_LTO'}, 'cd_mode'),
}
FIELDS = [('fuel', 'str'), ('climb_descent_mode', 'ClimbDescentMode'), ('co2_enabled', 'bool'), ('h2o_enabled', 'bool'),
          ('sox_enabled', 'bool'), ('nox_method', 'EINOxMethod'), ('hc_method', 'EINOxMethod'),
          ('co_method', 'EINOxMethod'), ('pmvol_method', 'PMvolMethod'), ('pmnvol_method', 'PMnvolMethod'),
          ('apu_enabled', 'bool'), ('gse_enabled', 'bool'), ('lifecycle_enabled', 'bool')]
SWITCH = {'co2': 'S_co2', 'h2o': 'S_h2o', 'hc': 'S_hc', 'co': 'S_co', 'nox': 'S_nox', 'pmvol': 'S_pmvol',
          'pmnvol': 'S_pmnvol', 'sox': 'S_sox'}
PROJ = {'nox': ('nox_m', 'EINOxMethod'), 'hc': ('hc_m', 'EINOxMethod'), 'co': ('co_m', 'EINOxMethod'),
        'pmvol': ('pmvol_m', 'PMvolMethod'), 'pmnvol': ('pmnvol_m', 'PMnvolMethod')}
BOOLPROJ = {'co2': 'co2_on', 'h2o': 'h2o_on', 'sox': 'sox_on'}
COQ_SPECIES = ['CO2', 'H2O', 'HC', 'CO', 'NOx', 'NO', 'NO2', 'HONO', 'PMnvol', 'PMnvolGMD', 'PMvol', 'OCic',
               'SOx', 'SO2', 'SO4', 'PMnvolN']


def _member(n, enum):
    if isinstance(n, ast.Attribute) and isinstance(n.value, ast.Name) and n.value.id == enum:
        return n.attr
    return None


def _class(mod, name):
    for n in mod.body:
        if isinstance(n, ast.ClassDef) and n.name == name:
            return n
    raise Untranslatable(f'class {name} not found')


def extract_enums(mod) -> list[str]:
    out = []
    for ename, (members, coq, ty) in ENUMS.items():
        cls = _class(mod, ename)
        got = [(st.targets[0].id, st.value.value) for st in cls.body
               if isinstance(st, ast.Assign) and len(st.targets) == 1 and isinstance(st.targets[0], ast.Name)
               and isinstance(st.value, ast.Constant) and isinstance(st.value.value, str)]
        other = [st for st in cls.body if not (isinstance(st, ast.Assign) or (isinstance(st, ast.Expr) and isinstance(st.value, ast.Constant)))]
        if [g[0] for g in got] != members or other:
            raise Untranslatable(f'{ename}: members changed: {[g[0] for g in got]} (a new documented option value '
                                 'changes the product of configurations)')
        if ename != 'ClimbDescentMode':
            fn = {'EINOxMethod': 'x_gas_name', 'PMvolMethod': 'x_pmvol_name', 'PMnvolMethod': 'x_pmnvol_name'}[ename]
            out.append(f'Definition {fn} (m : {ty}) : string :=\n  match m with '
                       + ' | '.join(f'{coq[k]} => "{v.lower()}"' for k, v in got) + ' end.')
    return out


def extract_fields(cls) -> list[str]:
    got = []
    for st in cls.body:
        if isinstance(st, ast.AnnAssign) and isinstance(st.target, ast.Name):
            ann = ast.unparse(st.annotation)
            if ann.startswith('ClassVar'):
                continue
            got.append((st.target.id, ann))
    if got != FIELDS:
        raise Untranslatable(f'EmissionsConfig: option fields changed: {got}')
    return ['Definition x_option_fields : list string := [' + '; '.join(f'"{n}"' for n, _ in got[1:]) + '].']


def extract_switches(cls) -> list[str]:
    arms = []
    for label, sw in SWITCH.items():
        if label in BOOLPROJ:
            arms.append(f'  | {sw} => {BOOLPROJ[label]} c')
            continue
        fn = find_function(cls, f'{label}_enabled')
        body = strip_doc(fn.body)
        proj, enum = PROJ[label]
        want = ast.parse(f'self.{label}_method != {enum}.NONE', mode='eval').body
        if not (len(body) == 1 and isinstance(body[0], ast.Return) and ast.dump(body[0].value) == ast.dump(want)):
            raise Untranslatable(f'{label}_enabled: expected `return self.{label}_method != {enum}.NONE`')
        none = ENUMS[enum][1]['NONE']
        arms.append(f'  | {sw} => match {proj} c with {none} => false | _ => true end')
    return ['Definition x_switch_on (c : config) (w : switch) : bool :=\n  match w with\n' + '\n'.join(arms) + '\n  end.']


def extract_enabled_species(cls) -> list[str]:
    fn = find_function(cls, 'enabled_species')
    body = strip_doc(fn.body)
    if len(body) < 4:
        raise Untranslatable('enabled_species: body too short')
    if ast.dump(body[0]) != ast.dump(ast.parse('result = set()').body[0]):
        raise Untranslatable('enabled_species: must start with result = set()')
    want_add = ast.parse(
        "def add(*species: Species, label: str | None = None):\n"
        "    if label is None:\n"
        "        label = species[0].name.lower()\n"
        "    if getattr(self, f'{label}_enabled'):\n"
        "        for s in species:\n"
        "            result.add(s)\n").body[0]
    if ast.dump(body[1]) != ast.dump(want_add):
        raise Untranslatable('enabled_species: the local add() helper changed')
    if ast.dump(body[-1]) != ast.dump(ast.parse('return result').body[0]):
        raise Untranslatable('enabled_species: must end with return result')

    def add_call(st, guard):
        if not (isinstance(st, ast.Expr) and isinstance(st.value, ast.Call) and isinstance(st.value.func, ast.Name)
                and st.value.func.id == 'add'):
            raise Untranslatable(f'enabled_species: unexpected statement {ast.unparse(st)[:60]}')
        sp = [_member(a, 'Species') for a in st.value.args]
        if not sp or not all(sp) or any(s not in COQ_SPECIES for s in sp):
            raise Untranslatable('enabled_species: add() arguments must be Species members')
        label = sp[0].lower()
        for kw in st.value.keywords:
            if kw.arg != 'label' or not (isinstance(kw.value, ast.Constant) and isinstance(kw.value.value, str)):
                raise Untranslatable('enabled_species: add() keyword')
            label = kw.value.value
        if label not in SWITCH:
            raise Untranslatable(f'enabled_species: no switch `{label}_enabled`')
        g = 'None' if guard is None else 'Some [' + '; '.join(ENUMS['PMnvolMethod'][1][m] for m in guard) + ']'
        return f'({g}, {SWITCH[label]}, [' + '; '.join(sp) + '])'

    rows = []
    for st in body[2:-1]:
        if isinstance(st, ast.If):
            t = st.test
            if not (isinstance(t, ast.Compare) and len(t.ops) == 1 and isinstance(t.ops[0], ast.In)
                    and ast.unparse(t.left) == 'self.pmnvol_method' and isinstance(t.comparators[0], ast.Tuple)
                    and not st.orelse):
                raise Untranslatable('enabled_species: only `if self.pmnvol_method in (...)` guards are understood')
            ms = [_member(e, 'PMnvolMethod') for e in t.comparators[0].elts]
            if not all(ms):
                raise Untranslatable('enabled_species: guard members')
            rows += [add_call(s2, ms) for s2 in st.body]
        else:
            rows.append(add_call(st, None))
    return ['Definition x_enabled_table : list add_call :=\n  [ ' + ';\n    '.join(rows) + ' ].']


# ---------------------------------------------------------------------------
# dispatchers
# ---------------------------------------------------------------------------

def _names_value(raise_stmt: ast.Raise, opt: str) -> bool:
    want = f'config.emissions.{opt}.value'
    for n in ast.walk(raise_stmt):
        if isinstance(n, ast.FormattedValue) and ast.unparse(n.value) == want:
            return True
    return False


def _only_raise(stmts):
    return len(stmts) == 1 and isinstance(stmts[0], ast.Raise)


def collect_dispatch(fn: ast.FunctionDef, opt: str, enum: str):
    """-> (handled members, fall-through raises and names the configured value?)"""
    subj = f'config.emissions.{opt}'
    handled, raising, default = [], [], None

    def pat_members(p):
        if isinstance(p, ast.MatchValue):
            m = _member(p.value, enum)
            return [m] if m else None
        if isinstance(p, ast.MatchOr):
            out = []
            for q in p.patterns:
                r = pat_members(q)
                if r is None:
                    return None
                out += r
            return out
        return None

    def visit(stmts):
        nonlocal default
        for st in stmts:
            if isinstance(st, ast.Match) and ast.unparse(st.subject) == subj:
                for case in st.cases:
                    if case.guard is not None:
                        raise Untranslatable(f'{fn.name}: guarded case')
                    if isinstance(case.pattern, ast.MatchAs) and case.pattern.pattern is None:
                        if not _only_raise(case.body):
                            raise Untranslatable(f'{fn.name}: the `case _` branch must raise')
                        default = _names_value(case.body[0], opt)
                        continue
                    ms = pat_members(case.pattern)
                    if ms is None:
                        raise Untranslatable(f'{fn.name}: case pattern {ast.unparse(case.pattern)}')
                    (raising if _only_raise(case.body) else handled).extend(ms)
            elif isinstance(st, ast.If):
                node = st
                while True:
                    ms = [_member(c.comparators[0], enum) for c in ast.walk(node.test)
                          if isinstance(c, ast.Compare) and len(c.ops) == 1 and isinstance(c.ops[0], ast.Is)
                          and ast.unparse(c.left) == subj]
                    if ms and all(ms):
                        (raising if _only_raise(node.body) else handled).extend(ms)
                    elif not ms:
                        visit(node.body)
                    if len(node.orelse) == 1 and isinstance(node.orelse[0], ast.If):
                        node = node.orelse[0]
                        continue
                    if node.orelse:
                        if ms and _only_raise(node.orelse):
                            default = _names_value(node.orelse[0], opt)
                        else:
                            visit(node.orelse)
                    break
    visit(strip_doc(fn.body))
    if len(set(handled)) != len(handled) or set(handled) & set(raising):
        raise Untranslatable(f'{fn.name}: a member is dispatched twice')
    return handled, default


def extract_dispatch(src: Path) -> list[str]:
    out = []
    traj = ast.parse((src / 'emissions/trajectory.py').read_text())
    lto = ast.parse((src / 'emissions/lto.py').read_text())
    named = []
    for mod, fname, opt, enum, coqname in (
            (traj, 'compute_EI_NOx', 'nox_method', 'EINOxMethod', 'x_nox_traj_handled'),
            (traj, '_calculate_EI_PMvol', 'pmvol_method', 'PMvolMethod', 'x_pmvol_traj_handled'),
            (traj, '_calculate_EI_PMnvol', 'pmnvol_method', 'PMnvolMethod', 'x_pmnvol_traj_handled'),
            (lto, '_lto_pmvol', 'pmvol_method', 'PMvolMethod', 'x_pmvol_lto_handled'),
            (lto, '_lto_pmnvol', 'pmnvol_method', 'PMnvolMethod', 'x_pmnvol_lto_handled')):
        fn = find_function(mod, fname)
        handled, default = collect_dispatch(fn, opt, enum)
        members, coq, ty = ENUMS[enum]
        if default is None and set(handled) != set(members):
            raise Untranslatable(f'{fname}: no fall-through branch and not every member handled')
        named.append(default is not False)
        out.append(f'Definition {coqname} : list {ty} := [' + '; '.join(coq[m] for m in members if m in handled) + '].')
    out.append('Definition x_fallthrough_names_configured_value : bool := ' + ('true' if all(named) else 'false') + '.')
    return out


HEADER = ('(* generated by translator/c11_extract.py from the current working tree of the repository — do not edit *)\n'
          'From Coq Require Import List Bool String.\nFrom AV Require Import model.C11_Model.\nImport ListNotations.\n'
          'Open Scope string_scope.\n\n')


def extract_all(src: Path) -> str:
    src = Path(src)
    mod = ast.parse((src / 'config/emissions.py').read_text())
    cls = _class(mod, 'EmissionsConfig')
    defs = extract_enums(mod) + extract_fields(cls) + extract_switches(cls) + extract_enabled_species(cls) \
        + extract_dispatch(src)
    return HEADER + '\n\n'.join(defs) + '\n'


if __name__ == '__main__':
    import sys
    print(extract_all(Path(sys.argv[1] if len(sys.argv) > 1 else '/repo/src/AEIC')))

"""C06 extractor — regenerates, from the current source tree,

  * units.py: FEET_TO_METERS, METERS_TO_FEET, METERS_TO_FL, FL_TO_METERS, KNOTS_TO_MPS, MINUTES_TO_SECONDS,
    FPM_TO_MPS (as Gallina constants over `Num`, literals carried exactly);
  * performance/models/legacy.py: PerformanceTable.ZERO_ROCD_TOL (class constant) and the altitude -> flight level
    conversion of PerformanceTable.interpolate (`fl = <expression in state.altitude and unit constants>`),
    emitted as `alt_to_fl`.

`interpolate` is not a numeric kernel; its skeleton is checked statement by statement (fail closed) and only the
conversion expression is translated.  Anything else raises `py2coq.Untranslatable`.
"""

from __future__ import annotations

import ast
from pathlib import Path

from translator.py2coq import NumModule, Untranslatable, dump, find_function, strip_doc

UNIT_NAMES = ['FEET_TO_METERS', 'METERS_TO_FEET', 'METERS_TO_FL', 'FL_TO_METERS', 'KNOTS_TO_MPS',
              'MINUTES_TO_SECONDS', 'FPM_TO_MPS']

# the statements of PerformanceTable.interpolate after `fl = ...` (compared as ASTs)
_INTERPOLATE_REST = '''
mass = state.aircraft_mass
if mass == 'min':
    mass = min(self.mass)
elif mass == 'max':
    mass = max(self.mass)
if rocd not in self._interpolators:
    self._interpolators[rocd] = Interpolator(self.subset(rocd).df)
return self._interpolators[rocd](fl, mass)
'''


def _class(mod: ast.Module, name: str) -> ast.ClassDef:
    for n in mod.body:
        if isinstance(n, ast.ClassDef) and n.name == name:
            return n
    raise Untranslatable(f'class {name} not found')


def _units_imported(mod: ast.Module) -> set[str]:
    out: set[str] = set()
    for n in mod.body:
        if isinstance(n, ast.ImportFrom) and n.module == 'AEIC.units' and n.level == 0:
            for a in n.names:
                if a.asname is not None:
                    raise Untranslatable('legacy.py: renamed import from AEIC.units')
                out.add(a.name)
    return out


def extract_c06(repo: Path) -> tuple[str, dict]:
    src = Path(repo) / 'src/AEIC'
    m = NumModule('C06_Extracted')
    m.constants(src / 'units.py', UNIT_NAMES)

    legacy = src / 'performance/models/legacy.py'
    mod = m._src(legacy)
    imported = _units_imported(mod)
    # names of legacy.py that shadow a unit constant would silently change the meaning of the conversion
    for n in mod.body:
        tg = []
        if isinstance(n, ast.Assign):
            tg = [t.id for t in n.targets if isinstance(t, ast.Name)]
        elif isinstance(n, ast.AnnAssign) and isinstance(n.target, ast.Name):
            tg = [n.target.id]
        for t in tg:
            if t in UNIT_NAMES:
                raise Untranslatable(f'legacy.py: module-level rebinding of {t}')

    cls = _class(mod, 'PerformanceTable')
    # ZERO_ROCD_TOL: ClassVar[float] = <literal>
    tols = [s for s in cls.body if isinstance(s, ast.AnnAssign) and isinstance(s.target, ast.Name)
            and s.target.id == 'ZERO_ROCD_TOL' and s.value is not None]
    tols += [s for s in cls.body if isinstance(s, ast.Assign) and len(s.targets) == 1
             and isinstance(s.targets[0], ast.Name) and s.targets[0].id == 'ZERO_ROCD_TOL']
    if len(tols) != 1:
        raise Untranslatable('legacy.py: PerformanceTable.ZERO_ROCD_TOL not found exactly once')
    m.raw(f'Definition ZERO_ROCD_TOL : T N := {m.expr(tols[0].value, {}, "legacy.py:ZERO_ROCD_TOL")}.')

    fn = find_function(mod, 'interpolate', cls='PerformanceTable')
    if [a.arg for a in fn.args.args] != ['self', 'state', 'rocd'] or fn.args.vararg or fn.args.kwarg:
        raise Untranslatable('legacy.py:interpolate: signature changed')
    body = strip_doc(fn.body)
    if not body:
        raise Untranslatable('legacy.py:interpolate: empty body')
    first = body[0]
    if not (isinstance(first, ast.Assign) and len(first.targets) == 1 and isinstance(first.targets[0], ast.Name)
            and first.targets[0].id == 'fl'):
        raise Untranslatable('legacy.py:interpolate: first statement must be `fl = <conversion of state.altitude>`')
    used = {n.id for n in ast.walk(first.value) if isinstance(n, ast.Name)}
    for u in used:
        if u in UNIT_NAMES and u not in imported:
            raise Untranslatable(f'legacy.py:interpolate: {u} is not imported from AEIC.units')
    conv = m.expr(first.value, {'state.altitude': 'v_alt'}, 'legacy.py:interpolate:fl')
    if 'v_alt' not in conv:
        raise Untranslatable('legacy.py:interpolate: flight level does not depend on state.altitude')
    m.raw(f'Definition alt_to_fl (v_alt : T N) : T N := {conv}.')
    want = ast.parse(_INTERPOLATE_REST).body
    rest = body[1:]
    if len(rest) != len(want) or any(dump(a) != dump(b) for a, b in zip(rest, want)):
        raise Untranslatable('legacy.py:interpolate: statements after the flight-level conversion changed: '
                             + ast.unparse(ast.Module(body=rest, type_ignores=[]))[:300])
    meta = {'conversion': ast.unparse(first.value)}
    return m.text(), meta

"""C06 extractor — regenerates, from the current source tree,

  * units.py: FEET_TO_METERS, METERS_TO_FEET, METERS_TO_FL, FL_TO_METERS, KNOTS_TO_MPS, MINUTES_TO_SECONDS,
    FPM_TO_MPS (as Gallina constants over `Num`, literals carried exactly);
  * performance/models/legacy.py: PerformanceTable.ZERO_ROCD_TOL (class constant) and the altitude -> flight level
    conversion of PerformanceTable.interpolate (`fl = <expression in state.altitude and unit constants>`),
    emitted as `alt_to_fl`.

`interpolate` is not a numeric kernel; its skeleton is checked statement by statement (fail closed) and only the
conversion expression is translated.  Anything else raises `py2coq.Untranslatable`.
"""

from __future__ import annotations

import ast
from pathlib import Path

from translator.py2coq import NumModule, Untranslatable, dump, find_function, strip_doc

UNIT_NAMES = ['FEET_TO_METERS', 'METERS_TO_FEET', 'METERS_TO_FL', 'FL_TO_METERS', 'KNOTS_TO_MPS',
              'MINUTES_TO_SECONDS', 'FPM_TO_MPS']

# the statements of PerformanceTable.interpolate after `fl = ...` (compared as ASTs)
_INTERPOLATE_REST = '''
mass = state.aircraft_mass
if rocd not in self._interpolators:
    self._interpolators[rocd] = Interpolator(self.subset(rocd).df)
return self._interpolators[rocd](fl, mass)
'''


def _class(mod: ast.Module, name: str) -> ast.ClassDef:
    for n in mod.body:
        if isinstance(n, ast.ClassDef) and n.name == name:
            return n
    raise Untranslatable(f'class {name} not found')


def _units_imported(mod: ast.Module) -> set[str]:
    out: set[str] = set()
    for n in mod.body:
        if isinstance(n, ast.ImportFrom) and n.module == 'AEIC.units' and n.level == 0:
            for a in n.names:
                if a.asname is not None:
                    raise Untranslatable('legacy.py: renamed import from AEIC.units')
                out.add(a.name)
    return out


def extract_c06(repo: Path) -> tuple[str, dict]:
    src = Path(repo) / 'src/AEIC'
    m = NumModule('C06_Extracted')
    m.constants(src / 'units.py', UNIT_NAMES)

    legacy = src / 'performance/models/legacy.py'
    mod = m._src(legacy)
    imported = _units_imported(mod)
    # names of legacy.py that shadow a unit constant would silently change the meaning of the conversion
    for n in mod.body:
        tg = []
        if isinstance(n, ast.Assign):
            tg = [t.id for t in n.targets if isinstance(t, ast.Name)]
        elif isinstance(n, ast.AnnAssign) and isinstance(n.target, ast.Name):
            tg = [n.target.id]
        for t in tg:
            if t in UNIT_NAMES:
                raise Untranslatable(f'legacy.py: module-level rebinding of {t}')

    cls = _class(mod, 'PerformanceTable')
    # ZERO_ROCD_TOL: ClassVar[float] = <literal>
    tols = [s for s in cls.body if isinstance(s, ast.AnnAssign) and isinstance(s.target, ast.Name)
            and s.target.id == 'ZERO_ROCD_TOL' and s.value is not None]
    tols += [s for s in cls.body if isinstance(s, ast.Assign) and len(s.targets) == 1
             and isinstance(s.targets[0], ast.Name) and s.targets[0].id == 'ZERO_ROCD_TOL']
    if len(tols) != 1:
        raise Untranslatable('legacy.py: PerformanceTable.ZERO_ROCD_TOL not found exactly once')
    m.raw(f'Definition ZERO_ROCD_TOL : T N := {m.expr(tols[0].value, {}, "legacy.py:ZERO_ROCD_TOL")}.')

    fn = find_function(mod, 'interpolate', cls='PerformanceTable')
    if [a.arg for a in fn.args.args] != ['self', 'state', 'rocd'] or fn.args.vararg or fn.args.kwarg:
        raise Untranslatable('legacy.py:interpolate: signature changed')
    body = strip_doc(fn.body)
    if not body:
        raise Untranslatable('legacy.py:interpolate: empty body')
    first = body[0]
    if not (isinstance(first, ast.Assign) and len(first.targets) == 1 and isinstance(first.targets[0], ast.Name)
            and first.targets[0].id == 'fl'):
        raise Untranslatable('legacy.py:interpolate: first statement must be `fl = <conversion of state.altitude>`')
    used = {n.id for n in ast.walk(first.value) if isinstance(n, ast.Name)}
    for u in used:
        if u in UNIT_NAMES and u not in imported:
            raise Untranslatable(f'legacy.py:interpolate: {u} is not imported from AEIC.units')
    conv = m.expr(first.value, {'state.altitude': 'v_alt'}, 'legacy.py:interpolate:fl')
    if 'v_alt' not in conv:
        raise Untranslatable('legacy.py:interpolate: flight level does not depend on state.altitude')
    m.raw(f'Definition alt_to_fl (v_alt : T N) : T N := {conv}.')
    want = ast.parse(_INTERPOLATE_REST).body
    rest = body[1:]
    chains = [st for st in rest if isinstance(st, ast.If) and _is_symbolic_chain(st)]
    if len(chains) != 1 or rest.index(chains[0]) != 1:
        raise Untranslatable('legacy.py:interpolate: expected one if/elif chain on the symbolic masses after '
                             '`mass = state.aircraft_mass`')
    m.raw(_symbolic_mass(chains[0]))
    rest = [st for st in rest if st is not chains[0]]
    if len(rest) != len(want) or any(dump(a) != dump(b) for a, b in zip(rest, want)):
        raise Untranslatable('legacy.py:interpolate: statements after the flight-level conversion changed: '
                             + ast.unparse(ast.Module(body=rest, type_ignores=[]))[:300])
    _post_init(m, cls)
    _subset_masks(m, cls)
    _evaluate_impl(mod)
    _ptf(m, src)
    meta = {'conversion': ast.unparse(first.value)}
    text = m.text().replace('From AV Require Import lib.Num.\n',
                            'From Coq Require Import List Arith.\nFrom AV Require Import lib.Num model.C06_Model.\n'
                            'Import ListNotations.\n', 1)
    return text, meta


# ---------------------------------------------------------------------------------------------------------------
# symbolic masses:  if mass == 'min': mass = min(self.mass)  elif mass == 'max': mass = max(self.mass)
# ---------------------------------------------------------------------------------------------------------------

def _sym_branch(st: ast.If):
    t = st.test
    if not (isinstance(t, ast.Compare) and len(t.ops) == 1 and isinstance(t.ops[0], ast.Eq)
            and isinstance(t.left, ast.Name) and t.left.id == 'mass' and isinstance(t.comparators[0], ast.Constant)
            and isinstance(t.comparators[0].value, str)):
        return None
    if len(st.body) != 1:
        return None
    a = st.body[0]
    if not (isinstance(a, ast.Assign) and len(a.targets) == 1 and isinstance(a.targets[0], ast.Name)
            and a.targets[0].id == 'mass' and isinstance(a.value, ast.Call) and isinstance(a.value.func, ast.Name)
            and a.value.func.id in ('min', 'max') and len(a.value.args) == 1 and not a.value.keywords
            and dump(a.value.args[0]) == dump(ast.parse('self.mass', mode='eval').body)):
        return None
    return t.comparators[0].value, a.value.func.id


def _is_symbolic_chain(st: ast.If) -> bool:
    return _sym_branch(st) is not None


def _symbolic_mass(st: ast.If) -> str:
    table = {}
    cur = st
    while True:
        b = _sym_branch(cur)
        if b is None:
            raise Untranslatable('legacy.py:interpolate: symbolic-mass branch not of the form '
                                 "`mass == '<s>': mass = min|max(self.mass)`")
        if b[0] in table:
            raise Untranslatable(f'legacy.py:interpolate: symbol {b[0]!r} twice')
        table[b[0]] = b[1]
        if not cur.orelse:
            break
        if len(cur.orelse) != 1 or not isinstance(cur.orelse[0], ast.If):
            raise Untranslatable('legacy.py:interpolate: else branch in the symbolic-mass chain')
        cur = cur.orelse[0]
    if sorted(table) != ['max', 'min']:
        raise Untranslatable(f'legacy.py:interpolate: symbolic masses are {sorted(table)}, expected min and max')
    f = {'min': 'list_min', 'max': 'list_max'}
    return ('Definition x_resolve_mass (rows : list (row N)) (q : massq N) : T N :=\n'
            f"  match q with MMin => {f[table['min']]} (masses rows) | MMax => {f[table['max']]} (masses rows) "
            '| MVal m => m end.')


# ---------------------------------------------------------------------------------------------------------------
# PerformanceTable.__post_init__: mass-count rule, the three masks, coverage / FL-only tests and their order
# ---------------------------------------------------------------------------------------------------------------

LABELS = {'zero': 'Cruise', 'positive': 'Climb', 'negative': 'Descent'}
VARS = {'tas': 'VTas', 'fuel_flow': 'VFf', 'rocd': 'VRocd'}
CHECK_NAMES = {'check_zero': 'Cruise', 'check_pos': 'Climb', 'check_neg': 'Descent'}


def _all_over_rocd(m: NumModule, test: ast.AST, where: str) -> str:
    """all(<cond on v> for v in self.rocd)  ->  Gallina boolean function body of v"""
    if not (isinstance(test, ast.Call) and isinstance(test.func, ast.Name) and test.func.id == 'all'
            and len(test.args) == 1 and isinstance(test.args[0], ast.GeneratorExp)):
        raise Untranslatable(f'{where}: expected all(... for v in self.rocd)')
    g = test.args[0]
    if len(g.generators) != 1 or g.generators[0].ifs or not isinstance(g.generators[0].target, ast.Name) \
            or dump(g.generators[0].iter) != dump(ast.parse('self.rocd', mode='eval').body):
        raise Untranslatable(f'{where}: generator must range over self.rocd')
    v = g.generators[0].target.id
    return m.bexpr(g.elt, {v: 'v', 'self.ZERO_ROCD_TOL': 'ZERO_ROCD_TOL'}, where)


class _NatExpr:
    """len(...) arithmetic of check_coverage / check_fl_only -> Gallina over nat"""

    def __init__(self, atoms: dict[str, str], lets: dict[str, ast.AST]):
        self.atoms = atoms       # ast dump -> Gallina variable
        self.lets = lets

    def num(self, n: ast.AST) -> str:
        d = dump(n)
        if d in self.atoms:
            return self.atoms[d]
        if isinstance(n, ast.Name) and n.id in self.lets:
            return self.num(self.lets[n.id])
        if isinstance(n, ast.BinOp) and isinstance(n.op, ast.Mult):
            return f'({self.num(n.left)} * {self.num(n.right)})%nat'
        if isinstance(n, ast.BinOp) and isinstance(n.op, ast.Add):
            return f'({self.num(n.left)} + {self.num(n.right)})%nat'
        raise Untranslatable(f'legacy.py:__post_init__: count expression {ast.unparse(n)}')

    def boolean(self, n: ast.AST) -> str:
        if isinstance(n, ast.BoolOp):
            j = ' || ' if isinstance(n.op, ast.Or) else ' && '
            return '(' + j.join(self.boolean(v) for v in n.values) + ')'
        if isinstance(n, ast.Compare) and len(n.ops) == 1:
            a, b = self.num(n.left), self.num(n.comparators[0])
            if isinstance(n.ops[0], ast.NotEq):
                return f'(negb (Nat.eqb {a} {b}))'
            if isinstance(n.ops[0], ast.Eq):
                return f'(Nat.eqb {a} {b})'
        raise Untranslatable(f'legacy.py:__post_init__: count test {ast.unparse(n)}')


def _e(text: str) -> str:
    return dump(ast.parse(text, mode='eval').body)


def _single_raise_if(body: list[ast.stmt], where: str):
    """[assignments..., if <test>: raise ...] -> (lets, test)"""
    lets = {}
    for st in body[:-1]:
        if not (isinstance(st, ast.Assign) and len(st.targets) == 1 and isinstance(st.targets[0], ast.Name)):
            raise Untranslatable(f'{where}: unexpected statement {ast.unparse(st)[:60]}')
        lets[st.targets[0].id] = st.value
    last = body[-1]
    if not (isinstance(last, ast.If) and not last.orelse and len(last.body) == 1 and isinstance(last.body[0], ast.Raise)):
        raise Untranslatable(f'{where}: must end with `if <test>: raise`')
    return lets, last.test


def _post_init(m: NumModule, cls: ast.ClassDef):
    fn = find_function(ast.Module(body=[cls], type_ignores=[]), '__post_init__', cls='PerformanceTable')
    body = strip_doc(fn.body)
    where = 'legacy.py:__post_init__'
    # ---- mass-count rule
    default = None
    chain = None
    count_test = None
    for st in body:
        if isinstance(st, ast.Assign) and len(st.targets) == 1 and isinstance(st.targets[0], ast.Name) \
                and st.targets[0].id == 'n_mass_values' and chain is None:
            if not (isinstance(st.value, ast.Constant) and isinstance(st.value.value, int)):
                raise Untranslatable(f'{where}: n_mass_values default')
            default = st.value.value
        elif isinstance(st, ast.If) and chain is None and isinstance(st.test, ast.Call) \
                and isinstance(st.test.func, ast.Name) and st.test.func.id == 'all':
            chain = st
        elif isinstance(st, ast.If) and chain is not None and count_test is None:
            count_test = st
    if default is None or chain is None or count_test is None:
        raise Untranslatable(f'{where}: mass-count rule not found')
    if dump(count_test.test) != _e('len(self.mass) != n_mass_values') or not any(
            isinstance(x, ast.Raise) for x in count_test.body):
        raise Untranslatable(f'{where}: mass-count test changed: {ast.unparse(count_test.test)}')
    branches = []
    cur = chain
    while True:
        cond = _all_over_rocd(m, cur.test, where)
        n = default
        for st in cur.body:
            if isinstance(st, ast.Assign) and isinstance(st.targets[0], ast.Name):
                if st.targets[0].id == 'n_mass_values':
                    if not (isinstance(st.value, ast.Constant) and isinstance(st.value.value, int)):
                        raise Untranslatable(f'{where}: n_mass_values in branch')
                    n = st.value.value
                elif st.targets[0].id != 'sub_table':
                    raise Untranslatable(f'{where}: assignment to {st.targets[0].id} in the mass-count chain')
            else:
                raise Untranslatable(f'{where}: statement in the mass-count chain')
        branches.append((cond, n))
        if not cur.orelse:
            break
        if len(cur.orelse) != 1 or not isinstance(cur.orelse[0], ast.If):
            raise Untranslatable(f'{where}: else branch in the mass-count chain')
        cur = cur.orelse[0]
    txt = 'Definition x_required_masses (rocds : list (T N)) : nat :=\n'
    for cond, n in branches:
        txt += f'  if forallb (fun v => {cond}) rocds then {n}%nat else\n'
    txt += f'  {default}%nat.'
    m.raw(txt)
    # ---- the three masks
    masks = {}
    for st in body:
        if isinstance(st, ast.Assign) and len(st.targets) == 1 and isinstance(st.targets[0], ast.Name) \
                and st.targets[0].id in CHECK_NAMES:
            v = st.value
            if not (isinstance(v, ast.Subscript) and dump(v.value) == _e('self.df')):
                raise Untranslatable(f'{where}: {st.targets[0].id} must be self.df[<mask>]')
            masks[st.targets[0].id] = m.bexpr(v.slice, {'self.df.rocd': 'v', 'self.ZERO_ROCD_TOL': 'ZERO_ROCD_TOL'}, where)
    if sorted(masks) != sorted(CHECK_NAMES):
        raise Untranslatable(f'{where}: masks found: {sorted(masks)}')
    for k, ph in CHECK_NAMES.items():
        m.raw(f'Definition x_mask_{ph} (v : T N) : bool := {masks[k]}.')
    # ---- coverage / FL-only tests
    defs = {st.name: st for st in body if isinstance(st, ast.FunctionDef)}
    if sorted(defs) != ['check_coverage', 'check_fl_only']:
        raise Untranslatable(f'{where}: local functions {sorted(defs)}')
    cov = defs['check_coverage']
    if [a.arg for a in cov.args.args] != ['df', 'label']:
        raise Untranslatable(f'{where}: check_coverage signature')
    lets, test = _single_raise_if(strip_doc(cov.body), where + ':check_coverage')
    ne = _NatExpr({_e('len(df)'): 'n_rows', _e('len(df.fl.unique())'): 'n_fl', _e('len(df.mass.unique())'): 'n_mass',
                   _e("len(df.drop_duplicates(subset=['fl', 'mass']))"): 'n_pairs'}, lets)
    m.raw(f'Definition x_coverage_fails (n_pairs n_rows n_fl n_mass : nat) : bool := {ne.boolean(test)}.')
    flo = defs['check_fl_only']
    if [a.arg for a in flo.args.args] != ['df', 'var', 'label']:
        raise Untranslatable(f'{where}: check_fl_only signature')
    lets, test = _single_raise_if(strip_doc(flo.body), where + ':check_fl_only')
    ne = _NatExpr({_e('len(df.fl.unique())'): 'n_fl', _e("len(df.drop_duplicates(subset=['fl', var]))"): 'n_pairs'}, lets)
    m.raw(f'Definition x_fl_only_fails (n_pairs n_fl : nat) : bool := {ne.boolean(test)}.')
    # ---- order of the checks
    cov_order, flo_order = [], []
    seen_flo = False
    for st in body:
        if isinstance(st, ast.Expr) and isinstance(st.value, ast.Call) and isinstance(st.value.func, ast.Name):
            c = st.value
            if c.func.id == 'check_coverage':
                if seen_flo or len(c.args) != 2 or c.keywords:
                    raise Untranslatable(f'{where}: coverage checks must come first')
                if not (isinstance(c.args[0], ast.Name) and isinstance(c.args[1], ast.Constant)
                        and CHECK_NAMES.get(c.args[0].id) == LABELS.get(c.args[1].value)):
                    raise Untranslatable(f'{where}: {ast.unparse(c)}: sub-table and label disagree')
                cov_order.append(CHECK_NAMES[c.args[0].id])
            elif c.func.id == 'check_fl_only':
                seen_flo = True
                if len(c.args) != 3 or c.keywords or not (isinstance(c.args[0], ast.Name)
                                                          and isinstance(c.args[1], ast.Constant)
                                                          and isinstance(c.args[2], ast.Constant)
                                                          and c.args[1].value in VARS
                                                          and CHECK_NAMES.get(c.args[0].id) == LABELS.get(c.args[2].value)):
                    raise Untranslatable(f'{where}: {ast.unparse(c)}')
                flo_order.append((VARS[c.args[1].value], CHECK_NAMES[c.args[0].id]))
            else:
                raise Untranslatable(f'{where}: call {ast.unparse(c)[:60]}')
    m.raw('Definition x_coverage_order : list phase := [' + '; '.join(cov_order) + '].')
    m.raw('Definition x_fl_only_order : list (var * phase) := [' + '; '.join(f'({a}, {b})' for a, b in flo_order) + '].')


def _subset_masks(m: NumModule, cls: ast.ClassDef):
    fn = find_function(ast.Module(body=[cls], type_ignores=[]), 'subset', cls='PerformanceTable')
    where = 'legacy.py:subset'
    mt = [st for st in fn.body if isinstance(st, ast.Match)]
    if len(mt) != 1 or dump(mt[0].subject) != _e('rocd'):
        raise Untranslatable(f'{where}: expected one `match rocd`')
    names = {'NEGATIVE': 'Descent', 'ZERO': 'Cruise', 'POSITIVE': 'Climb'}
    found = {}
    for case in mt[0].cases:
        pat = case.pattern
        if not (isinstance(pat, ast.MatchValue) and isinstance(pat.value, ast.Attribute)
                and dump(pat.value.value) == _e('ROCDFilter') and pat.value.attr in names and case.guard is None):
            raise Untranslatable(f'{where}: case pattern {ast.unparse(pat)}')
        if len(case.body) != 1 or not isinstance(case.body[0], ast.Assign):
            raise Untranslatable(f'{where}: case body')
        a = case.body[0]
        if not (dump(a.targets[0]) == dump(ast.parse('df_new', mode='eval').body).replace('Load', 'Store')
                and isinstance(a.value, ast.Subscript) and dump(a.value.value) == _e('df_new')):
            raise Untranslatable(f'{where}: case must be df_new = df_new[<mask>]')
        found[names[pat.value.attr]] = m.bexpr(a.value.slice, {'df_new.rocd': 'v', 'self.ZERO_ROCD_TOL': 'ZERO_ROCD_TOL'}, where)
    if sorted(found) != ['Climb', 'Cruise', 'Descent']:
        raise Untranslatable(f'{where}: cases {sorted(found)}')
    for ph in ('Climb', 'Cruise', 'Descent'):
        m.raw(f'Definition x_subset_{ph} (v : T N) : bool := {found[ph]}.')


_EVALUATE_IMPL = '''
match rules:
    case SimpleFlightRules.CLIMB:
        return self._performance_table.interpolate(state, ROCDFilter.POSITIVE)
    case SimpleFlightRules.CRUISE:
        return self._performance_table.interpolate(state, ROCDFilter.ZERO)
    case SimpleFlightRules.DESCEND:
        return self._performance_table.interpolate(state, ROCDFilter.NEGATIVE)
'''


def _evaluate_impl(mod: ast.Module):
    fn = find_function(mod, 'evaluate_impl', cls='LegacyPerformanceModel')
    body = strip_doc(fn.body)
    want = ast.parse(_EVALUATE_IMPL).body
    if len(body) != len(want) or any(dump(a) != dump(b) for a, b in zip(body, want)):
        raise Untranslatable('legacy.py:evaluate_impl: mapping flight rule -> ROCD filter changed')


# ---------------------------------------------------------------------------------------------------------------
# PTF: column -> unit conversions of PTFData.load, row construction of build_performance_table
# ---------------------------------------------------------------------------------------------------------------

class _FloatCol(ast.NodeTransformer):
    """float(<name>_vals[k]) -> Name x<k>"""

    def __init__(self, arr: str):
        self.arr = arr
        self.used: set[int] = set()

    def visit_Call(self, n: ast.Call):
        if isinstance(n.func, ast.Name) and n.func.id == 'float' and len(n.args) == 1 and not n.keywords:
            a = n.args[0]
            if isinstance(a, ast.Subscript) and isinstance(a.value, ast.Name) and a.value.id == self.arr \
                    and isinstance(a.slice, ast.Constant) and isinstance(a.slice.value, int):
                self.used.add(a.slice.value)
                return ast.copy_location(ast.Name(id=f'x{a.slice.value}', ctx=ast.Load()), n)
        return self.generic_visit(n)


def _ptf(m: NumModule, src: Path):
    reader = src / 'parsers/ptf_reader.py'
    rmod = m._src(reader)
    imported = set()
    for n in rmod.body:
        if isinstance(n, ast.ImportFrom) and n.module == 'AEIC.units':
            imported |= {a.name for a in n.names if a.asname is None}
    load = find_function(rmod, 'load', cls='PTFData')
    spec = {'CruisePhaseData': ('c_vals', ['tas', 'fuel_flow_low', 'fuel_flow_nom', 'fuel_flow_high'], 4),
            'ClimbPhaseData': ('cl_vals', ['tas', 'rocd_low', 'rocd_nom', 'rocd_high', 'fuel_flow_nom'], 5),
            'DescentPhaseData': ('d_vals', ['tas', 'rocd_nom', 'fuel_flow_nom'], 3)}
    conv: dict[str, dict[str, str]] = {}
    for call in [n for n in ast.walk(load) if isinstance(n, ast.Call) and isinstance(n.func, ast.Name)
                 and n.func.id in spec]:
        cname = call.func.id
        arr, fields, ncol = spec[cname]
        if cname in conv or call.args:
            raise Untranslatable(f'ptf_reader.py: {cname} constructed twice / positionally')
        kw = {k.arg: k.value for k in call.keywords}
        if sorted(kw) != sorted(fields + ['fl']) or dump(kw['fl']) != _e('fl'):
            raise Untranslatable(f'ptf_reader.py: {cname} fields {sorted(kw)}')
        out = {}
        for f in fields:
            tr = _FloatCol(arr)
            e = tr.visit(ast.parse(ast.unparse(kw[f]), mode='eval').body)
            for nm in {x.id for x in ast.walk(e) if isinstance(x, ast.Name)}:
                if nm in UNIT_NAMES and nm not in imported:
                    raise Untranslatable(f'ptf_reader.py: {nm} not imported from AEIC.units')
            out[f] = m.expr(e, {f'x{k}': f'x{k}' for k in range(ncol)}, f'ptf_reader.py:{cname}.{f}')
        conv[cname] = out
        short = {'CruisePhaseData': 'cruise', 'ClimbPhaseData': 'climb', 'DescentPhaseData': 'descent'}[cname]
        args = ' '.join(f'x{k}' for k in range(ncol))
        m.raw(f'Definition x_ptf_{short} ({args} : T N) := (' + ', '.join(out[f] for f in fields) + ').')
    if sorted(conv) != sorted(spec):
        raise Untranslatable(f'ptf_reader.py: constructors found: {sorted(conv)}')

    cmd = src / 'commands/make_performance_model.py'
    cmod = m._src(cmd)
    fn = find_function(cmod, 'build_performance_table')
    body = strip_doc(fn.body)
    where = 'make_performance_model.py:build_performance_table'
    if len(body) != 6 or dump(body[0]) != dump(ast.parse("cols = ['fl', 'mass', 'tas', 'rocd', 'fuel_flow']").body[0]) \
            or dump(body[1]) != dump(ast.parse('data = []').body[0]):
        raise Untranslatable(f'{where}: prologue / statement count changed')
    if dump(body[5]) != dump(ast.parse(
            'return dict(cols=cols, data=sorted(data, key=lambda x: (x[1], x[0], -x[3])))').body[0]):
        raise Untranslatable(f'{where}: return / sort key changed')
    blocks = [('climb', ['tas', 'rocd_low', 'rocd_nom', 'rocd_high', 'fuel_flow_nom']),
              ('cruise', ['tas', 'fuel_flow_low', 'fuel_flow_nom', 'fuel_flow_high']),
              ('descent', ['tas', 'rocd_nom', 'fuel_flow_nom'])]
    for st, (blk, fields) in zip(body[2:5], blocks):
        if not (isinstance(st, ast.For) and not st.orelse and isinstance(st.target, ast.Name)
                and dump(st.iter) == _e(f'ptf.{blk}')):
            raise Untranslatable(f'{where}: expected `for r in ptf.{blk}`')
        r = st.target.id
        env = {f'{r}.fl': 'fl', 'ptf.low_mass': 'lo', 'ptf.nominal_mass': 'nom', 'ptf.high_mass': 'hi'}
        env.update({f'{r}.{f}': f for f in fields})
        rows = []
        for ap in st.body:
            c = ap.value if isinstance(ap, ast.Expr) else None
            if not (isinstance(c, ast.Call) and dump(c.func) == _e('data.append') and len(c.args) == 1
                    and isinstance(c.args[0], ast.List) and len(c.args[0].elts) == 5):
                raise Untranslatable(f'{where}: body of the {blk} loop')
            rows.append('mkRow ' + ' '.join(m.expr(x, env, where) for x in c.args[0].elts))
        m.raw(f'Definition x_build_{blk} (lo nom hi fl {" ".join(fields)} : T N) : list (row N) :=\n  ['
              + ';\n   '.join(rows) + '].')

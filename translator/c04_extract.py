"""C04 / C05 extractor — regenerates from the current `src/AEIC/gridding/grid.py` the numeric kernels and the
index / argument conventions the Coq model `coq/model/C04_Model.v` rests on.  Built on `py2coq.NumModule`
(expressions, literals) plus shape-specific, fail-closed matching of the numpy idioms around them
(`np.divide(..., out=, where=)`, `np.searchsorted(...) - 1`, `[:-1]`, `np.expand_dims`, boolean-mask subscripts,
argument order at call sites, tuple unpacking of returned lengths).  Anything that does not match raises
`py2coq.Untranslatable` (the obligation `extract:gridding/grid.py` is then broken).

Generated module `C04_Extracted` (all names prefixed `x_`), proved equal to the model in coq/link/C04_Link.v and
coq/link/C05_Link.v:

  calculate_line_parameters       x_line_defined  x_line_slope  x_line_intercept  x_line_fill_inf  x_seg_slope  x_seg_intercept
  intersection coordinates        x_lon_at_lat  x_lat_at_lon  x_lat_at_lon_vertical  x_vertical_is_isinf  x_midpoint
  grid-line index rule            x_line_step  x_drop_end_cell  x_sort_negate_lat / _lon
  sub-segment fraction            x_frac  x_piece_value  x_segment_length_ends
  cell index                      x_cell_index  (+ every call site: which grid with which values)
  antimeridian                    x_crossing  x_crossing_lat  x_exit_lon  x_entry_lon  x_len1_* / x_len2_* (end points of
                                  the two part lengths)  x_split_first  x_split_second  (resolved THROUGH the call
                                  sites and the tuple unpacking: which length multiplies which part)
  start-point attribution         x_take_alt  x_take_time  x_take_state  x_dup_* (which point's altitude / time / state
                                  the inserted antimeridian point copies)
  public twin                     x_twin_delegates
"""

from __future__ import annotations

import ast
import copy
from pathlib import Path

from translator.py2coq import NumModule, Untranslatable, dump, find_function, lit_text, strip_doc

GRID = 'src/AEIC/gridding/grid.py'


def U(msg):
    return Untranslatable(f'gridding/grid.py: {msg}')


def same(node, text: str) -> bool:
    return dump(node) == dump(ast.parse(text, mode='eval').body)


# ----------------------------------------------------------------------------------------------
# scalarisation of the vectorised numpy idioms (pointwise reading)
# ----------------------------------------------------------------------------------------------

class Scalarize(ast.NodeTransformer):
    """np.expand_dims(X, axis=1) -> X;  np.multiply(a, b) -> a * b;  np.divide(a, b) -> a / b (no keywords);
    X[<mask>] -> X for the listed mask expressions;  E.astype(int) -> E;  np.repeat(X, count_subsegments) -> X;
    and the subscripts listed in `subs` (source text -> scalar name)."""

    def __init__(self, masks=(), subs=None, repeat_by=()):
        self.masks = [dump(ast.parse(t, mode='eval').body) for t in masks]
        self.subs = {dump(ast.parse(k, mode='eval').body): v for k, v in (subs or {}).items()}
        self.repeat_by = set(repeat_by)

    def visit(self, node):
        d = dump(node) if isinstance(node, ast.expr) else None
        if d is not None and d in self.subs:
            return ast.copy_location(ast.Name(id=self.subs[d], ctx=ast.Load()), node)
        return super().visit(node)

    def visit_Call(self, node):
        node = self.generic_visit(node)
        f = node.func
        if isinstance(f, ast.Attribute) and isinstance(f.value, ast.Name) and f.value.id == 'np':
            if f.attr == 'expand_dims' and len(node.args) == 1 and [k.arg for k in node.keywords] == ['axis']:
                return node.args[0]
            if f.attr in ('multiply', 'divide') and len(node.args) == 2 and not node.keywords:
                op = ast.Mult() if f.attr == 'multiply' else ast.Div()
                return ast.copy_location(ast.BinOp(left=node.args[0], op=op, right=node.args[1]), node)
            if f.attr == 'repeat' and len(node.args) == 2 and not node.keywords and \
                    isinstance(node.args[1], ast.Name) and node.args[1].id in self.repeat_by:
                return node.args[0]
        if isinstance(f, ast.Attribute) and f.attr == 'astype' and len(node.args) == 1 and same(node.args[0], 'int'):
            return f.value
        return node

    def visit_Subscript(self, node):
        node = self.generic_visit(node)
        if dump(node.slice) in self.masks:
            return node.value
        return node


def scal(node, **kw):
    return ast.fix_missing_locations(Scalarize(**kw).visit(copy.deepcopy(node)))


# ----------------------------------------------------------------------------------------------
# AST helpers
# ----------------------------------------------------------------------------------------------

def assigns(stmts, target: str):
    """all `target = value` statements (by unparsed target) anywhere below stmts, in order"""
    out = []
    for st in stmts:
        for n in ast.walk(st):
            if isinstance(n, ast.Assign) and len(n.targets) == 1 and ast.unparse(n.targets[0]) == target:
                out.append(n)
    return out


def the_assign(stmts, target: str, where: str):
    a = assigns(stmts, target)
    if len(a) != 1:
        raise U(f'{where}: expected exactly one assignment to `{target}`, found {len(a)}')
    return a[0].value


def the_for(fn, iter_name: str):
    loops = [n for n in ast.walk(fn) if isinstance(n, ast.For) and isinstance(n.iter, ast.Name) and n.iter.id == iter_name]
    if len(loops) != 1:
        raise U(f'{fn.name}: expected one loop over {iter_name}, found {len(loops)}')
    return loops[0]


def np_divide_masked(call, where):
    """np.divide(num, den, out=OUT, where=COND) -> (num, den, OUT, COND)"""
    if not (isinstance(call, ast.Call) and same(call.func, 'np.divide') and len(call.args) == 2):
        raise U(f'{where}: expected np.divide(a, b, out=..., where=...)')
    kw = {k.arg: k.value for k in call.keywords}
    if sorted(kw) != ['out', 'where']:
        raise U(f'{where}: np.divide keywords {sorted(kw)} (expected out=, where=)')
    return call.args[0], call.args[1], kw['out'], kw['where']


def call_args(call, fn_def, where):
    """{parameter name: argument node} for a positional/keyword call of the method `fn_def`"""
    params = [a.arg for a in fn_def.args.args if a.arg != 'self']
    if len(call.args) > len(params):
        raise U(f'{where}: too many arguments')
    m = dict(zip(params, call.args))
    for k in call.keywords:
        if k.arg is None or k.arg in m or k.arg not in params:
            raise U(f'{where}: keyword {k.arg}')
        m[k.arg] = k.value
    if set(m) != set(params):
        raise U(f'{where}: arguments {sorted(m)} do not cover parameters {params}')
    return m


def method_calls(fn, name):
    return [n for n in ast.walk(fn) if isinstance(n, ast.Call) and isinstance(n.func, ast.Attribute)
            and n.func.attr == name and isinstance(n.func.value, ast.Name) and n.func.value.id == 'self']


def slice_take(node, base: str, where: str):
    """`base[:-1]` -> 'start' (drop the last), `base[1:]` -> 'end'; base is matched by source text"""
    if not (isinstance(node, ast.Subscript) and ast.unparse(node.value) == base):
        raise U(f'{where}: expected a slice of `{base}`, found `{ast.unparse(node)}`')
    s = ast.unparse(node.slice)
    if s == ':-1':
        return 'start'
    if s == '1:':
        return 'end'
    raise U(f'{where}: slice `[{s}]` of {base} is neither [:-1] nor [1:]')


TAKE = {'start': 'removelast l', 'end': 'tl l'}


# ----------------------------------------------------------------------------------------------
# small statement translator (assignments, if/else, early return) over NumModule.expr
# ----------------------------------------------------------------------------------------------

def body_expr(m: NumModule, stmts, env, where):
    if not stmts:
        raise U(f'{where}: falls off the end')
    st, rest = stmts[0], stmts[1:]
    if isinstance(st, ast.Return):
        return m.expr(st.value, env, where)
    if isinstance(st, ast.Assign) and len(st.targets) == 1 and isinstance(st.targets[0], ast.Name):
        v = 'v_' + st.targets[0].id
        e = m.expr(st.value, env, where)
        return f'(let {v} := {e} in\n   {body_expr(m, rest, {**env, st.targets[0].id: v}, where)})'
    if isinstance(st, ast.If):
        c = m.bexpr(st.test, env, where)
        if st.body and isinstance(st.body[-1], ast.Return) and not st.orelse:
            return f'(if {c} then {body_expr(m, st.body, env, where)} else\n   {body_expr(m, rest, env, where)})'
        tb = [s.targets[0].id for s in st.body if isinstance(s, ast.Assign) and isinstance(s.targets[0], ast.Name)]
        te = [s.targets[0].id for s in st.orelse if isinstance(s, ast.Assign) and isinstance(s.targets[0], ast.Name)]
        if len(tb) == len(st.body) and len(te) == len(st.orelse) and sorted(tb) == sorted(te) and tb:
            out, env2 = '', dict(env)
            for t in tb:
                eb = m.expr(next(s.value for s in st.body if s.targets[0].id == t), env, where)
                ee = m.expr(next(s.value for s in st.orelse if s.targets[0].id == t), env, where)
                out += f'(let v_{t} := (if {c} then {eb} else {ee}) in\n   '
                env2[t] = 'v_' + t
            return out + body_expr(m, rest, env2, where) + ')' * len(tb)
    raise U(f'{where}: statement `{ast.unparse(st)[:70]}` is outside the translated subset')


# ----------------------------------------------------------------------------------------------
# the extraction
# ----------------------------------------------------------------------------------------------

def extract_c04(repo: Path) -> str:
    path = Path(repo) / GRID
    m = NumModule('C04_Extracted')
    mod = m._src(path)
    PI = {'np.pi': '(@pi N)'}                     # model constant (lit with the binary64 of math.pi)
    D = m.raw

    # ---- calculate_line_parameters -------------------------------------------------------------
    fn = find_function(mod, 'calculate_line_parameters')
    w = 'calculate_line_parameters'
    if [a.arg for a in fn.args.args] != ['x', 'y']:
        raise U(f'{w}: parameters changed')
    body = strip_doc(fn.body)
    if not (same(the_assign(body, 'dx', w), 'np.diff(x)') and same(the_assign(body, 'dy', w), 'np.diff(y)')):
        raise U(f'{w}: dx / dy are no longer np.diff(x) / np.diff(y)')
    num, den, out, cond = np_divide_masked(the_assign(body, 'slopes', w), w + ':slopes')
    if not same(out, 'np.full_like(dy, np.inf)'):
        raise U(f'{w}: out= of the slope division is `{ast.unparse(out)}`, expected np.full_like(dy, np.inf)')
    env = {'dx': '(x1 - x0)', 'dy': '(y1 - y0)'}
    D(f'Definition x_line_defined (x0 x1 : T N) : bool := {m.bexpr(cond, env, w)}.')
    D(f'Definition x_line_slope (x0 y0 x1 y1 : T N) : T N := ({m.expr(num, env, w)} / {m.expr(den, env, w)}).')
    D('Definition x_line_fill_inf : bool := true.')
    icpt = scal(the_assign(body, 'intercepts', w), subs={'x[:-1]': 'x0', 'y[:-1]': 'y0'})
    D(f'Definition x_line_intercept (x0 y0 slopes : T N) : T N := '
      f'{m.expr(icpt, {"x0": "x0", "y0": "y0", "slopes": "slopes"}, w)}.')
    rets = [s for s in body if isinstance(s, ast.Return)]
    if len(rets) != 1 or not same(rets[0].value, '(slopes, intercepts)'):
        raise U(f'{w}: must return (slopes, intercepts)')

    # ---- _trajectory_intersection_points_and_cells_horizontal -----------------------------------
    fn = find_function(mod, '_trajectory_intersection_points_and_cells_horizontal', cls='Gridder')
    w = '_trajectory_intersection_points_and_cells_horizontal'
    body = strip_doc(fn.body)
    lp = [n for n in ast.walk(fn) if isinstance(n, ast.Assign) and isinstance(n.targets[0], ast.Tuple)
          and [ast.unparse(e) for e in n.targets[0].elts] == ['slopes', 'intercepts']]
    if len(lp) != 1 or not (isinstance(lp[0].value, ast.Call) and same(lp[0].value.func, 'calculate_line_parameters')
                            and len(lp[0].value.args) == 2 and not lp[0].value.keywords):
        raise U(f'{w}: `slopes, intercepts = calculate_line_parameters(a, b)` not found')
    xy = [ast.unparse(a) for a in lp[0].value.args]
    coord = {'lats': ('lat0', 'lat1'), 'lons': ('lon0', 'lon1')}
    if sorted(xy) != ['lats', 'lons']:
        raise U(f'{w}: calculate_line_parameters is called with {xy}')
    (xa, xb), (ya, yb) = coord[xy[0]], coord[xy[1]]
    D(f'Definition x_seg_defined (lat0 lon0 lat1 lon1 : T N) : bool := x_line_defined {xa} {xb}.')
    D(f'Definition x_seg_slope (lat0 lon0 lat1 lon1 : T N) : T N := x_line_slope {xa} {ya} {xb} {yb}.')
    D(f'Definition x_seg_intercept (lat0 lon0 slopes : T N) : T N := x_line_intercept {xa} {ya} slopes.')
    for tgt, sgn in (('lat_change_signs', 'lats'), ('lon_change_signs', 'lons')):
        if not same(the_assign(body, tgt, w), f'np.sign(np.diff({sgn}))'):
            raise U(f'{w}: {tgt} is no longer np.sign(np.diff({sgn}))')

    # latitude loop: longitudes at the latitude lines met
    lat_loop = the_for(fn, 'unique_lat_index_changes')
    lon_loop = the_for(fn, 'unique_lon_index_changes')
    e = scal(the_assign(lat_loop.body, '_lons_for_lat_intersections', w))
    D('Definition x_lon_at_lat (slopes intercepts y : T N) : T N := '
      + m.expr(e, {'_slopes': 'slopes', '_intercepts': 'intercepts', '_lat_lines_intersected': 'y'}, w) + '.')
    if not same(the_assign(lat_loop.body, '_lat_lines_intersected', w), 'self.grid_latitudes[_lat_indexes_intersected]'):
        raise U(f'{w}: latitude lines are not read from self.grid_latitudes')
    if not same(the_assign(lon_loop.body, '_lon_lines_intersected', w), 'self.grid_longitudes[_lon_indexes_intersected]'):
        raise U(f'{w}: longitude lines are not read from self.grid_longitudes')
    # longitude loop: latitudes at the longitude lines met; the vertical branch
    if not same(the_assign(lon_loop.body, '_inf_mask', w), 'np.isinf(_slopes)'):
        raise U(f'{w}: the vertical-slope mask is no longer np.isinf(_slopes)')
    D('Definition x_vertical_is_isinf : bool := true.')
    reg = the_assign(lon_loop.body, '_lats_for_lon_intersections[~_inf_mask]', w)
    e = scal(reg, masks=['~_inf_mask'])
    D('Definition x_lat_at_lon (slopes intercepts x : T N) : T N := '
      + m.expr(e, {'_slopes': 'slopes', '_intercepts': 'intercepts', '_lon_lines_intersected': 'x'}, w) + '.')
    ver = scal(the_assign(lon_loop.body, '_lats_for_lon_intersections[_inf_mask]', w), masks=['_inf_mask'])
    if not (isinstance(ver, ast.Name) and ver.id == '_lats'):
        raise U(f'{w}: vertical branch is `{ast.unparse(ver)}`, expected the segment latitudes `_lats`')
    src_lats = the_assign(lon_loop.body, '_lats', w)
    if not (isinstance(src_lats, ast.Subscript) and same(src_lats.slice, '_mask')):
        raise U(f'{w}: `_lats` is not a masked selection')
    which = slice_take(src_lats.value, 'lats', w + ':_lats')
    D(f'Definition x_lat_at_lon_vertical (lat0 lat1 : T N) : T N := {"lat0" if which == "start" else "lat1"}.')

    # which grid line indices are met: _change_range
    for loop, nm, change in ((lat_loop, 'lat', '_lat_index_change'), (lon_loop, 'lon', '_lon_index_change')):
        rng = the_assign(loop.body, '_change_range', w)
        if not (isinstance(rng, ast.Call) and same(rng.func, 'np.arange') and len(rng.args) == 1):
            raise U(f'{w}: _change_range ({nm}) is not np.arange(n)')
        ifs = [s for s in loop.body if isinstance(s, ast.If) and same(s.test, f'{change} < 0')]
        if len(ifs) != 1 or len(ifs[0].body) != 1 or len(ifs[0].orelse) != 1:
            raise U(f'{w}: the direction rule of _change_range ({nm}) changed shape')

        def aug(st):
            if not (isinstance(st, ast.AugAssign) and isinstance(st.target, ast.Name) and st.target.id == '_change_range'
                    and isinstance(st.value, (ast.Constant, ast.UnaryOp))):
                raise U(f'{w}: direction rule statement `{ast.unparse(st)}`')
            k = ast.literal_eval(st.value)
            if not isinstance(k, int):
                raise U(f'{w}: direction rule constant {k!r}')
            op = {ast.Mult: '*', ast.Add: '+', ast.Sub: '-'}.get(type(st.op))
            if op is None:
                raise U(f'{w}: direction rule operator')
            return f'(j {op} ({k}))%Z'
        D(f'Definition x_line_step_{nm} (down : bool) (j : Z) : Z := if down then {aug(ifs[0].body[0])} else {aug(ifs[0].orelse[0])}.')
        idx = the_assign(loop.body, f'_{nm}_indexes_intersected', w)
        if not same(idx, f'_start_{nm}_index[:, np.newaxis] + _change_range[np.newaxis, :]'):
            raise U(f'{w}: line indices ({nm}) are no longer start index + _change_range')
        if not same(the_assign(loop.body, f'_start_{nm}_index', w), f'_{nm}_index_ranges[:, 0]'):
            raise U(f'{w}: start index ({nm}) is no longer column 0 of the index range')

    # direction-aware sort: rows with sign -1 are negated around the sort
    for nm in ('lat', 'lon'):
        arr = f'intersection_point_{nm}s'
        negs = [n for n in ast.walk(fn) if isinstance(n, ast.Assign) and ast.unparse(n.targets[0]).startswith(arr + '[')
                and isinstance(n.value, ast.UnaryOp) and isinstance(n.value.op, ast.USub)]
        want = f'{arr}[{nm}_change_signs == -1]'
        if len(negs) != 2 or any(ast.unparse(n.targets[0]) != want or ast.unparse(n.value.operand) != want for n in negs):
            raise U(f'{w}: rows of {arr} must be negated where {nm}_change_signs == -1 (before and after the sort)')
        srt = [n for n in ast.walk(fn) if isinstance(n, ast.Call) and same(n.func, f'{arr}.sort')]
        if len(srt) != 1 or [k.arg for k in srt[0].keywords] != ['axis'] or not (negs[0].lineno < srt[0].lineno < negs[1].lineno):
            raise U(f'{w}: {arr}.sort(axis=1) must sit between the two negations')
        D(f'Definition x_sort_negate_{nm} : Z := (-1)%Z.')
    col = {'lat': ('lat_lines_intersected', 'lats_for_lon_intersections'),
           'lon': ('lon_lines_intersected', 'lons_for_lat_intersections')}
    for nm, (a, b) in col.items():
        st = assigns(body, f'intersection_point_{nm}s')
        if not st or not same(st[0].value, f'np.column_stack(({a}, {b}))'):
            raise U(f'{w}: intersection_point_{nm}s is no longer column_stack(({a}, {b}))')
    # midpoints and the piece-count rule
    for nm in ('lat', 'lon'):
        mp = the_assign(body, f'midpoints_{nm}s', w)
        e = scal(mp, subs={f'intersection_point_{nm}s[:, :-1]': 'a', f'intersection_point_{nm}s[:, 1:]': 'b'})
        D(f'Definition x_midpoint_{nm} (a b : T N) : T N := {m.expr(e, {"a": "a", "b": "b"}, w)}.')
    drops = [n for n in ast.walk(fn) if isinstance(n, ast.Assign) and same(n.value, 'np.nan')
             and ast.unparse(n.targets[0]).startswith('all_subsegment_')]
    if sorted(ast.unparse(n.targets[0]) for n in drops) != \
            ['all_subsegment_lat_indices[absolute_index_changes == 0, -1]',
             'all_subsegment_lon_indices[absolute_index_changes == 0, -1]']:
        raise U(f'{w}: the rule dropping the end cell of a segment that crosses no line changed')
    if not same(the_assign(body, 'absolute_index_changes', w), 'np.abs(lat_index_changes) + np.abs(lon_index_changes)'):
        raise U(f'{w}: absolute_index_changes changed')
    D('Definition x_drop_end_cell (k : Z) : bool := (k =? 0)%Z.')
    for nm in ('lat', 'lon'):
        if not same(the_assign(body, f'all_subsegment_{nm}_indices', w),
                    f'np.column_stack(({nm}_grid_indices[:-1], midpoint_{nm}_indices, {nm}_grid_indices[1:]))'):
            raise U(f'{w}: all_subsegment_{nm}_indices is no longer (start cell, midpoint cells, end cell)')
        if not same(the_assign(body, f'all_subsegment_point_{nm}s', w),
                    f'np.column_stack(({nm}s[:-1], intersection_point_{nm}s, {nm}s[1:]))'):
            raise U(f'{w}: all_subsegment_point_{nm}s is no longer (start point, intersections, end point)')

    # ---- _cell_indices and its call sites ------------------------------------------------------------
    fn_ci = find_function(mod, '_cell_indices')
    w = '_cell_indices'
    if [a.arg for a in fn_ci.args.args] != ['grid', 'values']:
        raise U(f'{w}: parameters changed')
    rb = strip_doc(fn_ci.body)
    if len(rb) != 1 or not isinstance(rb[0], ast.Return):
        raise U(f'{w}: expected a single return')

    def cell_expr(n):
        if isinstance(n, ast.Call) and same(n.func, 'np.maximum') and len(n.args) == 2 and not n.keywords \
                and isinstance(n.args[1], ast.Constant) and isinstance(n.args[1].value, int):
            return f'(Z.max {cell_expr(n.args[0])} ({n.args[1].value}))%Z'
        if isinstance(n, ast.BinOp) and isinstance(n.op, (ast.Sub, ast.Add)) and isinstance(n.right, ast.Constant) \
                and isinstance(n.right.value, int):
            return f'({cell_expr(n.left)} {"-" if isinstance(n.op, ast.Sub) else "+"} ({n.right.value}))%Z'
        if isinstance(n, ast.Call) and same(n.func, 'np.searchsorted') and len(n.args) == 2 \
                and same(n.args[0], 'grid') and same(n.args[1], 'values'):
            kw = {k.arg: k.value for k in n.keywords}
            if kw and not (list(kw) == ['side'] and same(kw['side'], "'left'")):
                raise U(f'{w}: searchsorted keywords `{ast.unparse(n)}` (the model has side=left)')
            return '(ss_left g x)'
        raise U(f'{w}: `{ast.unparse(n)}` is outside searchsorted / +- constant / np.maximum(., constant)')
    D(f'Definition x_cell_index (g : list (T N)) (x : T N) : Z := {cell_expr(rb[0].value)}.')
    cls = next(n for n in mod.body if isinstance(n, ast.ClassDef) and n.name == 'Gridder')
    sites = {}
    for f in cls.body:
        if not isinstance(f, ast.FunctionDef) or f.name == '_polygon_touched_cells':
            continue
        for n in ast.walk(f):
            if isinstance(n, ast.Call) and same(n.func, 'np.searchsorted'):
                raise U(f'{f.name}: a raw np.searchsorted call bypasses _cell_indices')
            if isinstance(n, ast.Call) and same(n.func, '_cell_indices'):
                if len(n.args) != 2 or n.keywords:
                    raise U(f'{f.name}: _cell_indices call shape')
                sites.setdefault(f.name, []).append((ast.unparse(n.args[0]), ast.unparse(n.args[1])))
    want_sites = {
        '_trajectory_intersection_points_and_cells_horizontal': [
            ('self.grid_latitudes', 'lats'), ('self.grid_longitudes', 'lons'),
            ('self.grid_latitudes', 'midpoints_lats'), ('self.grid_longitudes', 'midpoints_lons')],
        '_trajectory_time_grid_indices': [('self.grid_times', 'times')],
        '_trajectory_altitude_grid_indices': [('self.grid_altitudes', 'altitudes')],
        '_trajectory_segment_time_grid_indices': [('self.grid_times', 'times')],
        '_trajectory_segment_altitude_grid_indices': [('self.grid_altitudes', 'altitudes')],
    }
    if sites != want_sites:
        raise U(f'_cell_indices is applied to {sites}, the model assumes {want_sites}')
    D('Definition x_cell_sites_ok : bool := true.')

    # ---- start-point attribution: altitude / time / state ----------------------------------------------
    for nm, f in (('alt', '_trajectory_segment_altitude_grid_indices'), ('time', '_trajectory_segment_time_grid_indices')):
        g = find_function(mod, f, cls='Gridder')
        r = [s for s in g.body if isinstance(s, ast.Return)]
        if len(r) != 1:
            raise U(f'{f}: expected one return')
        base = ast.unparse(r[0].value.value) if isinstance(r[0].value, ast.Subscript) else ''
        if not base.startswith('_cell_indices('):
            raise U(f'{f}: must return a slice of _cell_indices(...)')
        D(f'Definition x_take_{nm} {{A : Type}} (l : list A) : list A := {TAKE[slice_take(r[0].value, base, f)]}.')
    fn_v = find_function(mod, '_cell_idxs_touched_by_trajectory_with_state_and_integrated_vars', cls='Gridder')
    w = '_cell_idxs_touched_by_trajectory_with_state_and_integrated_vars'
    vb = strip_doc(fn_v.body)
    sv = the_assign(vb, 'state_variable_values', w)
    if not (isinstance(sv, ast.Call) and same(sv.func, 'tuple') and len(sv.args) == 1 and isinstance(sv.args[0], ast.GeneratorExp)
            and ast.unparse(sv.args[0].generators[0].iter) == 'state_variables'
            and ast.unparse(sv.args[0].generators[0].target) == 'variable'):
        raise U(f'{w}: state_variable_values shape')
    rep = sv.args[0].elt
    if not (isinstance(rep, ast.Call) and same(rep.func, 'np.repeat') and len(rep.args) == 2 and same(rep.args[1], 'count_subsegments')):
        raise U(f'{w}: state values are no longer np.repeat(<slice of variable>, count_subsegments)')
    D(f'Definition x_take_state {{A : Type}} (l : list A) : list A := {TAKE[slice_take(rep.args[0], "variable", w)]}.')
    for nm, seg, src in (('altitude', 'segment_altitude_indices', '_trajectory_segment_altitude_grid_indices(altitudes)'),
                         ('time', 'segment_time_indices', '_trajectory_segment_time_grid_indices(times)')):
        if not same(the_assign(vb, seg, w), f'self.{src}'):
            raise U(f'{w}: {seg} is no longer self.{src}')
        tgt = f'touched_cells_{nm}_indices'
        vals = [a.value for a in assigns(vb, tgt)]
        if not any(same(v, f'np.repeat({seg}, count_subsegments)') for v in vals):
            raise U(f'{w}: {tgt} is no longer np.repeat({seg}, count_subsegments)')
    if not same(the_assign(vb, 'count_subsegments', w), 'np.count_nonzero(~np.isnan(all_subsegment_lat_indices), axis=1)'):
        raise U(f'{w}: count_subsegments changed')

    # ---- sub-segment fractions and piece values --------------------------------------------------------
    num, den, out, cond = np_divide_masked(the_assign(vb, 'subsegment_distance_fractions', w), w + ':fractions')
    if not (same(num, 'subsegment_distances') and same(den, 'segment_distances_repeated')):
        raise U(f'{w}: the fraction is `{ast.unparse(num)} / {ast.unparse(den)}`, expected subsegment / segment distance')
    if not same(the_assign(vb, 'segment_distances_repeated', w), 'np.repeat(segment_distances, count_subsegments)'):
        raise U(f'{w}: segment_distances_repeated changed')
    env = {'subsegment_distances': 'd', 'segment_distances_repeated': 'D', 'count_subsegments': '(of_Z (Z.of_nat cnt))'}
    if same(out, 'np.zeros_like(subsegment_distances)'):
        out_txt = 'zero'
    else:
        out_txt = m.expr(scal(out, repeat_by=['count_subsegments']), env, w + ':out')
    D(f'Definition x_frac (cnt : nat) (D d : T N) : T N := if {m.bexpr(cond, env, w)} then (d / D) else {out_txt}.')
    ivs = [a.value for a in assigns(vb, 'integrated_variable_values')]
    if len(ivs) != 2 or not same(ivs[1], '()'):
        raise U(f'{w}: integrated_variable_values must be assigned once from the variables and once as ()')
    iv = ivs[0]
    if not (isinstance(iv, ast.Call) and same(iv.func, 'tuple') and isinstance(iv.args[0], ast.GeneratorExp)
            and ast.unparse(iv.args[0].generators[0].iter) == 'integrated_variables'
            and ast.unparse(iv.args[0].generators[0].target) == 'variable'):
        raise U(f'{w}: integrated_variable_values shape')
    pv = scal(iv.args[0].elt, repeat_by=['count_subsegments'])
    D('Definition x_piece_value (v : T N) (cnt : nat) (D d : T N) : T N := '
      + m.expr(pv, {'variable': 'v', 'subsegment_distance_fractions': '(x_frac cnt D d)'}, w) + '.')
    if not same(the_assign(vb, 'segment_distances', w), 'great_circle_distance(lats[:-1], lons[:-1], lats[1:], lons[1:])'):
        raise U(f'{w}: segment_distances is no longer the distance between consecutive trajectory points')
    sd = [a.value for a in assigns(vb, 'subsegment_distances')]
    if len(sd) != 2 or not same(sd[0], 'great_circle_distance(all_segment_point_lats_flat[:-1], all_segment_point_lons_flat[:-1], '
                                       'all_segment_point_lats_flat[1:], all_segment_point_lons_flat[1:])') \
            or not same(sd[1], 'np.delete(subsegment_distances, non_segment_idxs)'):
        raise U(f'{w}: subsegment_distances changed')
    if not same(the_assign(vb, 'non_segment_idxs', w), '(np.cumsum(count_subsegments + 1) - 1)[:-1]'):
        raise U(f'{w}: non_segment_idxs changed')
    flat = 'all_subsegment_point_lats[~np.isnan(all_subsegment_point_lats)].flatten()'
    fl = the_assign(vb, 'all_segment_point_lats_flat', w)
    if same(fl, flat):
        D('Definition x_clip_dist_lat : bool := false.')
    elif same(fl, f'np.clip({flat}, -np.pi / 2, np.pi / 2)'):
        D('Definition x_clip_dist_lat : bool := true.')          # dist := dist o clip (FC04c repaired)
    else:
        raise U(f'{w}: all_segment_point_lats_flat is `{ast.unparse(fl)[:80]}`')
    if not same(the_assign(vb, 'all_segment_point_lons_flat', w),
                'all_subsegment_point_lons[~np.isnan(all_subsegment_point_lons)].flatten()'):
        raise U(f'{w}: all_segment_point_lons_flat changed')
    gcd = find_function(mod, 'great_circle_distance')
    r = [s for s in gcd.body if isinstance(s, ast.Return)]
    if [a.arg for a in gcd.args.args] != ['lat1', 'lon1', 'lat2', 'lon2'] or len(r) != 1 or \
            not same(r[0].value, 'GEOD.inv(lon1, lat1, lon2, lat2, radians=True)[2]'):
        raise U('great_circle_distance changed')
    D('Definition x_segment_length_ends : bool := true.')

    # ---- crosses_dateline --------------------------------------------------------------------------------
    fn = find_function(mod, 'crosses_dateline')
    w = 'crosses_dateline'
    if [a.arg for a in fn.args.args] != ['lon1', 'lon2']:
        raise U(f'{w}: parameters changed')
    b = strip_doc(fn.body)
    cross = scal(the_assign(b, 'cross', w))
    r = [s for s in b if isinstance(s, ast.Return)]
    if len(r) != 1 or not same(r[0].value, 'np.sign(diff) * cross'):
        raise U(f'{w}: must return np.sign(diff) * cross')
    env = {'lon1': 'lon1', 'lon2': 'lon2', **PI}
    dtxt = m.expr(the_assign(b, 'diff', w), env, w)
    D(f'Definition x_crossing (lon1 lon2 : T N) : Z :=\n  let diff := {dtxt} in if {m.bexpr(cross, {**env, "diff": "diff"}, w)} then nsign diff else 0%Z.')
    gt = find_function(mod, 'grid_trajectory', cls='Gridder')
    if not same(the_assign(strip_doc(gt.body), 'dateline_crossing', 'grid_trajectory'), 'crosses_dateline(lons[:-1], lons[1:])'):
        raise U('grid_trajectory: dateline_crossing is no longer crosses_dateline(lons[:-1], lons[1:])')

    # ---- antimeridian split ---------------------------------------------------------------------------------
    IDX, SG = 'dateline_crossing_idx', 'dateline_crossing_sign'
    pts = {f'lats[{IDX}]': 'lat0', f'lons[{IDX}]': 'lon0', f'lats[{IDX} + 1]': 'lat1', f'lons[{IDX} + 1]': 'lon1'}
    sgenv = {SG: '(if down then (- (@one N)) else (@one N))'}
    fnx = find_function(mod, '_dateline_crossing_latitude', cls='Gridder')
    w = '_dateline_crossing_latitude'
    if [a.arg for a in fnx.args.args] != ['self', 'lats', 'lons', IDX, SG]:
        raise U(f'{w}: parameters changed')
    xb = [scal(s, subs=pts) for s in strip_doc(fnx.body)]
    env = {k: k for k in ('lat0', 'lon0', 'lat1', 'lon1')} | PI | sgenv
    D('Definition x_crossing_lat (down : bool) (lat0 lon0 lat1 lon1 : T N) : T N :=\n  ' + body_expr(m, xb, env, w) + '.')

    fnl = find_function(mod, '_calculate_segment_lengths', cls='Gridder')
    w = '_calculate_segment_lengths'
    lb = strip_doc(fnl.body)
    cl = the_assign(lb, 'crossing_lat', w)
    if not same(cl, f'self._dateline_crossing_latitude(lats, lons, {IDX}, {SG})'):
        raise U(f'{w}: crossing_lat is `{ast.unparse(cl)}`, expected self._dateline_crossing_latitude(lats, lons, idx, sign)')
    env = env | {'crossing_lat': 'latx'}
    for nm in ('first', 'second'):
        c = the_assign(lb, f'{nm}_segment_length', w)
        if not (isinstance(c, ast.Call) and same(c.func, 'great_circle_distance') and len(c.args) == 4 and not c.keywords):
            raise U(f'{w}: {nm}_segment_length is not great_circle_distance(lat, lon, lat, lon)')
        a = [m.expr(scal(x, subs=pts), env, w) for x in c.args]
        k = '1' if nm == 'first' else '2'
        D(f'Definition x_len{k}_from (down : bool) (lat0 lon0 lat1 lon1 latx : T N) : T N * T N := ({a[0]}, {a[1]}).')
        D(f'Definition x_len{k}_to (down : bool) (lat0 lon0 lat1 lon1 latx : T N) : T N * T N := ({a[2]}, {a[3]}).')
    tot = m.expr(the_assign(lb, 'total_segment_length', w),
                 {'first_segment_length': 'len1', 'second_segment_length': 'len2'}, w)
    r = [s for s in lb if isinstance(s, ast.Return)]
    if len(r) != 1 or not isinstance(r[0].value, ast.Tuple) or len(r[0].value.elts) != 3:
        raise U(f'{w}: must return three lengths')
    ret_txt = {'first_segment_length': 'len1', 'second_segment_length': 'len2', 'total_segment_length': tot}
    try:
        returned = [ret_txt[ast.unparse(e)] for e in r[0].value.elts]
    except KeyError:
        raise U(f'{w}: returns `{ast.unparse(r[0].value)}`') from None

    fnd = find_function(mod, '_grid_trajectory_with_dateline_crossing', cls='Gridder')
    w = '_grid_trajectory_with_dateline_crossing'
    un = [n for n in ast.walk(fnd) if isinstance(n, ast.Assign) and isinstance(n.value, ast.Call)
          and same(n.value.func, 'self._calculate_segment_lengths')]
    if len(un) != 1 or not isinstance(un[0].targets[0], ast.Tuple) or len(un[0].targets[0].elts) != 3:
        raise U(f'{w}: the three lengths are no longer unpacked from self._calculate_segment_lengths(...)')
    ca = call_args(un[0].value, fnl, w)
    if [ast.unparse(ca[k]) for k in ('lats', 'lons', IDX, SG)] != ['lats', 'lons', IDX, SG]:
        raise U(f'{w}: arguments of _calculate_segment_lengths changed')
    local = {ast.unparse(t): txt for t, txt in zip(un[0].targets[0].elts, returned)}     # local name -> Coq text
    if not same(the_assign(strip_doc(fnd.body), IDX, w), 'np.where(dateline_crossing != 0)[0][0]') or \
            not same(the_assign(strip_doc(fnd.body), SG, w), f'dateline_crossing[{IDX}]'):
        raise U(f'{w}: crossing index / sign changed')
    for part, lenparam, dup in (('first', 'first_segment_length', f'[: {IDX} + 1]'),
                                ('second', 'second_segment_length', f'[{IDX} + 1:]')):
        fs = find_function(mod, f'_dateline_split_{part}_segment', cls='Gridder')
        ws = fs.name
        calls = method_calls(fnd, fs.name)
        if len(calls) != 1:
            raise U(f'{w}: expected one call of {fs.name}')
        args = call_args(calls[0], fs, w)
        for p in ('lats', 'lons', 'altitudes', 'times', 'state_variables', 'integrated_variables', IDX, SG):
            if ast.unparse(args[p]) != p:
                raise U(f'{w}: {fs.name} is passed `{ast.unparse(args[p])}` for {p}')
        try:
            lenv = {lenparam: '(' + local[ast.unparse(args[lenparam])] + ')',
                    'total_segment_length': '(' + local[ast.unparse(args['total_segment_length'])] + ')'}
        except KeyError as e:
            raise U(f'{w}: {fs.name} is passed a length that is not one of the three computed lengths: {e}') from None
        sb = strip_doc(fs.body)
        # integrated values of the part
        gen = the_assign(sb, f'integrated_variables_{part}_parts', ws)
        if not (isinstance(gen, ast.Call) and same(gen.func, 'tuple') and isinstance(gen.args[0], ast.GeneratorExp)
                and ast.unparse(gen.args[0].generators[0].iter) == 'integrated_variables'):
            raise U(f'{ws}: integrated_variables_{part}_parts shape')
        var = ast.unparse(gen.args[0].generators[0].target)
        cat = gen.args[0].elt
        if not (isinstance(cat, ast.Call) and same(cat.func, 'np.concatenate') and len(cat.args) == 1
                and isinstance(cat.args[0], ast.Tuple) and len(cat.args[0].elts) == 2):
            raise U(f'{ws}: integrated values are no longer np.concatenate((.., ..))')
        a, b2 = cat.args[0].elts
        keep, ins = (a, b2) if part == 'first' else (b2, a)
        want_keep = f'{var}[:{IDX}]' if part == 'first' else f'{var}[{IDX} + 1:]'
        if not same(keep, want_keep):
            raise U(f'{ws}: the untouched integrated values are `{ast.unparse(keep)}`, expected `{want_keep}`')
        if not (isinstance(ins, ast.Call) and same(ins.func, 'np.array') and isinstance(ins.args[0], ast.List) and len(ins.args[0].elts) == 1):
            raise U(f'{ws}: the split value is no longer np.array([..])')
        e = scal(ins.args[0].elts[0], subs={f'{var}[{IDX}]': 'v'})
        D(f'Definition x_split_{part} (v len1 len2 : T N) : T N := {m.expr(e, {"v": "v", **lenv}, ws)}.')
        # the inserted point: longitude, latitude, and whose altitude / time / state it copies
        for arr, nmx in (('lons', 'lon'), ('lats', 'lat'), ('altitudes', 'alt'), ('times', 'time')):
            v = the_assign(sb, f'{arr}_{part}_part', ws)
            if isinstance(v, ast.IfExp):
                if not same(v.test, f'{arr} is not None') or not same(v.orelse, 'None'):
                    raise U(f'{ws}: {arr}_{part}_part guard')
                v = v.body
            if not (isinstance(v, ast.Call) and same(v.func, 'np.concatenate') and isinstance(v.args[0], ast.Tuple) and len(v.args[0].elts) == 2):
                raise U(f'{ws}: {arr}_{part}_part is no longer np.concatenate((.., ..))')
            a, b2 = v.args[0].elts
            keep, ins = (a, b2) if part == 'first' else (b2, a)
            want_keep = f'{arr}[: {IDX} + 1]' if part == 'first' else f'{arr}[{IDX} + 1:]'
            if not same(keep, want_keep.replace('[: ', '[:')):
                raise U(f'{ws}: kept {arr} are `{ast.unparse(keep)}`')
            if not (isinstance(ins, ast.Call) and same(ins.func, 'np.array') and isinstance(ins.args[0], ast.List) and len(ins.args[0].elts) == 1):
                raise U(f'{ws}: inserted {arr} value is no longer np.array([..])')
            one = ins.args[0].elts[0]
            if nmx == 'lon':
                D(f'Definition x_{"exit" if part == "first" else "entry"}_lon (down : bool) : T N := {m.expr(one, PI | sgenv, ws)}.')
            elif nmx == 'lat':
                if not same(one, f'self._dateline_crossing_latitude(lats, lons, {IDX}, {SG})'):
                    raise U(f'{ws}: inserted latitude is `{ast.unparse(one)}`, expected self._dateline_crossing_latitude(...)')
            else:
                D(f'Definition x_dup_{nmx}_{part} : Z := {dup_offset(one, arr, IDX, ws)}%Z.')
        sv = the_assign(sb, f'state_variables_{part}_parts', ws)
        if not (isinstance(sv, ast.Call) and same(sv.func, 'tuple') and isinstance(sv.args[0], ast.GeneratorExp)
                and ast.unparse(sv.args[0].generators[0].iter) == 'state_variables'):
            raise U(f'{ws}: state_variables_{part}_parts shape')
        var = ast.unparse(sv.args[0].generators[0].target)
        cat = sv.args[0].elt
        if not (isinstance(cat, ast.Call) and same(cat.func, 'np.concatenate') and isinstance(cat.args[0], ast.Tuple) and len(cat.args[0].elts) == 2):
            raise U(f'{ws}: state values are no longer np.concatenate((.., ..))')
        a, b2 = cat.args[0].elts
        keep, ins = (a, b2) if part == 'first' else (b2, a)
        want_keep = f'{var}[:{IDX} + 1]' if part == 'first' else f'{var}[{IDX} + 1:]'
        if not same(keep, want_keep) or not (isinstance(ins, ast.Call) and same(ins.func, 'np.array') and isinstance(ins.args[0], ast.List)
                                             and len(ins.args[0].elts) == 1):
            raise U(f'{ws}: state values of the {part} part changed shape')
        D(f'Definition x_dup_state_{part} : Z := {dup_offset(ins.args[0].elts[0], var, IDX, ws)}%Z.')

    # ---- the public twin -----------------------------------------------------------------------------------------
    tw = find_function(mod, 'cells_touched_by_trajectory_with_state_and_integrated_variables', cls='Gridder')
    rets = [n for n in ast.walk(tw) if isinstance(n, ast.Return)]
    deleg = [r for r in rets if isinstance(r.value, ast.Call) and same(r.value.func, 'self.grid_trajectory')]
    inline = any(isinstance(n, ast.Call) and same(n.func, 'self._cell_idxs_touched_by_trajectory_with_state_and_integrated_vars')
                 for n in ast.walk(tw))
    if deleg and not inline:
        a = call_args(deleg[0].value, gt, tw.name)
        if any(ast.unparse(v) != k for k, v in a.items()):
            raise U(f'{tw.name}: delegates to grid_trajectory with changed arguments')
        D('Definition x_twin_delegates : bool := true.')
    elif inline and not deleg:
        D('Definition x_twin_delegates : bool := false.')
    else:
        raise U(f'{tw.name}: neither a pure delegation to grid_trajectory nor the known inline copy')

    text = m.text()
    return text.replace('From AV Require Import lib.Num.\n',
                        'From Coq Require Import List.\nFrom AV Require Import lib.Num model.C04_Model.\nImport ListNotations.\n', 1)


def dup_offset(node, arr: str, idx: str, where: str) -> int:
    """`arr[idx]` -> 0, `arr[idx + k]` -> k"""
    if isinstance(node, ast.Subscript) and ast.unparse(node.value) == arr:
        s = node.slice
        if isinstance(s, ast.Name) and s.id == idx:
            return 0
        if isinstance(s, ast.BinOp) and isinstance(s.op, (ast.Add, ast.Sub)) and isinstance(s.left, ast.Name) and s.left.id == idx \
                and isinstance(s.right, ast.Constant) and isinstance(s.right.value, int):
            return s.right.value if isinstance(s.op, ast.Add) else -s.right.value
    raise U(f'{where}: inserted value `{ast.unparse(node)}` is not {arr}[{idx} (+ k)]')

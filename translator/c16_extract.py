"""C16 extractor — regenerates, from the current source, the numeric text of

  * utils/standard_atmosphere.py: temperature_at_altitude_isa_bada4, pressure_at_altitude_isa_bada4
    (pointwise; constants T0, R_air, g0, p0 from constants.py, beta_tropo / h_p_tropo from the module),
  * weather.py:Weather.get_ground_speed: the pressure-level expression handed to xarray's `interp`,
    the heading conversion, the air-vector decomposition (u_air, v_air) and the returned magnitude.

`get_ground_speed` is not a pure numeric kernel (it reads a dataset), so its *skeleton* is checked
statement by statement (fail closed) and only the arithmetic is translated with `py2coq.NumModule`.
Anything that does not match raises `py2coq.Untranslatable`.
"""

from __future__ import annotations

import ast
from pathlib import Path

from translator.py2coq import NumModule, Untranslatable, dump, find_function, strip_doc


OB_EDGE = 'extract:get_ground_speed:interpolation-at-the-query-point-itself (closed domain, no snapping)'
OB_CACHE = 'extract:weather.py:_require_main_ds+_require_data (dataset / hour-slice cache)'


def _U(msg, obligation):
    e = Untranslatable(msg)
    e.obligation = obligation
    return e


def _is_call_stmt(st, text):
    return isinstance(st, ast.Expr) and dump(st.value) == dump(ast.parse(text, mode='eval').body)


def _interp_call(st, target: str, where: str):
    """`<target> = self._ds['u' | 'v'].interp(pressure_level=E, latitude=gt_point.location.latitude,
    longitude=gt_point.location.longitude)`  ->  (E (ast), variable name)"""
    if not (isinstance(st, ast.Assign) and len(st.targets) == 1 and isinstance(st.targets[0], ast.Name)
            and st.targets[0].id == target):
        raise Untranslatable(f'{where}: expected assignment to {target}')
    c = st.value
    var = None
    if isinstance(c, ast.Call) and not c.args and isinstance(c.func, ast.Attribute) and c.func.attr == 'interp':
        for cand in ('u', 'v'):
            if dump(c.func.value) == dump(ast.parse(f"self._ds['{cand}']", mode='eval').body):
                var = cand
    if var is None:
        raise Untranslatable(f"{where}: {target} must be self._ds['u' or 'v'].interp(...)")
    kw = {k.arg: k.value for k in c.keywords}
    if sorted(kw) != ['latitude', 'longitude', 'pressure_level']:
        raise Untranslatable(f'{where}: interp keywords {sorted(kw)}')
    for name in ('latitude', 'longitude'):
        if dump(kw[name]) != dump(ast.parse(f'gt_point.location.{name}', mode='eval').body):
            raise _U(f'{where}: interp {name}= must be gt_point.location.{name}, found {ast.unparse(kw[name])}', OB_EDGE)
    return kw['pressure_level'], var


def extract_c16(repo: Path) -> str:
    src = Path(repo) / 'src/AEIC'
    m = NumModule('C16_Extracted')
    m.constants(src / 'constants.py', ['p0', 'T0', 'g0', 'R_air'], prefix='c_')
    isa = src / 'utils/standard_atmosphere.py'
    m.constants(isa, ['beta_tropo', 'h_p_tropo'], prefix='c_')
    meta_t = m.function(isa, 'temperature_at_altitude_isa_bada4', coq_name='isa_temperature')
    # the only guard allowed: the 25 km range check (translated separately as `alt_in_range`)
    if meta_t['guards'] != ['np.any(altitude > 25000)']:
        raise Untranslatable(f'standard_atmosphere.py: temperature guards changed: {meta_t["guards"]}')
    meta_p = m.function(isa, 'pressure_at_altitude_isa_bada4', coq_name='isa_pressure')
    if meta_p['guards']:
        raise Untranslatable(f'standard_atmosphere.py: pressure guards changed: {meta_p["guards"]}')
    # the range guard itself: `if np.any(<cond on altitude>): raise ValueError(...)`
    tmod = m._src(isa)
    tfn = find_function(tmod, 'temperature_at_altitude_isa_bada4')
    gs = [s for s in tfn.body if isinstance(s, ast.If) and all(isinstance(x, ast.Raise) for x in s.body)]
    if len(gs) != 1 or not (isinstance(gs[0].test, ast.Call) and ast.unparse(gs[0].test.func) == 'np.any'
                            and len(gs[0].test.args) == 1):
        raise Untranslatable('standard_atmosphere.py: altitude range guard changed')
    m.raw('Definition alt_out_of_range (v_altitude : T N) : bool := '
          + m.bexpr(gs[0].test.args[0], {'altitude': 'v_altitude'}, 'standard_atmosphere.py:guard') + '.')

    wpath = src / 'weather.py'
    mod = m._src(wpath)
    fn = find_function(mod, 'get_ground_speed', cls='Weather')
    where = 'weather.py:Weather.get_ground_speed'
    params = [a.arg for a in fn.args.args]
    if params != ['self', 'time', 'gt_point', 'altitude', 'true_airspeed', 'azimuth']:
        raise Untranslatable(f'{where}: signature {params}')
    body = strip_doc(fn.body)
    if len(body) >= 3 and isinstance(body[1], ast.Assert):
        k = 2
        while k < len(body) and not (isinstance(body[k], ast.Assign) and ast.unparse(body[k].targets[0]) == 'wind_u'):
            k += 1
        if k > 2:      # something is computed between loading the data and interpolating: the query point is rewritten
            raise _U(f'{where}: statements before the interpolation change what is interpolated: '
                     + '; '.join(ast.unparse(x)[:70] for x in body[2:k]), OB_EDGE)
    if len(body) != 9:
        raise Untranslatable(f'{where}: expected 9 statements, found {len(body)}')
    s_req, s_assert, s_u, s_v, s_null, s_head, s_ua, s_va, s_ret = body
    if not _is_call_stmt(s_req, 'self._require_data(time)'):
        raise Untranslatable(f'{where}: first statement must be self._require_data(time)')
    if not isinstance(s_assert, ast.Assert):
        raise Untranslatable(f'{where}: second statement must be the assert on self._ds')
    pl_u, var_u = _interp_call(s_u, 'wind_u', where)
    pl_v, var_v = _interp_call(s_v, 'wind_v', where)
    if {var_u, var_v} != {'u', 'v'}:
        raise Untranslatable(f'{where}: wind_u / wind_v must read the two file variables u and v (found {var_u}, {var_v})')
    env = {'altitude': 'v_altitude'}
    m.known['pressure_at_altitude_isa_bada4'] = 1
    m.coqname['pressure_at_altitude_isa_bada4'] = 'isa_pressure'
    m.raw(f'Definition level_u (v_altitude : T N) : T N := {m.expr(pl_u, env, where)}.')
    m.raw(f'Definition level_v (v_altitude : T N) : T N := {m.expr(pl_v, env, where)}.')
    # refusal outside the data domain
    want_null = ast.parse(
        "if wind_u.isnull().values.any() or wind_v.isnull().values.any():\n"
        "    raise ValueError('x')").body[0]
    if not (isinstance(s_null, ast.If) and dump(s_null.test) == dump(want_null.test) and not s_null.orelse
            and len(s_null.body) == 1 and isinstance(s_null.body[0], ast.Raise)
            and isinstance(s_null.body[0].exc, ast.Call) and isinstance(s_null.body[0].exc.func, ast.Name)
            and s_null.body[0].exc.func.id == 'ValueError'):
        raise Untranslatable(f'{where}: the NaN (outside-domain) refusal changed')
    # heading: if azimuth is None: heading_rad = f(gt_point.azimuth) else: heading_rad = f(azimuth)
    #   or (second recognised form, Python truthiness): heading_rad = f(azimuth or gt_point.azimuth)
    heads = []
    truthy = False
    if isinstance(s_head, ast.If) and dump(s_head.test) == dump(ast.parse('azimuth is None', mode='eval').body) \
            and len(s_head.body) == 1 and len(s_head.orelse) == 1:
        for st, var in ((s_head.body[0], 'gt_point.azimuth'), (s_head.orelse[0], 'azimuth')):
            if not (isinstance(st, ast.Assign) and len(st.targets) == 1 and isinstance(st.targets[0], ast.Name)
                    and st.targets[0].id == 'heading_rad'):
                raise Untranslatable(f'{where}: heading_rad assignment changed')
            heads.append(m.expr(st.value, {var: 'v_azimuth'}, where))
    elif isinstance(s_head, ast.Assign) and len(s_head.targets) == 1 and ast.unparse(s_head.targets[0]) == 'heading_rad':
        orx = [n for n in ast.walk(s_head.value) if isinstance(n, ast.BoolOp)]
        if len(orx) != 1 or not isinstance(orx[0].op, ast.Or) \
                or [ast.unparse(v) for v in orx[0].values] != ['azimuth', 'gt_point.azimuth']:
            raise Untranslatable(f'{where}: heading selection changed: {ast.unparse(s_head)[:100]}')
        truthy = True
        txt = ast.unparse(s_head.value).replace(ast.unparse(orx[0]), 'AZ__')
        one = ast.parse(txt, mode='eval').body
        if hasattr(m, '_text'):
            del m._text            # literals of the re-parsed expression are taken from their own text
        heads = [m.expr(one, {'AZ__': 'v_azimuth'}, where)] * 2
        m._src(wpath)
    else:
        raise Untranslatable(f'{where}: heading selection changed')
    m.raw(f'Definition heading_default (v_azimuth : T N) : T N := {heads[0]}.')
    m.raw(f'Definition heading_given (v_azimuth : T N) : T N := {heads[1]}.')
    # which heading is used: the explicit one if one is passed (None = not passed), else the ground-track point's
    if truthy:
        m.raw('Definition heading_choice (given : option (T N)) (v_point_azimuth : T N) : T N :=\n'
              '  match given with\n  | None => heading_default v_point_azimuth\n'
              '  | Some a => if a =? zero then heading_default v_point_azimuth else heading_given a\n  end.')
    else:
        m.raw('Definition heading_choice (given : option (T N)) (v_point_azimuth : T N) : T N :=\n'
              '  match given with None => heading_default v_point_azimuth | Some a => heading_given a end.')
    env2 = {'true_airspeed': 'v_tas', 'heading_rad': 'v_heading_rad'}
    for st, name in ((s_ua, 'u_air'), (s_va, 'v_air')):
        if not (isinstance(st, ast.Assign) and len(st.targets) == 1 and isinstance(st.targets[0], ast.Name)
                and st.targets[0].id == name):
            raise Untranslatable(f'{where}: expected assignment to {name}')
        m.raw(f'Definition {name} (v_tas v_heading_rad : T N) : T N := {m.expr(st.value, env2, where)}.')
    if not isinstance(s_ret, ast.Return):
        raise Untranslatable(f'{where}: last statement must be return')
    env3 = {'u_air': 'v_u_air', 'v_air': 'v_v_air', 'wind_u': 'v_wind_u', 'wind_v': 'v_wind_v'}
    m.raw('Definition magnitude (v_u_air v_v_air v_wind_u v_wind_v : T N) : T N := '
          f'{m.expr(s_ret.value, env3, where)}.')
    m.raw('Definition ground_speed_kernel (v_tas v_azimuth v_wind_u v_wind_v : T N) : T N :=\n'
          '  magnitude (u_air v_tas (heading_given v_azimuth)) (v_air v_tas (heading_given v_azimuth)) '
          'v_wind_u v_wind_v.')
    # the same, as a function of the file's eastward (f_u) and northward (f_v) wind at the point
    m.raw('Definition ground_speed_query (v_tas v_azimuth f_u f_v : T N) : T N :=\n'
          f'  ground_speed_kernel v_tas v_azimuth f_{var_u} f_{var_v}.')
    return m.text()


def extract_cache_cfg(repo: Path) -> str:
    """Weather._nc_path, _require_main_ds, _require_data as the configuration of model/C16_CacheModel.v.
    Recognised (fail closed otherwise):
      _require_main_ds:  [path = self._nc_path(time)]
                         if self._main_ds is not None and (self._ds_date == time | self._ds_path == path): return
                         [self._ds = None] [self._ds_time_idx = None]
                         if self._main_ds is not None: close, drop, gc.collect()
                         self._main_ds = xr.open_dataset(self._nc_path(time) | path)
                         self._ds_date = time | self._ds_path = path
      _require_data:     exactly the current text (early return on `_ds is not None and _ds_time_idx == time.hour`,
                         whole file unless 'valid_time' is a dimension, then isel(valid_time=time.hour))."""
    wpath = Path(repo) / 'src/AEIC/weather.py'
    mod = ast.parse(wpath.read_text())
    same = lambda node, text: dump(node) == dump(ast.parse(text).body[0])  # noqa: E731
    npth = strip_doc(find_function(mod, '_nc_path', cls='Weather').body)
    if len(npth) != 2 or not same(npth[0], "fname = time.strftime('%Y%m%d.nc')") \
            or not same(npth[1], 'return Path(config.file_location(str(self.data_dir / fname)))'):
        raise _U('weather.py:_nc_path: the daily file name rule changed', OB_CACHE)
    body = strip_doc(find_function(mod, '_require_main_ds', cls='Weather').body)
    i = 0
    has_path = False
    if i < len(body) and same(body[i], 'path = self._nc_path(time)'):
        has_path, i = True, i + 1
    key_path = None
    if i < len(body) and same(body[i], 'if self._main_ds is not None and self._ds_date == time:\n    return'):
        key_path = False
    elif i < len(body) and has_path and same(body[i], 'if self._main_ds is not None and self._ds_path == path:\n    return'):
        key_path = True
    if key_path is None:
        raise _U('weather.py:_require_main_ds: the test for "this file is already open" changed', OB_CACHE)
    i += 1
    reset_slice = reset_idx = False
    while i < len(body) and (same(body[i], 'self._ds = None') or same(body[i], 'self._ds_time_idx = None')):
        if same(body[i], 'self._ds = None'):
            reset_slice = True
        else:
            reset_idx = True
        i += 1
    close = 'if self._main_ds is not None:\n    self._main_ds.close()\n    self._main_ds = None\n    gc.collect()'
    if not (i < len(body) and same(body[i], close)):
        raise _U('weather.py:_require_main_ds: closing the previous dataset changed', OB_CACHE)
    i += 1
    opens = ['self._main_ds = xr.open_dataset(self._nc_path(time))'] + (['self._main_ds = xr.open_dataset(path)'] if has_path else [])
    if not (i < len(body) and any(same(body[i], o) for o in opens)):
        raise _U('weather.py:_require_main_ds: opening the daily file changed', OB_CACHE)
    i += 1
    want_key = 'self._ds_path = path' if key_path else 'self._ds_date = time'
    if not (i + 1 == len(body) and same(body[i], want_key)):
        raise _U('weather.py:_require_main_ds: the key of the open dataset is not recorded as it is tested', OB_CACHE)
    data = strip_doc(find_function(mod, '_require_data', cls='Weather').body)
    want = ['self._require_main_ds(time)',
            'if self._ds is not None and self._ds_time_idx == time.hour:\n    return',
            'assert self._main_ds is not None',
            'self._ds = self._main_ds',
            'self._ds_time_idx = None',
            "if 'valid_time' in self._main_ds.dims:\n    self._ds = self._main_ds.isel(valid_time=time.hour)\n"
            '    self._ds_time_idx = time.hour']
    if len(data) != len(want) or not all(same(a, b) for a, b in zip(data, want)):
        raise _U('weather.py:_require_data: body changed', OB_CACHE)
    b = lambda x: 'true' if x else 'false'  # noqa: E731
    return ('(* generated by translator/c16_extract.py:extract_cache_cfg from weather.py — do not edit *)\n'
            'From AV Require Import model.C16_CacheModel.\n'
            f'Definition weather_cfg : cfg := mkCfg {b(key_path)} {b(reset_slice)} {b(reset_idx)}.\n')


if __name__ == '__main__':
    import sys
    print(extract_c16(Path(sys.argv[1] if len(sys.argv) > 1 else '/repo')))

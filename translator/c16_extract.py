"""C16 extractor — regenerates, from the current source, the numeric text of

  * utils/standard_atmosphere.py: temperature_at_altitude_isa_bada4, pressure_at_altitude_isa_bada4
    (pointwise; constants T0, R_air, g0, p0 from constants.py, beta_tropo / h_p_tropo from the module),
  * weather.py:Weather.get_ground_speed: the pressure-level expression handed to xarray's `interp`,
    the heading conversion, the air-vector decomposition (u_air, v_air) and the returned magnitude.

`get_ground_speed` is not a pure numeric kernel (it reads a dataset), so its *skeleton* is checked
statement by statement (fail closed) and only the arithmetic is translated with `py2coq.NumModule`.
Anything that does not match raises `py2coq.Untranslatable`.
"""

from __future__ import annotations

import ast
from pathlib import Path

from translator.py2coq import NumModule, Untranslatable, dump, find_function, strip_doc


def _is_call_stmt(st, text):
    return isinstance(st, ast.Expr) and dump(st.value) == dump(ast.parse(text, mode='eval').body)


def _interp_call(st, target: str, where: str):
    """`<target> = self._ds['u' | 'v'].interp(pressure_level=E, latitude=gt_point.location.latitude,
    longitude=gt_point.location.longitude)`  ->  (E (ast), variable name)"""
    if not (isinstance(st, ast.Assign) and len(st.targets) == 1 and isinstance(st.targets[0], ast.Name)
            and st.targets[0].id == target):
        raise Untranslatable(f'{where}: expected assignment to {target}')
    c = st.value
    var = None
    if isinstance(c, ast.Call) and not c.args and isinstance(c.func, ast.Attribute) and c.func.attr == 'interp':
        for cand in ('u', 'v'):
            if dump(c.func.value) == dump(ast.parse(f"self._ds['{cand}']", mode='eval').body):
                var = cand
    if var is None:
        raise Untranslatable(f"{where}: {target} must be self._ds['u' or 'v'].interp(...)")
    kw = {k.arg: k.value for k in c.keywords}
    if sorted(kw) != ['latitude', 'longitude', 'pressure_level']:
        raise Untranslatable(f'{where}: interp keywords {sorted(kw)}')
    for name in ('latitude', 'longitude'):
        if dump(kw[name]) != dump(ast.parse(f'gt_point.location.{name}', mode='eval').body):
            raise Untranslatable(f'{where}: interp {name}= must be gt_point.location.{name}')
    return kw['pressure_level'], var


def extract_c16(repo: Path) -> str:
    src = Path(repo) / 'src/AEIC'
    m = NumModule('C16_Extracted')
    m.constants(src / 'constants.py', ['p0', 'T0', 'g0', 'R_air'], prefix='c_')
    isa = src / 'utils/standard_atmosphere.py'
    m.constants(isa, ['beta_tropo', 'h_p_tropo'], prefix='c_')
    meta_t = m.function(isa, 'temperature_at_altitude_isa_bada4', coq_name='isa_temperature')
    # the only guard allowed: the 25 km range check (translated separately as `alt_in_range`)
    if meta_t['guards'] != ['np.any(altitude > 25000)']:
        raise Untranslatable(f'standard_atmosphere.py: temperature guards changed: {meta_t["guards"]}')
    meta_p = m.function(isa, 'pressure_at_altitude_isa_bada4', coq_name='isa_pressure')
    if meta_p['guards']:
        raise Untranslatable(f'standard_atmosphere.py: pressure guards changed: {meta_p["guards"]}')
    # the range guard itself: `if np.any(<cond on altitude>): raise ValueError(...)`
    tmod = m._src(isa)
    tfn = find_function(tmod, 'temperature_at_altitude_isa_bada4')
    gs = [s for s in tfn.body if isinstance(s, ast.If) and all(isinstance(x, ast.Raise) for x in s.body)]
    if len(gs) != 1 or not (isinstance(gs[0].test, ast.Call) and ast.unparse(gs[0].test.func) == 'np.any'
                            and len(gs[0].test.args) == 1):
        raise Untranslatable('standard_atmosphere.py: altitude range guard changed')
    m.raw('Definition alt_out_of_range (v_altitude : T N) : bool := '
          + m.bexpr(gs[0].test.args[0], {'altitude': 'v_altitude'}, 'standard_atmosphere.py:guard') + '.')

    wpath = src / 'weather.py'
    mod = m._src(wpath)
    fn = find_function(mod, 'get_ground_speed', cls='Weather')
    where = 'weather.py:Weather.get_ground_speed'
    params = [a.arg for a in fn.args.args]
    if params != ['self', 'time', 'gt_point', 'altitude', 'true_airspeed', 'azimuth']:
        raise Untranslatable(f'{where}: signature {params}')
    body = strip_doc(fn.body)
    if len(body) != 9:
        raise Untranslatable(f'{where}: expected 9 statements, found {len(body)}')
    s_req, s_assert, s_u, s_v, s_null, s_head, s_ua, s_va, s_ret = body
    if not _is_call_stmt(s_req, 'self._require_data(time)'):
        raise Untranslatable(f'{where}: first statement must be self._require_data(time)')
    if not isinstance(s_assert, ast.Assert):
        raise Untranslatable(f'{where}: second statement must be the assert on self._ds')
    pl_u, var_u = _interp_call(s_u, 'wind_u', where)
    pl_v, var_v = _interp_call(s_v, 'wind_v', where)
    if {var_u, var_v} != {'u', 'v'}:
        raise Untranslatable(f'{where}: wind_u / wind_v must read the two file variables u and v (found {var_u}, {var_v})')
    env = {'altitude': 'v_altitude'}
    m.known['pressure_at_altitude_isa_bada4'] = 1
    m.coqname['pressure_at_altitude_isa_bada4'] = 'isa_pressure'
    m.raw(f'Definition level_u (v_altitude : T N) : T N := {m.expr(pl_u, env, where)}.')
    m.raw(f'Definition level_v (v_altitude : T N) : T N := {m.expr(pl_v, env, where)}.')
    # refusal outside the data domain
    want_null = ast.parse(
        "if wind_u.isnull().values.any() or wind_v.isnull().values.any():\n"
        "    raise ValueError('x')").body[0]
    if not (isinstance(s_null, ast.If) and dump(s_null.test) == dump(want_null.test) and not s_null.orelse
            and len(s_null.body) == 1 and isinstance(s_null.body[0], ast.Raise)
            and isinstance(s_null.body[0].exc, ast.Call) and isinstance(s_null.body[0].exc.func, ast.Name)
            and s_null.body[0].exc.func.id == 'ValueError'):
        raise Untranslatable(f'{where}: the NaN (outside-domain) refusal changed')
    # heading: if azimuth is None: heading_rad = f(gt_point.azimuth) else: heading_rad = f(azimuth)
    if not (isinstance(s_head, ast.If) and dump(s_head.test) == dump(ast.parse('azimuth is None', mode='eval').body)
            and len(s_head.body) == 1 and len(s_head.orelse) == 1):
        raise Untranslatable(f'{where}: heading selection changed')
    heads = []
    for st, var in ((s_head.body[0], 'gt_point.azimuth'), (s_head.orelse[0], 'azimuth')):
        if not (isinstance(st, ast.Assign) and len(st.targets) == 1 and isinstance(st.targets[0], ast.Name)
                and st.targets[0].id == 'heading_rad'):
            raise Untranslatable(f'{where}: heading_rad assignment changed')
        heads.append(m.expr(st.value, {var: 'v_azimuth'}, where))
    m.raw(f'Definition heading_default (v_azimuth : T N) : T N := {heads[0]}.')
    m.raw(f'Definition heading_given (v_azimuth : T N) : T N := {heads[1]}.')
    env2 = {'true_airspeed': 'v_tas', 'heading_rad': 'v_heading_rad'}
    for st, name in ((s_ua, 'u_air'), (s_va, 'v_air')):
        if not (isinstance(st, ast.Assign) and len(st.targets) == 1 and isinstance(st.targets[0], ast.Name)
                and st.targets[0].id == name):
            raise Untranslatable(f'{where}: expected assignment to {name}')
        m.raw(f'Definition {name} (v_tas v_heading_rad : T N) : T N := {m.expr(st.value, env2, where)}.')
    if not isinstance(s_ret, ast.Return):
        raise Untranslatable(f'{where}: last statement must be return')
    env3 = {'u_air': 'v_u_air', 'v_air': 'v_v_air', 'wind_u': 'v_wind_u', 'wind_v': 'v_wind_v'}
    m.raw('Definition magnitude (v_u_air v_v_air v_wind_u v_wind_v : T N) : T N := '
          f'{m.expr(s_ret.value, env3, where)}.')
    m.raw('Definition ground_speed_kernel (v_tas v_azimuth v_wind_u v_wind_v : T N) : T N :=\n'
          '  magnitude (u_air v_tas (heading_given v_azimuth)) (v_air v_tas (heading_given v_azimuth)) '
          'v_wind_u v_wind_v.')
    # the same, as a function of the file's eastward (f_u) and northward (f_v) wind at the point
    m.raw('Definition ground_speed_query (v_tas v_azimuth f_u f_v : T N) : T N :=\n'
          f'  ground_speed_kernel v_tas v_azimuth f_{var_u} f_{var_v}.')
    return m.text()


if __name__ == '__main__':
    import sys
    print(extract_c16(Path(sys.argv[1] if len(sys.argv) > 1 else '/repo')))

"""Shape-specific, fail-closed extraction of the store PROTOCOL from src/AEIC/trajectories/store.py.

For C07 C08 C09 C10 the executable model is hand-written and tied to the code by correspondence; this module adds a
static tie: on every run the statements of the protocol methods are matched, one by one and in order, against the
statement shapes the model's steps stand for, and emitted as Gallina data (step lists, booleans, the configuration
record of Store_Model).  coq/link/Store_Link.v then proves that what was extracted is the repaired protocol the
theorems are about.  Any statement that is not one of the known shapes makes the extraction fail
(`Untranslatable` -> the obligation `extract:trajectories/store.py:<method>` is broken): nothing is guessed.

Matching is on `ast.unparse` of the statement after the message arguments of `raise X(...)` have been dropped
(so wording of error messages is free, everything else is not).
"""

from __future__ import annotations

import ast
import copy
import textwrap
from pathlib import Path

from translator.py2coq import Untranslatable


class _DropRaiseMessages(ast.NodeTransformer):
    def visit_Raise(self, node):
        node = copy.deepcopy(node)
        if isinstance(node.exc, ast.Call):
            node.exc.args = []
            node.exc.keywords = []
        return node


def norm(st: ast.stmt) -> str:
    return ast.unparse(_DropRaiseMessages().visit(copy.deepcopy(st)))


def T(s: str) -> str:
    return textwrap.dedent(s).strip('\n')


def strip_doc(body):
    if body and isinstance(body[0], ast.Expr) and isinstance(getattr(body[0], 'value', None), ast.Constant) \
            and isinstance(body[0].value.value, str):
        return body[1:]
    return body


def method(mod: ast.Module, cls: str, name: str) -> ast.FunctionDef:
    for c in mod.body:
        if isinstance(c, ast.ClassDef) and c.name == cls:
            found = [f for f in c.body if isinstance(f, ast.FunctionDef) and f.name == name]
            if len(found) == 1:
                return found[0]
    raise Untranslatable(f'{cls}.{name}: method not found exactly once')


# ---------------------------------------------------------------------------------------------------------------
# the statement shapes: method -> [(step constructor, normalised statement text)]
# ---------------------------------------------------------------------------------------------------------------
SHAPES = {
    ('TrajectoryStore', 'add'): [
        ('AModeCheck', T('''
            if not self._write_enabled:
                raise RuntimeError()''')),
        ('AFieldsetsAgainstFiles', T('''
            if self.nc_linked and trajectory._fieldsets != set(self._nc.keys()):
                raise ValueError()''')),
        # fix FC10b: the field sets declared for associated files
        ('AFieldsetsDeclaredForAssociated', T('''
            if self._file_creation_pending and (not self.associated_fieldsets <= trajectory._fieldsets):
                raise ValueError()''')),
        ('AFieldsetsAgainstCached', T('''
            if len(self._trajectories) > 0:
                proto = next(iter(self._trajectories.values()))
                if hash(trajectory) != hash(proto):
                    raise ValueError()''')),
        ('AComputeHasId', "has_flight_id = hasattr(trajectory, 'flight_id') and trajectory.flight_id is not None"),
        ('AIdConsistencyCheck', T('''
            if self.indexable is not None and has_flight_id != self.indexable:
                raise ValueError()''')),
        ('ARequiredValuesCheck', T('''
            for name, field in trajectory._data_dictionary.items():
                if field.required and getattr(trajectory, name) is None:
                    raise ValueError()''')),
        ('ACounterRead', 'saved_index = self._next_index'),
        ('ACacheInsert', 'self._trajectories[saved_index] = trajectory'),
        # fix FC07b: a file-backed store writes what does not fit its cache without caching it
        ('ACacheInsertIfItFits', T('''
            if self.base_file is None or trajectory.nbytes <= self._trajectories.maxsize:
                self._trajectories[saved_index] = trajectory''')),
        ('AFileCreateFromThisTrajectory', T('''
            if self._file_creation_pending:
                self._create(trajectory)
                self._file_creation_pending = False''')),
        ('AWriteThisTrajectory', 'self._write_data(traj=trajectory, index=saved_index)'),
        ('ACounterBump', 'self._next_index += 1'),
        ('AIndexableAssign', T('''
            if self.indexable is None:
                self.indexable = has_flight_id''')),
        ('AFileCreate', T('''
            if self._file_creation_pending:
                self._create()
                self._file_creation_pending = False''')),
        ('AWrite', 'self._write_trajectory(saved_index)'),
        ('AStaleSet', T('''
            if self.indexable:
                self.index_stale = True''')),
        ('AReturnSavedIndex', 'return saved_index'),
    ],
    ('TrajectoryStore', '__len__'): [
        ('LLinkedSumOfTrajectoryDimensions', T('''
            if self.nc_linked:
                check_fs = BASE_FIELDSET_NAME
                if check_fs not in self._nc:
                    check_fs = next(iter(self._nc))
                return sum((len(d) for d in self._nc[check_fs].traj_dim))''')),
        ('LUnlinkedCacheSize', 'return len(self._trajectories)'),
    ],
    ('TrajectoryStore', '__getitem__'): [
        ('GCacheHitReturnsCached', T('''
            if idx in self._trajectories:
                return self._trajectories[idx]''')),
        ('GInitNone', 'traj = None'),
        ('GLoadIfLinked', T('''
            if self.nc_linked:
                traj = self._load_trajectory(idx)''')),
        ('GIndexErrorIfNone', T('''
            if traj is None:
                raise IndexError()''')),
        ('GReturnLoaded', 'return traj'),
    ],
    ('TrajectoryStore', '__iter__'): [
        ('IReturnIndexIterator', 'return _TrajectoryStoreIterator(self)'),
    ],
    ('_TrajectoryStoreIterator', '__init__'): [
        ('IKeepStore', 'self._store = store'),
        ('IStartAtZero', 'self._index = 0'),
    ],
    ('_TrajectoryStoreIterator', '__next__'): [
        ('INextByIndexUntilLen', T('''
            if self._index < len(self._store):
                item = self._store[self._index]
                self._index += 1
                return item
            else:
                raise StopIteration''')),
    ],
    ('TrajectoryStore', 'get_flight'): [
        ('FRefuseUnidentified', T('''
            if not self.indexable:
                raise RuntimeError()''')),
        ('FInMemoryScan', T('''
            if not self.nc_linked:
                for traj in self._trajectories.values():
                    if traj.flight_id == flight_id:
                        return traj
                return None''')),
        ('FRefreshStaleIndex', T('''
            if self.index_stale:
                self._reindex()''')),
        ('FAssertIndexGroup', 'assert self.index_group is not None'),
        ('FReadIds', "flight_ids = self.index_group.variables['flight_id'][:]"),
        ('FReadIndexes', "traj_idxs = self.index_group.variables['trajectory_index'][:]"),
        ('FBisectLeft', 'idx = bisect.bisect_left(flight_ids, flight_id)'),
        ('FGuardBoundsAndEquality', T('''
            if idx >= len(flight_ids) or flight_ids[idx] != flight_id:
                return None''')),
        ('FReturnGetitemOfIndex', 'return self[traj_idxs[idx]]'),
    ],
    ('TrajectoryStore', '_reindex'): [
        ('RSkipUnlessIdentifiedAndStale', T('''
            if not self.indexable or not self.index_stale:
                return''')),
        ('RSkipUnlinked', T('''
            if not self.nc_linked:
                return''')),
        ('RBaseGroups', 'gs = self._nc[BASE_FIELDSET_NAME].groups[BASE_FIELDSET_NAME]'),
        ('RIdsInit', 'flight_ids = []'),
        ('RIdsInFileAndIndexOrder', T('''
            for g in gs:
                flight_ids += list(g.variables['flight_id'][:])''')),
        ('RSortEnumeratedById', 'id_pairs = sorted(enumerate(flight_ids), key=lambda x: x[1])'),
        ('RAssertIndexGroup', 'assert self.index_group is not None'),
        ('RWriteIds', "self.index_group.variables['flight_id'][:] = [id for _, id in id_pairs]"),
        ('RWriteIndexes', "self.index_group.variables['trajectory_index'][:] = [idx for idx, _ in id_pairs]"),
        ('RClearStale', 'self.index_stale = False'),
    ],
    ('TrajectoryStore', '_create_merged_store_index'): [
        ('XCreateIndexFile', "index_dataset = nc4.Dataset(Path(output_store) / '_index.nc', 'w', keepweakref=True)"),
        ('XCreateDimension', "index_dataset.createDimension('trajectory', None)"),
        ('XCreateGroup', "index_group = index_dataset.createGroup('_index')"),
        ('XCreateIdVar', "index_group.createVariable('flight_id', np.int64, ('trajectory',))"),
        ('XCreateIndexVar', "index_group.createVariable('trajectory_index', np.int64, ('trajectory',))"),
        ('XIdsInit', 'flight_ids = []'),
        ('XIndexesInit', 'trajectory_indexes = []'),
        ('XOffsetZero', 'index_offset = 0'),
        ('XPerInputShiftByCumulativeLength', T('''
            for input_store in input_stores:
                ts = TrajectoryStore.open(base_file=Path(output_store) / Path(input_store).name)
                assert ts.index_group is not None
                vs = ts.index_group.variables
                flight_ids += list(vs['flight_id'][:])
                trajectory_indexes += [idx + index_offset for idx in vs['trajectory_index'][:]]
                index_offset += len(ts)''')),
        ('XSortById', 'id_pairs = sorted(zip(trajectory_indexes, flight_ids), key=lambda x: x[1])'),
        ('XWriteIds', "index_group.variables['flight_id'][:] = [id for _, id in id_pairs]"),
        ('XWriteIndexes', "index_group.variables['trajectory_index'][:] = [idx for idx, _ in id_pairs]"),
        ('XClose', 'index_dataset.close()'),
    ],
    ('TrajectoryStore', 'merge'): [
        ('MCheckArguments', 'input_stores = TrajectoryStore._check_merge_arguments(output_store, input_stores, '
                            'input_stores_pattern, input_stores_index_range)'),
        ('MInitStoreData', 'store_data = []'),
        ('MInitFieldsets', 'fieldset_names: set[str] | None = None'),
        ('MInitIndexGroups', 'index_groups = []'),
        ('MAssertInputs', 'assert input_stores is not None'),
        ('MValidateEveryInput', T('''
            for input_store in input_stores:
                p = Path(input_store)
                ts = TrajectoryStore.open(base_file=p)
                if fieldset_names is None:
                    fieldset_names = set(ts._nc.keys())
                if fieldset_names != set(ts._nc.keys()):
                    raise ValueError()
                store_data.append((p.name, len(ts)))
                index_groups.append(ts.index_group)''')),
        ('MIndexableIfAll', 'indexable = all((g is not None for g in index_groups))'),
        ('MRefuseMixedIdentification', T('''
            if indexable != any((g is not None for g in index_groups)):
                raise ValueError()''')),
        ('MMkdir', 'os.mkdir(output_store)'),
        ('MRenameEveryInput', T('''
            for input_store in input_stores:
                p = Path(input_store)
                dest = Path(output_store) / p.name
                os.rename(p, dest)''')),
        ('MIndexIfIdentified', T('''
            if indexable:
                TrajectoryStore._create_merged_store_index(output_store, input_stores)''')),
        ('MMetadataListsStoresInOrder', 'data = dict(stores=store_data, created=datetime.now(tz=UTC).isoformat())'),
        ('MAttrTitle', T('''
            if title is not None:
                data['title'] = title''')),
        ('MAttrComment', T('''
            if comment is not None:
                data['comment'] = comment''')),
        ('MAttrHistory', T('''
            if history is not None:
                data['history'] = history''')),
        ('MAttrSource', T('''
            if source is not None:
                data['source'] = source''')),
        ('MWriteMetadata', T('''
            with open(Path(output_store) / 'metadata.json', 'w') as f:
                json.dump(data, f)''')),
    ],
    ('TrajectoryStore', '_check_merge_arguments'): [
        ('CRefuseListAndPattern', T('''
            if input_stores is not None and input_stores_pattern is not None:
                raise ValueError()''')),
        ('CRefusePatternWithoutRange', T('''
            if input_stores_pattern is not None and input_stores_index_range is None:
                raise ValueError()''')),
        ('CExpandPatternFirstToLastInclusive', T('''
            if input_stores_pattern is not None:
                assert input_stores_index_range is not None
                input_stores = [Path(str(input_stores_pattern).format(index=i)) for i in range(input_stores_index_range[0], input_stores_index_range[1] + 1)]''')),
        ('CAssertInputs', 'assert input_stores is not None'),
        ('CEveryInputExistsAndIsNc', T('''
            for p in input_stores:
                if not Path(p).exists():
                    raise ValueError()
                if Path(p).suffix != '.nc':
                    raise ValueError()''')),
        ('COutputExtension', T('''
            if not str(output_store).endswith('.aeic-store'):
                raise ValueError()''')),
        ('COutputMustNotExist', T('''
            if Path(output_store).exists():
                raise ValueError()''')),
        ('CNames', 'names = [Path(p).name for p in input_stores]'),
        ('CRefuseSharedFileNames', T('''
            if len(set(names)) != len(names):
                raise ValueError()''')),
        # fix FC09b: the name of the merged index is reserved
        ('CRefuseReservedIndexName', T('''
            if '_index.nc' in names:
                raise ValueError()''')),
        ('CReturnInputs', 'return input_stores'),
    ],
    ('TrajectoryStore', '_open'): [
        ('OAssertBase', 'assert self.base_file is not None'),
        ('OOpenBaseFile', 'base_nc_file = self._open_nc_file(self.base_file)'),
        ('OBaseChecks', 'self._base_open_checks(base_nc_file)'),
        ('OAppendCounterIsFileLength', T('''
            if self.mode == self.FileMode.APPEND:
                self._next_index = len(base_nc_file.traj_dim[0])''')),
        ('OIndexableIffIndexGroup', T('''
            if '_index' in base_nc_file.dataset[0].groups:
                self.index_group = base_nc_file.dataset[0].groups['_index']
                self.indexable = True
            else:
                self.indexable = False''')),
        ('OOpenAssociated', T('''
            for name in self.associated_files:
                assert isinstance(name, PathType)
                associated_file = self._open_nc_file(name, check_associated=base_nc_file)
                self._associated_open_checks(name, associated_file)''')),
    ],
    ('TrajectoryStore', 'close'): [
        ('KReindexIfStale', T('''
            if self.indexable and self.index_stale:
                self._reindex()''')),
        ('KDropIndexGroup', 'self.index_group = None'),
        ('KCloseIndexDataset', T('''
            if self.index_dataset is not None:
                self.index_dataset.close()
                self.index_dataset = None''')),
        ('KCloseDatasets', T('''
            for nc in self._nc_files:
                for ds in nc.dataset:
                    ds.close()''')),
        ('KClearNc', 'self._nc.clear()'),
        ('KClearFiles', 'self._nc_files.clear()'),
        ('KCollect', 'gc.collect()'),
    ],
    ('TrajectoryStore', 'sync'): [
        ('SModeCheck', T('''
            if not self._write_enabled:
                raise RuntimeError()''')),
        ('SReindexIfStale', T('''
            if self.indexable and self.index_stale:
                self._reindex()''')),
        ('SSyncDatasets', T('''
            for nc in self._nc_files:
                for ds in nc.dataset:
                    ds.sync()''')),
        ('SSyncIndexDataset', T('''
            if self.index_dataset is not None:
                self.index_dataset.sync()''')),
    ],
}

# _load_trajectory: the statements around the (opaque, C03's subject) loop that reads the variables of a field set
LOAD_OUTER = [
    ('TInitData', 'data = {}'),
    ('TInitNpoints', 'npoints: int | None = None'),
    ('TPerFieldset', None),                 # the loop over self._nc, matched below
    ('TAssertNpoints', 'assert npoints is not None'),
    ('TNewTrajectory', 'traj = Trajectory(npoints=npoints)'),
    ('TAddFieldsets', T('''
        for fs_name in self._nc:
            if fs_name != BASE_FIELDSET_NAME:
                traj.add_fields(FieldSet.from_registry(fs_name))''')),
    ('TSetValues', T('''
        for k, v in data.items():
            setattr(traj, k, v)''')),
    ('TCacheIfItFits', T('''
        if traj.nbytes <= self._trajectories.maxsize:
            self._trajectories[index] = traj''')),
    ('TReturnLoaded', 'return traj'),
]
LOAD_INNER = [
    ('PRegistryFieldset', 'fs = FieldSet.from_registry(fs_name)'),
    ('PFilesOfThisFieldset', 'nc_files = self._nc[fs_name]'),
    ('PFileZero', 'file_index = 0'),
    ('PLocalIsGlobal', 'group_index = index'),
    ('PLocateThroughOwnSizeIndex', T('''
        if nc_files.size_index is not None:
            file_index = bisect.bisect_left(nc_files.size_index, index + 1)
            if file_index >= len(nc_files.size_index):
                return None
            group_index = index - nc_files.size_index[file_index]''')),
    ('PGroupOfThatFile', 'group = nc_files.groups[fs_name][file_index]'),
    ('PReadVariables', None),               # for name, field in fs.items(): ... (contents: C03)
]


def match_sequence(where: str, stmts, shapes):
    table = {}
    for tok, text in shapes:
        if text is not None:
            if text in table:
                raise AssertionError(f'{where}: duplicate shape')
            table[text] = tok
    out = []
    for st in stmts:
        t = norm(st)
        if t not in table:
            raise Untranslatable(f'{where}: statement is not one of the known shapes: {t[:200]!r}')
        out.append(table[t])
    return out


def size_index_argument(mod, name):
    """the `size_index=` argument of the single NcFiles(...) construction in TrajectoryStore.<name>"""
    f = method(mod, 'TrajectoryStore', name)
    calls = [n for n in ast.walk(f) if isinstance(n, ast.Call) and ast.unparse(n.func).endswith('NcFiles')]
    if len(calls) != 1:
        raise Untranslatable(f'{name}: expected exactly one NcFiles(...) construction, found {len(calls)}')
    kws = [k for k in calls[0].keywords if k.arg == 'size_index']
    if len(kws) != 1:
        raise Untranslatable(f'{name}: NcFiles(...) without a size_index= argument')
    return ast.unparse(kws[0].value)


def coq_list(tokens):
    return '[' + '; '.join(tokens) + ']'


def extract_store_protocol(path: Path):
    """-> (Gallina text of Gen.Store_Extracted, {method: 'ok' | error text}).  Raises nothing: per-method failures are
    reported so that each becomes its own named obligation; the text is None if anything failed."""
    mod = ast.parse(Path(path).read_text(), filename=str(path))
    status, seqs = {}, {}
    for (cls, name), shapes in SHAPES.items():
        key = f'{cls}.{name}' if cls != 'TrajectoryStore' else name
        try:
            f = method(mod, cls, name)
            seqs[key] = match_sequence(key, strip_doc(f.body), shapes)
            status[key] = 'ok'
        except Untranslatable as e:
            status[key] = str(e)
    # _load_trajectory
    try:
        f = method(mod, 'TrajectoryStore', '_load_trajectory')
        body = strip_doc(f.body)
        outer = []
        table = {text: tok for tok, text in LOAD_OUTER if text is not None}
        inner_seq = None
        for st in body:
            if isinstance(st, ast.For) and ast.unparse(st.target) == 'fs_name' and ast.unparse(st.iter) == 'self._nc' \
                    and inner_seq is None and not st.orelse:
                itable = {text: tok for tok, text in LOAD_INNER if text is not None}
                inner_seq = []
                for ist in st.body:
                    if isinstance(ist, ast.For) and ast.unparse(ist.target) in ('name, field', '(name, field)') \
                            and ast.unparse(ist.iter) == 'fs.items()':
                        # the contents of this loop are C03's subject; what matters here is that it reads from the
                        # group and the local index located just above
                        if 'self._read_from_nc_var(group.variables[name], group_index,' not in ast.unparse(ist):
                            raise Untranslatable('_load_trajectory: the variables are not read at (group, group_index)')
                        inner_seq.append('PReadVariables')
                        continue
                    t = norm(ist)
                    if t not in itable:
                        raise Untranslatable(f'_load_trajectory (per field set): unknown statement {t[:200]!r}')
                    inner_seq.append(itable[t])
                outer.append('TPerFieldset')
                continue
            t = norm(st)
            if t not in table:
                raise Untranslatable(f'_load_trajectory: statement is not one of the known shapes: {t[:200]!r}')
            outer.append(table[t])
        if inner_seq is None:
            raise Untranslatable('_load_trajectory: no loop over the field sets of the store')
        seqs['_load_trajectory'] = outer
        seqs['_load_trajectory.per_fieldset'] = inner_seq
        status['_load_trajectory'] = 'ok'
    except Untranslatable as e:
        status['_load_trajectory'] = str(e)
    # size_index arguments
    facts = {}
    for name, key, accepted in (('_open_nc_file', 'single_file_size_index', {'None': 'SizeIndexNone',
                                                                             '[len(traj_dim)]': 'SizeIndexSnapshot'}),
                                ('_create_nc_file', 'created_file_size_index', {'None': 'SizeIndexNone'}),
                                ('_open_merged_store', 'merged_size_index',
                                 {'list(itertools.accumulate([len(td) for td in traj_dim]))': 'SizeIndexCumulative'})):
        try:
            v = size_index_argument(mod, name)
            if v not in accepted:
                raise Untranslatable(f'{name}: size_index={v!r} is not a known shape')
            facts[key] = accepted[v]
            status[name] = 'ok'
        except Untranslatable as e:
            status[name] = str(e)
    if any(v != 'ok' for v in status.values()):
        return None, status

    def has(seq, tok):
        return tok in seqs[seq]

    def before(seq, a, b):
        s = seqs[seq]
        return a in s and b in s and s.index(a) < s.index(b)
    cfg = {
        'F5': facts['single_file_size_index'] == 'SizeIndexNone',
        'F6': before('add', 'ARequiredValuesCheck', 'ACounterRead'),
        'F7': before('merge', 'MValidateEveryInput', 'MMkdir') and before('merge', 'MRefuseMixedIdentification', 'MMkdir'),
        'F8': has('get_flight', 'FInMemoryScan') and has('_reindex', 'RSkipUnlinked'),
        'C08a': has('_open', 'OIndexableIffIndexGroup'),
        'C09a': has('_check_merge_arguments', 'CRefuseSharedFileNames'),
        'C10a': before('add', 'AFieldsetsAgainstFiles', 'ACounterRead'),
        'C07a': has('_load_trajectory', 'TCacheIfItFits') and has('__getitem__', 'GReturnLoaded'),
        'C07b': has('add', 'ACacheInsertIfItFits') and has('add', 'AFileCreateFromThisTrajectory')
        and has('add', 'AWriteThisTrajectory'),
    }
    b = lambda x: 'true' if x else 'false'  # noqa: E731
    lines = ['(* generated by translator/store_extract.py from src/AEIC/trajectories/store.py — do not edit *)',
             'From Coq Require Import List Bool.', 'From AV Require Import model.Store_Model.', 'Import ListNotations.', '']
    groups = [('astep', 'add'), ('lstep', '__len__'), ('gstep', '__getitem__'),
              ('istep', ['__iter__', '_TrajectoryStoreIterator.__init__', '_TrajectoryStoreIterator.__next__']),
              ('fstep', 'get_flight'), ('rstep', '_reindex'), ('xstep', '_create_merged_store_index'),
              ('mstep_py', 'merge'), ('cstep', '_check_merge_arguments'), ('ostep', '_open'), ('kstep', 'close'),
              ('sstep', 'sync')]
    shape_of = {('TrajectoryStore.' + n if False else n): s for (c, n), s in SHAPES.items() if c == 'TrajectoryStore'}
    shape_of.update({f'{c}.{n}': s for (c, n), s in SHAPES.items() if c != 'TrajectoryStore'})
    for ty, keys in groups:
        keys = [keys] if isinstance(keys, str) else keys
        ctors = [tok for k in keys for tok, _ in shape_of[k]]
        lines.append(f'Inductive {ty} := ' + ' | '.join(ctors) + '.')
        for k in keys:
            nm = k.replace('_TrajectoryStoreIterator.', 'iterator').replace('__', '').replace('.', '_').strip('_')
            lines.append(f'Definition steps_{nm} : list {ty} := {coq_list(seqs[k])}.')
    lines.append('Inductive tstep := ' + ' | '.join(t for t, _ in LOAD_OUTER) + '.')
    lines.append('Inductive pstep := ' + ' | '.join(t for t, _ in LOAD_INNER) + '.')
    lines.append(f"Definition steps_load_trajectory : list tstep := {coq_list(seqs['_load_trajectory'])}.")
    lines.append(f"Definition steps_load_per_fieldset : list pstep := {coq_list(seqs['_load_trajectory.per_fieldset'])}.")
    lines.append('Inductive size_index_shape := SizeIndexNone | SizeIndexSnapshot | SizeIndexCumulative.')
    for k, v in facts.items():
        lines.append(f'Definition {k} : size_index_shape := {v}.')
    lines.append('Definition extracted_cfg : cfg := mkCfg ' + ' '.join(b(cfg[k]) for k in
                                                                      ('F5', 'F6', 'F7', 'F8', 'C08a', 'C09a', 'C10a', 'C07a', 'C07b')) + '.')
    status['__cfg__'] = cfg
    return '\n'.join(lines) + '\n', status

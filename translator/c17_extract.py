"""C17 extractor: what the builder classes write to / read from `self`, and the shape of fly's try/finally.

From src/AEIC/trajectories/builders/base.py and legacy.py (current working tree), fail-closed:

  g_ctx_fields     names the transient context object carries: dataclass fields of `Context` plus every
                   `self.<name> = ...` of `LegacyContext.__init__`
  g_init_writes    `self.<name>` assigned in `Builder.__init__` / `LegacyBuilder.__init__`
  g_flight_writes  `self.<name>` assigned (or deleted) in any other method of `Builder` / `LegacyBuilder`
  g_reads          `self.<name>` read in those methods (method names excluded)
  g_finally_guarded  False: `finally: del self.ctx`;  True: the deletion is guarded by a test that the
                   attribute exists.  Any other finally clause is refused.

`__getattr__` / `__setattr__` must be exactly the redirection the model hard-codes (compared as ASTs with the
text below); `fly` must create the context as the first statement of the try block.
"""

from __future__ import annotations

import ast
from pathlib import Path

from translator.py2coq import Untranslatable, find_function, strip_doc

GETATTR_SRC = '''
def __getattr__(self, name: str):
    try:
        ctx = self.__getattribute__('ctx')
        if hasattr(ctx, name):
            return getattr(ctx, name)
    except AttributeError:
        pass
    raise AttributeError(
        f"'{type(self).__name__}' object has no attribute '{name}'"
    )
'''
SETATTR_SRC = '''
def __setattr__(self, name: str, value):
    try:
        ctx = self.__getattribute__('ctx')
        if hasattr(ctx, name):
            return setattr(ctx, name, value)
    except AttributeError:
        pass
    return super().__setattr__(name, value)
'''
GUARDS = ["hasattr(self, 'ctx')", "'ctx' in self.__dict__", "'ctx' in vars(self)"]


def _cls(mod, name):
    for n in mod.body:
        if isinstance(n, ast.ClassDef) and n.name == name:
            return n
    raise Untranslatable(f'class {name} not found')


def _methods(cls):
    return [n for n in cls.body if isinstance(n, ast.FunctionDef)]


def _same_function(fn: ast.FunctionDef, src: str, where: str):
    want = ast.parse(src).body[0]
    a = ast.dump(ast.Module(body=strip_doc(fn.body), type_ignores=[]))
    b = ast.dump(ast.Module(body=strip_doc(want.body), type_ignores=[]))
    if a != b or ast.dump(fn.args) != ast.dump(want.args):
        raise Untranslatable(f'{where}: not the attribute redirection the model describes')


def _self_attr(node):
    return isinstance(node, ast.Attribute) and isinstance(node.value, ast.Name) and node.value.id == 'self'


def _scan(fn: ast.FunctionDef, method_names: set):
    writes, reads = [], []
    for n in ast.walk(fn):
        if _self_attr(n):
            if isinstance(n.ctx, (ast.Store, ast.Del)):
                writes.append(n.attr)
            elif n.attr not in method_names and not (n.attr.startswith('__') and n.attr.endswith('__')):
                reads.append(n.attr)
        if isinstance(n, ast.AugAssign) and _self_attr(n.target):
            reads.append(n.target.attr)
        # getattr(self, <dynamic>) / hasattr(self, <dynamic>) with the phase method names: method dispatch only
    return writes, reads


def _uniq(xs):
    out = []
    for x in xs:
        if x not in out:
            out.append(x)
    return out


def facts(repo: Path) -> dict:
    base = ast.parse((Path(repo) / 'src/AEIC/trajectories/builders/base.py').read_text())
    legacy = ast.parse((Path(repo) / 'src/AEIC/trajectories/builders/legacy.py').read_text())
    builder, context = _cls(base, 'Builder'), _cls(base, 'Context')
    lbuilder, lcontext = _cls(legacy, 'LegacyBuilder'), _cls(legacy, 'LegacyContext')
    if [ast.unparse(b) for b in lbuilder.bases] != ['Builder'] or [ast.unparse(b) for b in lcontext.bases] != ['Context']:
        raise Untranslatable('legacy.py: class hierarchy changed')

    _same_function(find_function(base, '__getattr__', cls='Builder'), GETATTR_SRC, 'Builder.__getattr__')
    _same_function(find_function(base, '__setattr__', cls='Builder'), SETATTR_SRC, 'Builder.__setattr__')
    if any(m.name in ('__getattr__', '__setattr__', '__getattribute__', '__delattr__', 'fly') for m in _methods(lbuilder)):
        raise Untranslatable('LegacyBuilder overrides attribute access or fly')

    # context fields
    ctx_fields = [n.target.id for n in context.body if isinstance(n, ast.AnnAssign) and isinstance(n.target, ast.Name)]
    init = find_function(legacy, '__init__', cls='LegacyContext')
    for n in ast.walk(init):
        if _self_attr(n) and isinstance(n.ctx, ast.Store):
            ctx_fields.append(n.attr)

    method_names = {m.name for m in _methods(builder)} | {m.name for m in _methods(lbuilder)}
    init_writes, flight_writes, reads = [], [], []
    for cls in (builder, lbuilder):
        for m in _methods(cls):
            if m.name in ('__getattr__', '__setattr__'):
                continue
            w, r = _scan(m, method_names)
            (init_writes if m.name == '__init__' else flight_writes).extend(w)
            reads.extend(r)

    # fly: try / finally
    fly = find_function(base, 'fly', cls='Builder')
    tries = [n for n in strip_doc(fly.body) if isinstance(n, ast.Try)]
    others = [n for n in strip_doc(fly.body) if not isinstance(n, ast.Try)]
    if len(tries) != 1 or others or tries[0].handlers or tries[0].orelse:
        raise Untranslatable('Builder.fly: body must be a single try/finally without except clauses')
    tr = tries[0]
    first = [s for s in tr.body if not isinstance(s, ast.Assert)][0]
    if not (isinstance(first, ast.Assign) and len(first.targets) == 1 and _self_attr(first.targets[0])
            and first.targets[0].attr == 'ctx' and isinstance(first.value, ast.Call)
            and ast.unparse(first.value.func) == 'self.CONTEXT_CLASS'):
        raise Untranslatable('Builder.fly: the try block must start by creating self.ctx = self.CONTEXT_CLASS(...)')
    fin = tr.finalbody
    del_ctx = ast.dump(ast.parse('del self.ctx').body[0])
    if len(fin) == 1 and ast.dump(fin[0]) == del_ctx:
        guarded = False
    elif (len(fin) == 1 and isinstance(fin[0], ast.If) and not fin[0].orelse and len(fin[0].body) == 1
          and ast.dump(fin[0].body[0]) == del_ctx and ast.unparse(fin[0].test) in GUARDS):
        guarded = True
    else:
        raise Untranslatable('Builder.fly: unrecognised finally clause: ' + ' '.join(ast.unparse(s) for s in fin)[:120])
    return {'ctx_fields': _uniq(ctx_fields), 'init_writes': _uniq(init_writes),
            'flight_writes': _uniq(flight_writes), 'reads': _uniq(reads), 'guarded': guarded}


def extract(repo: Path) -> str:
    f = facts(repo)

    def lst(xs):
        return '[' + '; '.join(f'"{x}"' for x in xs) + ']'

    return ('(* generated by translator/c17_extract.py from builders/base.py + builders/legacy.py — do not edit *)\n'
            'From Coq Require Import List String Bool.\nImport ListNotations.\nOpen Scope string_scope.\n'
            f'Definition g_ctx_fields : list string := {lst(f["ctx_fields"])}.\n'
            f'Definition g_init_writes : list string := {lst(f["init_writes"])}.\n'
            f'Definition g_flight_writes : list string := {lst(f["flight_writes"])}.\n'
            f'Definition g_reads : list string := {lst(f["reads"])}.\n'
            f'Definition g_finally_guarded : bool := {"true" if f["guarded"] else "false"}.\n')


if __name__ == '__main__':
    import sys
    print(extract(Path(sys.argv[1] if len(sys.argv) > 1 else '/repo')))

"""C17 extractor: what the builder classes write to / read from `self`, and the shape of fly's try/finally.

From src/AEIC/trajectories/builders/base.py and legacy.py (current working tree), fail-closed:

  g_ctx_fields     names the transient context object carries: dataclass fields of `Context` plus every
                   `self.<name> = ...` of `LegacyContext.__init__`
  g_init_writes    `self.<name>` assigned in `Builder.__init__` / `LegacyBuilder.__init__`
  g_flight_writes  `self.<name>` assigned (or deleted) in any other method of `Builder` / `LegacyBuilder`
  g_reads          `self.<name>` read in those methods (method names excluded)
  g_finally_guarded  False: `finally: del self.ctx`;  True: the deletion is guarded by a test that the
                   attribute exists.  Any other finally clause is refused.

`__getattr__` / `__setattr__` must be exactly the redirection the model hard-codes (compared as ASTs with the
text below); `fly` must create the context as the first statement of the try block.
"""

from __future__ import annotations

import ast
from pathlib import Path

from translator.py2coq import Untranslatable, find_function, strip_doc

GETATTR_SRC = '''
def __getattr__(self, name: str):
    try:
        ctx = self.__getattribute__('ctx')
        if hasattr(ctx, name):
            return getattr(ctx, name)
    except AttributeError:
        pass
    raise AttributeError(
        f"'{type(self).__name__}' object has no attribute '{name}'"
    )
'''
SETATTR_SRC = '''
def __setattr__(self, name: str, value):
    try:
        ctx = self.__getattribute__('ctx')
        if hasattr(ctx, name):
            return setattr(ctx, name, value)
    except AttributeError:
        pass
    return super().__setattr__(name, value)
'''
GUARDS = ["hasattr(self, 'ctx')", "'ctx' in self.__dict__", "'ctx' in vars(self)"]


def _cls(mod, name):
    for n in mod.body:
        if isinstance(n, ast.ClassDef) and n.name == name:
            return n
    raise Untranslatable(f'class {name} not found')


def _methods(cls):
    return [n for n in cls.body if isinstance(n, ast.FunctionDef)]


def _same_function(fn: ast.FunctionDef, src: str, where: str):
    want = ast.parse(src).body[0]
    a = ast.dump(ast.Module(body=strip_doc(fn.body), type_ignores=[]))
    b = ast.dump(ast.Module(body=strip_doc(want.body), type_ignores=[]))
    if a != b or ast.dump(fn.args) != ast.dump(want.args):
        raise Untranslatable(f'{where}: not the attribute redirection the model describes')


def _self_attr(node):
    return isinstance(node, ast.Attribute) and isinstance(node.value, ast.Name) and node.value.id == 'self'


def _root_self_attr(node):
    """`self.a.b`, `self.a[k]`, `self.a.b[k].c` ... -> ('a', 'a.b' / 'a[]' ...) if rooted at self.<a>, else None"""
    path = []
    while True:
        if isinstance(node, ast.Attribute):
            if isinstance(node.value, ast.Name) and node.value.id == 'self':
                return node.attr, node.attr + ''.join(reversed(path))
            path.append('.' + node.attr)
            node = node.value
        elif isinstance(node, ast.Subscript):
            path.append('[]')
            node = node.value
        else:
            return None


MUTATORS = {'append', 'extend', 'insert', 'pop', 'remove', 'clear', 'update', 'setdefault', 'add', 'discard',
            'popitem', 'sort', 'reverse', '__setitem__', '__setattr__', '__delitem__'}


def _scan(fn: ast.FunctionDef, method_names: set):
    writes, reads = [], []
    for n in ast.walk(fn):
        if isinstance(n, (ast.Global, ast.Nonlocal)):
            raise Untranslatable(f'{fn.name}: global / nonlocal state')
        # stores through the builder's attributes: self.a.b = ..., self.a[k] = ..., del self.a[k]
        if isinstance(n, (ast.Attribute, ast.Subscript)) and isinstance(n.ctx, (ast.Store, ast.Del)) and not _self_attr(n):
            r = _root_self_attr(n)
            if r is not None:
                writes.append(r[1])
        # in-place mutation through a method call: self.a.append(...), self.__dict__.setdefault(...)
        if isinstance(n, ast.Call) and isinstance(n.func, ast.Attribute) and n.func.attr in MUTATORS:
            r = _root_self_attr(n.func.value)
            if r is not None:
                writes.append(r[1] + '.' + n.func.attr + '()')
            elif isinstance(n.func.value, ast.Name) and n.func.value.id == 'self' and n.func.attr in ('__setattr__', '__delitem__'):
                writes.append('self.' + n.func.attr + '()')
        if isinstance(n, ast.Call) and isinstance(n.func, ast.Name) and n.func.id in ('setattr', 'delattr') \
                and n.args and isinstance(n.args[0], ast.Name) and n.args[0].id == 'self':
            writes.append(n.func.id + '(self)')
        if isinstance(n, ast.Call) and isinstance(n.func, ast.Name) and n.func.id == 'vars' \
                and n.args and isinstance(n.args[0], ast.Name) and n.args[0].id == 'self':
            reads.append('__dict__')
        if _self_attr(n):
            if isinstance(n.ctx, (ast.Store, ast.Del)):
                writes.append(n.attr)
            elif n.attr not in method_names and not (n.attr.startswith('__') and n.attr.endswith('__')):
                reads.append(n.attr)
        if isinstance(n, ast.AugAssign) and _self_attr(n.target):
            reads.append(n.target.attr)
        # getattr(self, <dynamic>) / hasattr(self, <dynamic>) with the phase method names: method dispatch only
    return writes, reads


def _uniq(xs):
    out = []
    for x in xs:
        if x not in out:
            out.append(x)
    return out


ALLOWED_DECORATORS = {'abstractmethod', 'property', 'staticmethod', 'classmethod', 'dataclass'}


def _no_module_state(mod: ast.Module, where: str, classes):
    """No module-level or class-level mutable state next to the builder classes: flights on different builder
    objects must not be able to talk to each other."""
    for st in mod.body:
        if isinstance(st, (ast.Import, ast.ImportFrom, ast.ClassDef, ast.FunctionDef)):
            continue
        if isinstance(st, ast.Expr) and isinstance(st.value, ast.Constant):
            continue
        if isinstance(st, ast.Assign) and len(st.targets) == 1 and isinstance(st.targets[0], ast.Name) \
                and st.targets[0].id == '__all__':
            continue
        raise Untranslatable(f'{where}: module-level statement {ast.unparse(st)[:60]!r} (module state)')
    for cls in classes:
        for st in cls.body:
            if isinstance(st, ast.FunctionDef):
                for d in st.decorator_list:
                    name = d.id if isinstance(d, ast.Name) else d.attr if isinstance(d, ast.Attribute) else ast.unparse(d)
                    if name not in ALLOWED_DECORATORS:
                        raise Untranslatable(f'{where}: decorator @{ast.unparse(d)} on {cls.name}.{st.name}')
                for a in st.args.defaults + [d for d in st.args.kw_defaults if d is not None]:
                    if isinstance(a, (ast.List, ast.Dict, ast.Set, ast.ListComp, ast.DictComp)):
                        raise Untranslatable(f'{where}: mutable default argument in {cls.name}.{st.name}')
            elif isinstance(st, ast.Expr) and isinstance(st.value, ast.Constant):
                continue
            elif isinstance(st, ast.AnnAssign) and isinstance(st.target, ast.Name):
                if cls.name not in ('Context', 'Options', 'LegacyOptions') and st.target.id != 'CONTEXT_CLASS':
                    raise Untranslatable(f'{where}: class attribute {cls.name}.{st.target.id}')
            elif isinstance(st, ast.Assign) and len(st.targets) == 1 and isinstance(st.targets[0], ast.Name) \
                    and st.targets[0].id == 'CONTEXT_CLASS':
                continue
            else:
                raise Untranslatable(f'{where}: class-level statement in {cls.name}: {ast.unparse(st)[:60]!r}')


class PartError(Untranslatable):
    def __init__(self, part: str, msg: str):
        super().__init__(f'{part}: {msg}')
        self.part = part


ITERATE_FRAME = """
def _iterate_mass(self) -> Trajectory:
    mass_converged = False
    iter = 1
    traj, mass_res = self._fly_iteration()
    while COND:
        if TEST:
            mass_converged = True
        else:
            CORRECTIONS
            traj, mass_res = self._fly_iteration()
            iter += 1
    if not mass_converged:
        raise RuntimeError(MSG)
    return traj
"""


def iterate_facts(base: ast.Module) -> dict:
    """Shape of Builder._iterate_mass: the convergence test, the iteration limit, the quantities corrected."""
    part = 'trajectories/builders/base.py:_iterate_mass'
    fn = find_function(base, '_iterate_mass', cls='Builder')
    body = strip_doc(fn.body)
    try:
        a0, a1, a2, loop, chk, ret = body
        assert ast.unparse(a0) == 'mass_converged = False' and ast.unparse(a1) == 'iter = 1'
        assert ast.unparse(a2) == 'traj, mass_res = self._fly_iteration()'
        assert isinstance(loop, ast.While) and not loop.orelse and len(loop.body) == 1
        iff = loop.body[0]
        assert isinstance(iff, ast.If) and [ast.unparse(x) for x in iff.body] == ['mass_converged = True']
        assert ast.unparse(chk).startswith('if not mass_converged:') and isinstance(chk.body[0], ast.Raise) \
            and ast.unparse(chk.body[0].exc).startswith('RuntimeError(') and len(chk.body) == 1 and not chk.orelse
        assert ast.unparse(ret) == 'return traj'
        els = iff.orelse
        assert len(els) >= 2 and ast.unparse(els[-2]) == 'traj, mass_res = self._fly_iteration()' \
            and ast.unparse(els[-1]) == 'iter += 1'
    except (AssertionError, ValueError) as e:
        raise PartError(part, 'the loop is not: fly; while not converged and iter < limit: test | correct, fly again') from e
    cond = ast.unparse(loop.test)
    if cond == 'not mass_converged and iter < self.options.max_mass_iters':
        strict = True
    elif cond == 'not mass_converged and iter <= self.options.max_mass_iters':
        strict = False
    else:
        raise PartError(part, 'loop condition: ' + cond)
    test = ast.unparse(iff.test)
    if test == 'abs(mass_res) < self.options.mass_iter_reltol':
        uses_abs = True
    elif test == 'mass_res < self.options.mass_iter_reltol':
        uses_abs = False
    else:
        raise PartError(part, 'convergence test: ' + test)
    corrects = []
    for st in els[:-2]:
        if not (isinstance(st, ast.AugAssign) and isinstance(st.op, ast.Sub) and _self_attr(st.target)
                and ast.unparse(st.value) == 'mass_res * self.total_fuel_mass'):
            raise PartError(part, 'correction step: ' + ast.unparse(st)[:80])
        corrects.append(st.target.attr)
    return {'iter_strict': strict, 'iter_abs': uses_abs, 'iter_corrects': corrects}


def facts(repo: Path) -> dict:
    base = ast.parse((Path(repo) / 'src/AEIC/trajectories/builders/base.py').read_text())
    legacy = ast.parse((Path(repo) / 'src/AEIC/trajectories/builders/legacy.py').read_text())
    builder, context = _cls(base, 'Builder'), _cls(base, 'Context')
    lbuilder, lcontext = _cls(legacy, 'LegacyBuilder'), _cls(legacy, 'LegacyContext')
    if [ast.unparse(b) for b in lbuilder.bases] != ['Builder'] or [ast.unparse(b) for b in lcontext.bases] != ['Context']:
        raise Untranslatable('legacy.py: class hierarchy changed')

    # the methods of the two builder classes: phases are dispatched by name (hasattr(self, 'fly_<phase>')), and
    # every performance evaluation is a direct self.ac_performance.evaluate(...) of the model's oracle
    want_b = {'__init__', '__getattr__', '__setattr__', 'fly', '_iterate_mass', '_start_point', '_fly_iteration',
              'calc_starting_mass'}
    want_l = {'__init__', 'calc_starting_mass', 'fly_climb', 'fly_descent', '_fly_level_change', 'fly_cruise'}
    got_b, got_l = {m.name for m in _methods(builder)}, {m.name for m in _methods(lbuilder)}
    if got_b != want_b or got_l != want_l:
        raise PartError('trajectories/builders:methods of Builder / LegacyBuilder',
                        f'unexpected or missing methods: {sorted((got_b ^ want_b) | (got_l ^ want_l))}')
    _no_module_state(base, 'builders/base.py', [builder, context, _cls(base, 'Options')])
    _no_module_state(legacy, 'builders/legacy.py', [lbuilder, lcontext, _cls(legacy, 'LegacyOptions')])
    _same_function(find_function(base, '__getattr__', cls='Builder'), GETATTR_SRC, 'Builder.__getattr__')
    _same_function(find_function(base, '__setattr__', cls='Builder'), SETATTR_SRC, 'Builder.__setattr__')
    if any(m.name in ('__getattr__', '__setattr__', '__getattribute__', '__delattr__', 'fly') for m in _methods(lbuilder)):
        raise Untranslatable('LegacyBuilder overrides attribute access or fly')

    # context fields
    ctx_fields = [n.target.id for n in context.body if isinstance(n, ast.AnnAssign) and isinstance(n.target, ast.Name)]
    init = find_function(legacy, '__init__', cls='LegacyContext')
    for n in ast.walk(init):
        if _self_attr(n) and isinstance(n.ctx, ast.Store):
            ctx_fields.append(n.attr)

    # what the context constructor reads from the builder it is handed (`builder.<name>...`)
    ctor_reads = []
    for n in ast.walk(init):
        if isinstance(n, ast.Attribute) and isinstance(n.value, ast.Name) and n.value.id == 'builder':
            if not isinstance(n.ctx, ast.Load):
                raise PartError('trajectories/builders/legacy.py:LegacyContext.__init__', 'writes to the builder')
            ctor_reads.append(n.attr)
    method_names = {m.name for m in _methods(builder)} | {m.name for m in _methods(lbuilder)}
    init_writes, flight_writes, reads = [], [], []
    for cls in (builder, lbuilder):
        for m in _methods(cls):
            if m.name in ('__getattr__', '__setattr__'):
                continue
            w, r = _scan(m, method_names)
            (init_writes if m.name == '__init__' else flight_writes).extend(w)
            reads.extend(r)

    # fly: try / finally
    fly = find_function(base, 'fly', cls='Builder')
    tries = [n for n in strip_doc(fly.body) if isinstance(n, ast.Try)]
    others = [n for n in strip_doc(fly.body) if not isinstance(n, ast.Try)]
    if len(tries) != 1 or others or tries[0].handlers or tries[0].orelse:
        raise PartError('trajectories/builders/base.py:fly(try/finally)', 'body must be a single try/finally without except clauses and nothing around it')
    tr = tries[0]
    first = [s for s in tr.body if not isinstance(s, ast.Assert)][0]
    if not (isinstance(first, ast.Assign) and len(first.targets) == 1 and _self_attr(first.targets[0])
            and first.targets[0].attr == 'ctx' and isinstance(first.value, ast.Call)
            and ast.unparse(first.value.func) == 'self.CONTEXT_CLASS'):
        raise PartError('trajectories/builders/base.py:fly(try/finally)', 'the try block must start by creating self.ctx = self.CONTEXT_CLASS(...)')
    fin = tr.finalbody
    del_ctx = ast.dump(ast.parse('del self.ctx').body[0])
    if len(fin) == 1 and ast.dump(fin[0]) == del_ctx:
        guarded = False
    elif (len(fin) == 1 and isinstance(fin[0], ast.If) and not fin[0].orelse
          and any(ast.dump(x) == del_ctx for x in fin[0].body) and ast.unparse(fin[0].test) in GUARDS):
        guarded = True
    else:
        raise PartError('trajectories/builders/base.py:fly(finally clause)', 'unrecognised finally clause: ' + ' '.join(ast.unparse(s) for s in fin)[:120])
    # a starting mass handed in by the caller: is the fuel load still derived?
    sm_ifs = [s2 for s2 in tr.body if isinstance(s2, ast.If) and ast.unparse(s2.test) == 'self.starting_mass is None']
    want_then = ast.dump(ast.parse('self.starting_mass = self.calc_starting_mass()').body[0])
    if len(sm_ifs) != 1 or len(sm_ifs[0].body) != 1 or ast.dump(sm_ifs[0].body[0]) != want_then:
        raise PartError('trajectories/builders/base.py:fly(starting-mass branch)', '`if self.starting_mass is None: self.starting_mass = self.calc_starting_mass()` not found')
    orelse = sm_ifs[0].orelse
    if not orelse:
        given_fix = False
    elif len(orelse) == 1 and ast.dump(orelse[0]) == ast.dump(ast.parse('self.calc_starting_mass()').body[0]):
        given_fix = True
    else:
        raise PartError('trajectories/builders/base.py:fly(starting-mass branch)', 'unrecognised handling of a given starting mass: ' + ' ; '.join(ast.unparse(x) for x in orelse)[:120])
    # what the finally clause does besides removing the context (nothing)
    fin_body = fin[0].body if guarded else fin
    finally_stmts = [' '.join(ast.unparse(x).split()) for x in fin_body]
    out = {'ctx_fields': _uniq(ctx_fields), 'init_writes': _uniq(init_writes),
           'flight_writes': _uniq(flight_writes), 'reads': _uniq(reads), 'guarded': guarded,
           'given_fix': given_fix, 'finally_stmts': finally_stmts, 'ctor_reads': _uniq(ctor_reads)}
    out.update(iterate_facts(base))
    return out


def extract(repo: Path) -> str:
    f = facts(repo)

    def lst(xs):
        return '[' + '; '.join(f'"{x}"' for x in xs) + ']'

    return ('(* generated by translator/c17_extract.py from builders/base.py + builders/legacy.py — do not edit *)\n'
            'From Coq Require Import List String Bool.\nImport ListNotations.\nOpen Scope string_scope.\n'
            f'Definition g_ctx_fields : list string := {lst(f["ctx_fields"])}.\n'
            f'Definition g_init_writes : list string := {lst(f["init_writes"])}.\n'
            f'Definition g_flight_writes : list string := {lst(f["flight_writes"])}.\n'
            f'Definition g_reads : list string := {lst(f["reads"])}.\n'
            f'Definition g_finally_guarded : bool := {"true" if f["guarded"] else "false"}.\n'
            f'Definition g_given_mass_fuel_derived : bool := {"true" if f["given_fix"] else "false"}.\n'
            f'Definition g_ctor_builder_reads : list string := {lst(f["ctor_reads"])}.\n'
            f'Definition g_finally_body : list string := {lst(f["finally_stmts"])}.\n'
            f'Definition g_iterate_limit_strict : bool := {"true" if f["iter_strict"] else "false"}.\n'
            f'Definition g_iterate_test_uses_abs : bool := {"true" if f["iter_abs"] else "false"}.\n'
            f'Definition g_iterate_corrects : list string := {lst(f["iter_corrects"])}.\n')


if __name__ == '__main__':
    import sys
    print(extract(Path(sys.argv[1] if len(sys.argv) > 1 else '/repo')))

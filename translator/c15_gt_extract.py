"""C15 — fail-closed translation of trajectories/ground_track.py:GroundTrack into Gallina expressions over the
vocabulary of coq/model/C15_Model.v (track, idx, total, leg_az, nlegs, accumulate, bisect_left, oracle scripts
PWp / PFwd / ALeg / AInvFrom / AInvTo, Refuse / At).

Each method is walked statement by statement; the *expressions* (which index entry, which azimuth, which
waypoint, which comparison, which arguments go to GEOD.fwd / GEOD.inv) are translated, so that a change of any of
them lands in the generated text and is decided by link/C15_GtLink.v; a change of *shape* (extra statements,
state kept on the object, keyword arguments, other callees) raises Untranslatable under the method's own
obligation name.  Nothing is evaluated.

    extract_ground_track(repo) -> (gallina text or None, [(obligation name, ok, message)])
"""

from __future__ import annotations

import ast
from pathlib import Path

from translator.py2coq import Untranslatable, _parse, dump, lit_text, strip_doc

REASONS = {'distance outside ground track range': 'RRange', 'distances must be non-negative': 'RNeg',
           'step would cross a waypoint': 'RCross', 'step outside ground track range': 'ROutside'}


def _same(node, text):
    return dump(node) == dump(ast.parse(text).body[0])


def _expr_same(node, text):
    return dump(node) == dump(ast.parse(text, mode='eval').body)


class Tx:
    """expression translator; env: python name -> (kind, gallina term), kinds: num, nat, bool, wp, pt, az"""

    def __init__(self, where, env=None):
        self.where = where
        self.env = dict(env or {})

    def fail(self, msg):
        raise Untranslatable(f'{self.where}: {msg}')

    # position in one of the three sequences of the object
    def pos(self, k, seq):
        if isinstance(k, ast.Constant) and isinstance(k.value, int):
            v = k.value
            if v >= 0:
                return f'{v}%nat'
            if seq == 'azimuths' and v == -1:
                return '(nlegs g - 1)%nat'
            if seq == 'waypoints' and v == -1:
                return '(nlegs g)'
            if seq == 'waypoints' and v == -2:
                return '(nlegs g - 1)%nat'
            if seq == 'index' and v == -2:
                return '(nlegs g - 1)%nat'
            self.fail(f'negative position {v} in self.{seq}')
        if isinstance(k, ast.UnaryOp) and isinstance(k.op, ast.USub) and isinstance(k.operand, ast.Constant):
            return self.pos(ast.Constant(-k.operand.value), seq)
        if isinstance(k, ast.Name) and self.env.get(k.id, ('', ''))[0] == 'nat':
            return self.env[k.id][1]
        if isinstance(k, ast.BinOp) and isinstance(k.op, (ast.Sub, ast.Add)) and isinstance(k.right, ast.Constant) \
                and isinstance(k.right.value, int) and k.right.value >= 0:
            op = '-' if isinstance(k.op, ast.Sub) else '+'
            return f'({self.pos(k.left, seq)} {op} {k.right.value})%nat'
        self.fail(f'position {ast.unparse(k)} in self.{seq}')

    def seq_of(self, n):
        if isinstance(n, ast.Subscript) and isinstance(n.value, ast.Attribute) and isinstance(n.value.value, ast.Name) \
                and n.value.value.id == 'self' and n.value.attr in ('index', 'azimuths', 'waypoints'):
            return n.value.attr
        return None

    def num(self, n):
        if isinstance(n, ast.Constant) and isinstance(n.value, (int, float)) and not isinstance(n.value, bool):
            return 'zero' if n.value == 0 else lit_text(repr(n.value))
        if isinstance(n, ast.Name):
            if self.env.get(n.id, ('', ''))[0] == 'num':
                return self.env[n.id][1]
            self.fail(f'{n.id} is not a known number')
        if isinstance(n, ast.BinOp) and isinstance(n.op, (ast.Add, ast.Sub)):
            return f'({self.num(n.left)} {"+" if isinstance(n.op, ast.Add) else "-"} {self.num(n.right)})'
        seq = self.seq_of(n)
        if seq == 'index':
            k = n.slice
            if (isinstance(k, ast.Constant) and k.value == -1) or \
                    (isinstance(k, ast.UnaryOp) and isinstance(k.op, ast.USub) and getattr(k.operand, 'value', None) == 1):
                return '(total g)'
            return f'(idx g {self.pos(k, "index")})'
        if seq == 'azimuths':
            return f'(leg_az g {self.pos(n.slice, "azimuths")})'
        self.fail(f'numeric expression {ast.unparse(n)[:80]}')

    def is_nat(self, n):
        return isinstance(n, ast.Name) and self.env.get(n.id, ('', ''))[0] == 'nat'

    def boolean(self, n):
        if isinstance(n, ast.BoolOp):
            j = ' && ' if isinstance(n.op, ast.And) else ' || '
            return '(' + j.join(self.boolean(v) for v in n.values) + ')'
        if isinstance(n, ast.UnaryOp) and isinstance(n.op, ast.Not):
            return f'(negb {self.boolean(n.operand)})'
        if isinstance(n, ast.Name) and self.env.get(n.id, ('', ''))[0] == 'bool':
            return self.env[n.id][1]
        if isinstance(n, ast.Attribute) and ast.unparse(n) == 'self.allow_overstep':
            return '(allow g)'
        if isinstance(n, ast.Compare) and len(n.ops) == 1:
            op, l, r = n.ops[0], n.left, n.comparators[0]
            if isinstance(op, (ast.In, ast.NotIn)) and ast.unparse(r) == 'self':
                t = f'(contains_x g {self.num(l)})'
                return t if isinstance(op, ast.In) else f'(negb {t})'
            if self.is_nat(l) or self.is_nat(r):
                a = self.pos(l, 'index') if not isinstance(l, ast.Constant) else f'{l.value}%nat'
                b = self.pos(r, 'index') if not isinstance(r, ast.Constant) else f'{r.value}%nat'
                if isinstance(op, ast.Eq):
                    return f'(Nat.eqb {a} {b})'
                if isinstance(op, ast.NotEq):
                    return f'(negb (Nat.eqb {a} {b}))'
                self.fail(f'comparison of positions {ast.unparse(n)}')
            a, b = self.num(l), self.num(r)
            t = {ast.Lt: f'({a} <? {b})', ast.LtE: f'({a} <=? {b})', ast.Gt: f'({b} <? {a})',
                 ast.GtE: f'({b} <=? {a})'}.get(type(op))
            if t is None:
                self.fail(f'comparison {ast.unparse(n)}')
            return t
        self.fail(f'condition {ast.unparse(n)[:80]}')

    # ---- geodesic blocks -------------------------------------------------------------------
    def wp_of(self, n):
        """`W` (a name bound to self.waypoints[K]) or `self.waypoints[K]` -> position term"""
        if isinstance(n, ast.Name) and self.env.get(n.id, ('', ''))[0] == 'wp':
            return self.env[n.id][1]
        if self.seq_of(n) == 'waypoints':
            return self.pos(n.slice, 'waypoints')
        self.fail(f'{ast.unparse(n)} is not a waypoint')

    def lonlat(self, a, b):
        """(a, b) must be (<x>.longitude, <x>.latitude) of one waypoint, or the (lon, lat) of a computed point"""
        if isinstance(a, ast.Name) and isinstance(b, ast.Name):
            pa, pb = self.env.get(a.id), self.env.get(b.id)
            if pa and pb and pa[0] == 'ptlon' and pb[0] == 'ptlat' and pa[1] == pb[1]:
                return 'pt', pa[1]
            self.fail(f'({a.id}, {b.id}) is not the (longitude, latitude) of a computed point')
        if isinstance(a, ast.Attribute) and isinstance(b, ast.Attribute) and a.attr == 'longitude' and b.attr == 'latitude' \
                and dump(a.value) == dump(b.value):
            return 'wp', self.wp_of(a.value)
        self.fail(f'({ast.unparse(a)}, {ast.unparse(b)}) is not a (longitude, latitude) pair in pyproj order')

    def point_ctor(self, call):
        """GroundTrack.Point(<location>, <azimuth>) -> 'At p a'"""
        if not (isinstance(call, ast.Call) and ast.unparse(call.func) == 'GroundTrack.Point' and len(call.args) == 2
                and not call.keywords):
            self.fail(f'must return GroundTrack.Point(location, azimuth), found {ast.unparse(call)[:80]}')
        loc, az = call.args
        if self.seq_of(loc) == 'waypoints':
            p = f'(PWp {self.pos(loc.slice, "waypoints")})'
        elif isinstance(loc, ast.Call) and ast.unparse(loc.func) == 'Location' and len(loc.args) == 2 and not loc.keywords:
            kind, t = self.lonlat(loc.args[0], loc.args[1])
            if kind != 'pt':
                self.fail('Location(...) of something that is not the computed point')
            p = t
        else:
            self.fail(f'location {ast.unparse(loc)[:60]}')
        if self.seq_of(az) == 'azimuths':
            a = f'(ALeg {self.pos(az.slice, "azimuths")})'
        elif isinstance(az, ast.Name) and self.env.get(az.id, ('', ''))[0] == 'az':
            a = self.env[az.id][1]
        else:
            self.fail(f'azimuth {ast.unparse(az)[:60]} (normalisation belongs to Point.__post_init__, not to call sites)')
        return f'At {p} {a}'

    def geodesic_block(self, stmts):
        """straight-line: waypoint bindings, one GEOD.fwd, one GEOD.inv, return Point -> gallina expression"""
        lets = []
        for st in stmts[:-1]:
            if isinstance(st, ast.Assign) and len(st.targets) == 1 and isinstance(st.targets[0], ast.Name) \
                    and self.seq_of(st.value) == 'waypoints':
                self.env[st.targets[0].id] = ('wp', self.pos(st.value.slice, 'waypoints'))
                continue
            if isinstance(st, ast.Assign) and len(st.targets) == 1 and isinstance(st.targets[0], ast.Tuple) \
                    and isinstance(st.value, ast.Call) and not st.value.keywords and len(st.value.args) == 4:
                names = [ast.unparse(e) for e in st.targets[0].elts]
                fn = ast.unparse(st.value.func)
                a = st.value.args
                if fn == 'GEOD.fwd' and len(names) == 3 and names[2] == '_':
                    kind, w = self.lonlat(a[0], a[1])
                    if kind != 'wp':
                        self.fail('GEOD.fwd must start from a waypoint')
                    lets.append(f'let p := PFwd {w} {self.num(a[2])} {self.num(a[3])} in')
                    self.env[names[0]] = ('ptlon', 'p')
                    self.env[names[1]] = ('ptlat', 'p')
                    continue
                if fn == 'GEOD.inv' and len(names) == 3 and names[1] == '_' and names[2] == '_':
                    k1, t1 = self.lonlat(a[0], a[1])
                    k2, t2 = self.lonlat(a[2], a[3])
                    if (k1, k2) == ('pt', 'wp'):
                        self.env[names[0]] = ('az', f'(AInvFrom {t1} {t2})')
                    elif (k1, k2) == ('wp', 'pt'):
                        self.env[names[0]] = ('az', f'(AInvTo {t1} {t2})')
                    else:
                        self.fail('GEOD.inv must relate the computed point and a waypoint')
                    continue
            self.fail(f'statement {ast.unparse(st)[:90]}')
        ret = stmts[-1]
        if not isinstance(ret, ast.Return):
            self.fail('block must end with return')
        return ' '.join(lets + [self.point_ctor(ret.value)])


def _raise_reason(st, where):
    if not (isinstance(st, ast.Raise) and isinstance(st.exc, ast.Call) and ast.unparse(st.exc.func) == 'GroundTrack.Exception'
            and len(st.exc.args) == 1 and isinstance(st.exc.args[0], ast.Constant)
            and st.exc.args[0].value in REASONS):
        raise Untranslatable(f'{where}: refusal must raise GroundTrack.Exception with a known message')
    return REASONS[st.exc.args[0].value]


def _method(cls, name):
    for n in cls.body:
        if isinstance(n, ast.FunctionDef) and n.name == name:
            return n
    raise Untranslatable(f'GroundTrack.{name} not found')


def _args(fn, want):
    got = [a.arg for a in fn.args.args]
    if got != want or fn.args.vararg or fn.args.kwarg or fn.args.kwonlyargs:
        raise Untranslatable(f'GroundTrack.{fn.name}: signature {got}')


def t_init(cls):
    fn = _method(cls, '__init__')
    _args(fn, ['self', 'waypoints', 'allow_overstep'])
    body = strip_doc(fn.body)
    want = ['self.waypoints: list[Location] = waypoints', 'self.allow_overstep: bool = allow_overstep',
            'lons = [wp.longitude for wp in waypoints]', 'lats = [wp.latitude for wp in waypoints]',
            'self.azimuths, _, distances = GEOD.inv(lons[:-1], lats[:-1], lons[1:], lats[1:])']
    if len(body) != 6 or not all(_same(b, w) for b, w in zip(body, want)):
        raise Untranslatable('GroundTrack.__init__: expected exactly: store the waypoints as given (no filtering), lons, lats, '
                             'one vectorised GEOD.inv over consecutive waypoints, the cumulative index; found: '
                             + ' | '.join(ast.unparse(b)[:60] for b in body))
    st = body[5]
    if not (isinstance(st, ast.AnnAssign) and ast.unparse(st.target) == 'self.index' and isinstance(st.value, ast.Call)
            and ast.unparse(st.value.func) == 'list' and len(st.value.args) == 1):
        raise Untranslatable('GroundTrack.__init__: self.index must be list(...)')
    acc = st.value.args[0]
    if not (isinstance(acc, ast.Call) and ast.unparse(acc.func) == 'itertools.accumulate' and len(acc.args) == 1
            and not acc.keywords and isinstance(acc.args[0], ast.BinOp) and isinstance(acc.args[0].op, ast.Add)
            and isinstance(acc.args[0].left, ast.List) and len(acc.args[0].left.elts) == 1
            and ast.unparse(acc.args[0].right) == 'distances'):
        raise Untranslatable('GroundTrack.__init__: index must be itertools.accumulate([start] + distances)')
    start = Tx('GroundTrack.__init__').num(acc.args[0].left.elts[0])
    return f'Definition index_x (g : track N) : list (T N) := accumulate {start} (dists g).'


def t_contains(cls):
    fn = _method(cls, '__contains__')
    _args(fn, ['self', 'distance'])
    body = strip_doc(fn.body)
    if len(body) != 1 or not isinstance(body[0], ast.Return):
        raise Untranslatable('GroundTrack.__contains__: must be a single return of a comparison on the index '
                             '(no tolerance band): ' + ' | '.join(ast.unparse(b)[:60] for b in body))
    tx = Tx('GroundTrack.__contains__', {'distance': ('num', 'v_distance')})
    e = tx.boolean(body[0].value).replace('contains_x', 'CONTAINS_RECURSION')
    return f'Definition contains_x (g : track N) (v_distance : T N) : bool := {e}.'


def t_lookup(cls):
    fn = _method(cls, 'lookup_waypoint')
    _args(fn, ['self', 'distance'])
    body = strip_doc(fn.body)
    where = 'GroundTrack.lookup_waypoint'
    if len(body) != 2 or not (isinstance(body[0], ast.If) and not body[0].orelse and len(body[0].body) == 1) \
            or not isinstance(body[1], ast.Return):
        raise Untranslatable(f'{where}: expected a range refusal and `return bisect_left(self.index, distance)` '
                             '(no state carried between lookups): ' + ' | '.join(ast.unparse(b)[:60] for b in body))
    tx = Tx(where, {'distance': ('num', 'v_distance')})
    cond = tx.boolean(body[0].test)
    why = _raise_reason(body[0].body[0], where)
    if why != 'RRange':
        raise Untranslatable(f'{where}: refusal reason {why}')
    r = body[1].value
    if not (isinstance(r, ast.Call) and ast.unparse(r.func) == 'bisect_left' and len(r.args) == 2 and not r.keywords
            and ast.unparse(r.args[0]) == 'self.index'):
        raise Untranslatable(f'{where}: must return bisect_left(self.index, distance) over the whole index: {ast.unparse(r)[:80]}')
    return (f'Definition lookup_x (g : track N) (v_distance : T N) : option nat :=\n'
            f'  if {cond} then None else Some (bisect_left (index g) {tx.num(r.args[1])}).')


def t_location(cls):
    fn = _method(cls, 'location')
    _args(fn, ['self', 'distance'])
    body = strip_doc(fn.body)
    where = 'GroundTrack.location'
    if len(body) < 4 or not _same(body[0], 'pos = self.lookup_waypoint(distance)'):
        raise Untranslatable(f'{where}: must start with pos = self.lookup_waypoint(distance)')
    tx = Tx(where, {'distance': ('num', 'v_distance'), 'pos': ('nat', 'pos')})
    out = []
    i = 1
    while i < len(body) and isinstance(body[i], ast.If):
        st = body[i]
        if st.orelse or len(st.body) != 1 or not isinstance(st.body[0], ast.Return):
            raise Untranslatable(f'{where}: boundary case must be `if …: return GroundTrack.Point(…)`')
        out.append(f'if {tx.boolean(st.test)} then {tx.point_ctor(st.body[0].value)} else')
        i += 1
    out.append(tx.geodesic_block(body[i:]))
    return ('Definition location_x (g : track N) (v_distance : T N) : res N :=\n'
            '  match lookup_x g v_distance with\n  | None => Refuse RRange\n  | Some pos =>\n    '
            + '\n    '.join(out) + '\n  end.')


def t_overstep(cls):
    fn = _method(cls, '_overstep')
    _args(fn, ['self', 'distance'])
    tx = Tx('GroundTrack._overstep', {'distance': ('num', 'v_distance')})
    return ('Definition overstep_x (g : track N) (v_distance : T N) : res N :=\n  '
            + tx.geodesic_block(strip_doc(fn.body)) + '.')


def t_step(cls):
    fn = _method(cls, 'step')
    _args(fn, ['self', 'from_distance', 'distance_step'])
    body = strip_doc(fn.body)
    where = 'GroundTrack.step'
    env = {'from_distance': ('num', 'v_from'), 'distance_step': ('num', 'v_by')}
    tx = Tx(where, env)
    if len(body) != 4:
        raise Untranslatable(f'{where}: expected 4 top-level statements, found {len(body)}')
    neg, s_from, s_to, main = body
    if not (isinstance(neg, ast.If) and not neg.orelse and len(neg.body) == 1):
        raise Untranslatable(f'{where}: first statement must refuse negative distances')
    negc, negr = tx.boolean(neg.test), _raise_reason(neg.body[0], where)
    lets = []
    for st in (s_from, s_to):
        if not (isinstance(st, ast.Assign) and len(st.targets) == 1 and isinstance(st.targets[0], ast.Name)):
            raise Untranslatable(f'{where}: expected from_ok / to_ok')
        lets.append(f'let {st.targets[0].id} := {tx.boolean(st.value)} in')
        tx.env[st.targets[0].id] = ('bool', st.targets[0].id)
    if not (isinstance(main, ast.If) and main.orelse):
        raise Untranslatable(f'{where}: expected if/else on the range test')
    cond = tx.boolean(main.test)
    # in range
    th = main.body
    if len(th) != 4 or not all(isinstance(s, ast.Assign) for s in th[:2]) or not isinstance(th[2], ast.If) \
            or not isinstance(th[3], ast.Return):
        raise Untranslatable(f'{where}: in-range branch changed')
    look = []
    for st in th[:2]:
        v = st.value
        if not (isinstance(st.targets[0], ast.Name) and isinstance(v, ast.Call) and ast.unparse(v.func) == 'self.lookup_waypoint'
                and len(v.args) == 1 and not v.keywords):
            raise Untranslatable(f'{where}: before_pos / after_pos must come from self.lookup_waypoint')
        look.append((st.targets[0].id, tx.num(v.args[0])))
        tx.env[st.targets[0].id] = ('nat', st.targets[0].id)
    cr = th[2]
    if cr.orelse or len(cr.body) != 1:
        raise Untranslatable(f'{where}: crossing rule changed shape')
    crc, crr = tx.boolean(cr.test), _raise_reason(cr.body[0], where)
    r1 = th[3].value
    if not (isinstance(r1, ast.Call) and ast.unparse(r1.func) == 'self.location' and len(r1.args) == 1 and not r1.keywords):
        raise Untranslatable(f'{where}: an in-range step must return self.location(...)')
    loc_arg = tx.num(r1.args[0])
    # out of range
    el = main.orelse
    if len(el) != 2 or not (isinstance(el[0], ast.If) and not el[0].orelse and len(el[0].body) == 1) \
            or not isinstance(el[1], ast.Return):
        raise Untranslatable(f'{where}: out-of-range branch changed')
    oc, orr = tx.boolean(el[0].test), _raise_reason(el[0].body[0], where)
    r2 = el[1].value
    if not (isinstance(r2, ast.Call) and ast.unparse(r2.func) == 'self._overstep' and len(r2.args) == 1 and not r2.keywords):
        raise Untranslatable(f'{where}: an overstep must return self._overstep(...)')
    ov_arg = tx.num(r2.args[0])
    return ('Definition step_x (g : track N) (v_from v_by : T N) : res N :=\n'
            f'  if {negc} then Refuse {negr} else\n  ' + '\n  '.join(lets) + '\n'
            f'  if {cond} then\n'
            f'    match lookup_x g {look[0][1]}, lookup_x g {look[1][1]} with\n'
            f'    | Some {look[0][0]}, Some {look[1][0]} =>\n'
            f'        if {crc} then Refuse {crr} else location_x g {loc_arg}\n'
            f'    | _, _ => Refuse RRange\n    end\n'
            f'  else if {oc} then Refuse {orr} else overstep_x g {ov_arg}.')


def t_point(cls):
    point = [n for n in cls.body if isinstance(n, ast.ClassDef) and n.name == 'Point']
    if len(point) != 1:
        raise Untranslatable('GroundTrack.Point not found')
    p = point[0]
    if [ast.unparse(d) for d in p.decorator_list] != ['dataclass']:
        raise Untranslatable('GroundTrack.Point must be a plain @dataclass (its generated __init__ runs __post_init__ on '
                             'every construction)')
    names = [n.name for n in p.body if isinstance(n, ast.FunctionDef)]
    if names != ['__post_init__']:
        raise Untranslatable(f'GroundTrack.Point: methods {names}; normalisation must live in __post_init__ only')
    pb = strip_doc(p.body[[isinstance(n, ast.FunctionDef) for n in p.body].index(True)].body)
    if len(pb) != 1 or not (isinstance(pb[0], ast.Assign) and ast.unparse(pb[0].targets[0]) == 'self.azimuth'
                            and isinstance(pb[0].value, ast.BinOp) and isinstance(pb[0].value.op, ast.Mod)
                            and ast.unparse(pb[0].value.left) == 'self.azimuth' and isinstance(pb[0].value.right, ast.Constant)):
        raise Untranslatable('GroundTrack.Point.__post_init__ must be self.azimuth = self.azimuth % <literal>')
    return ('Definition point_azimuth_modulus : T N := ' + lit_text(repr(float(pb[0].value.right.value))) + '.\n'
            '(* every GroundTrack.Point is built by the dataclass constructor, which runs __post_init__ *)\n'
            'Definition every_point_is_normalised : bool := true.')


def t_stateless(cls):
    """after construction no method writes to the object (lookups cannot depend on earlier lookups)"""
    for fn in cls.body:
        if isinstance(fn, ast.FunctionDef) and fn.name != '__init__':
            for n in ast.walk(fn):
                tg = []
                if isinstance(n, ast.Assign):
                    tg = n.targets
                elif isinstance(n, (ast.AugAssign, ast.AnnAssign)):
                    tg = [n.target]
                for t in tg:
                    for sub in ast.walk(t):
                        if isinstance(sub, ast.Attribute) and isinstance(sub.value, ast.Name) and sub.value.id == 'self':
                            raise Untranslatable(f'GroundTrack.{fn.name} writes self.{sub.attr}: the track is not stateless')
                if isinstance(n, ast.Call) and ast.unparse(n.func) in ('setattr', 'object.__setattr__'):
                    raise Untranslatable(f'GroundTrack.{fn.name} uses setattr')
    return 'Definition lookups_are_stateless : bool := true.'


PARTS = [('__init__', t_init), ('__contains__', t_contains), ('lookup_waypoint', t_lookup), ('location', t_location),
         ('_overstep', t_overstep), ('step', t_step), ('Point (normalisation on every construction path)', t_point),
         ('stateless after construction', t_stateless)]


def extract_ground_track(repo: Path):
    path = Path(repo) / 'src/AEIC/trajectories/ground_track.py'
    mod = _parse(path)
    cls = [n for n in mod.body if isinstance(n, ast.ClassDef) and n.name == 'GroundTrack']
    obs, defs = [], []
    if len(cls) != 1:
        return None, [('extract:ground_track.py:GroundTrack', False, 'class GroundTrack not found')]
    imp = [n for n in mod.body if isinstance(n, ast.ImportFrom) and n.module == 'bisect']
    if len(imp) != 1 or [(a.name, a.asname) for a in imp[0].names] != [('bisect_left', None)]:
        obs.append(('extract:ground_track.py:bisect_left is the standard library one', False,
                    'expected exactly `from bisect import bisect_left`'))
    for name, f in PARTS:
        ob = f'extract:ground_track.py:GroundTrack.{name}'
        try:
            defs.append(f(cls[0]))
            obs.append((ob, True, ''))
        except Untranslatable as e:
            obs.append((ob, False, str(e)))
    if not all(ok for _, ok, _ in obs):
        return None, obs
    text = ('(* generated by translator/c15_gt_extract.py from trajectories/ground_track.py — do not edit *)\n'
            'From Coq Require Import ZArith PrimFloat List Bool Arith.\nFrom AV Require Import lib.Num model.C15_Model.\n'
            'Import ListNotations.\nSection Gen.\nContext {N : Num}.\nLocal Open Scope num_scope.\nLocal Open Scope bool_scope.\n\n'
            + '\n\n'.join(defs) + '\n\nEnd Gen.\n')
    return text, obs


if __name__ == '__main__':
    import sys
    t, o = extract_ground_track(Path(sys.argv[1] if len(sys.argv) > 1 else '/repo'))
    print(t)
    for x in o:
        print(x, file=sys.stderr)

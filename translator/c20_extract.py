"""C20 extractor: the thread guard at the top of TrajectoryStore.__init__  ->  Gallina `gstmt` program.

Fail-closed: every statement of the guard must be one of

    if <owner> is [not] None: ... [else: ...]          -> GIfNone th el   (branches swapped for `is not`)
    if <owner> != <me>: ...  |  if <owner> is not <me>: ...   -> GIfNeq th
    <owner> = <me>                                      -> GSet
    raise RuntimeError(...)                             -> GRaise
    with <Class>.<lock>: ...                            -> GWith body   (<lock> = threading.Lock()/RLock() at class level)

where <owner> is `TrajectoryStore.active_in_thread` (or cls./self.__class__.) and <me> is
`threading.get_ident()` or `threading.current_thread()`.  Anything else raises `Untranslatable`.

Besides the Gallina text the extractor returns the statement table the line-level scheduler of
harness/c20.py needs (first line of each guard statement -> statement id and kind).
"""

from __future__ import annotations

import ast
from dataclasses import dataclass, field
from pathlib import Path

from translator.py2coq import Untranslatable

OWNER_ATTR = 'active_in_thread'
CLASS = 'TrajectoryStore'


@dataclass
class Guard:
    coq_term: str                      # Gallina list gstmt
    variant: str                       # 'as_coded' | 'locked' | 'other'
    identity: str                      # 'ident' | 'thread_object'
    lock_attrs: list[str]
    first_line: int
    last_line: int
    stmt_of_line: dict[int, tuple[int, str]] = field(default_factory=dict)   # lineno -> (sid, kind)
    source: str = ''


def _is_owner(e: ast.AST) -> bool:
    return (isinstance(e, ast.Attribute) and e.attr == OWNER_ATTR and
            ((isinstance(e.value, ast.Name) and e.value.id in (CLASS, 'cls')) or
             (isinstance(e.value, ast.Attribute) and e.value.attr == '__class__')))


def _me_kind(e: ast.AST) -> str | None:
    if (isinstance(e, ast.Call) and not e.args and not e.keywords and isinstance(e.func, ast.Attribute)
            and isinstance(e.func.value, ast.Name) and e.func.value.id == 'threading'):
        if e.func.attr == 'get_ident':
            return 'ident'
        if e.func.attr == 'current_thread':
            return 'thread_object'
    return None


def _is_none(e: ast.AST) -> bool:
    return isinstance(e, ast.Constant) and e.value is None


class _Tr:
    def __init__(self, lock_attrs: set[str]):
        self.lock_attrs = lock_attrs
        self.table: dict[int, tuple[int, str]] = {}
        self.sid = 0
        self.identities: set[str] = set()
        self.used_locks: list[str] = []

    def new(self, node: ast.stmt, kind: str) -> None:
        self.sid += 1
        # statement granularity: the head of a guard statement touches the shared attribute exactly once
        # (tests and the assignment) or not at all (raise, with)
        head = [node.test] if isinstance(node, ast.If) else [*node.targets, node.value] if isinstance(node, ast.Assign) \
            else [node.exc] if isinstance(node, ast.Raise) else [i.context_expr for i in node.items]
        n_acc = sum(1 for h in head for m in ast.walk(h) if isinstance(m, ast.Attribute) and m.attr == OWNER_ATTR)
        if n_acc != (1 if kind in ('TestNone', 'TestNeq', 'Set') else 0):
            raise Untranslatable(f'line {node.lineno}: {n_acc} accesses to {OWNER_ATTR} in one statement head')
        # every physical line of the statement head maps to the statement (multi-line raise / call)
        last = node.end_lineno or node.lineno
        if isinstance(node, (ast.If, ast.With)):
            last = node.body[0].lineno - 1
        for ln in range(node.lineno, max(last, node.lineno) + 1):
            self.table.setdefault(ln, (self.sid, kind))

    def block(self, stmts: list[ast.stmt]) -> str:
        return '[' + '; '.join(self.stmt(s) for s in stmts) + ']'

    def stmt(self, s: ast.stmt) -> str:
        if isinstance(s, ast.If):
            t = s.test
            if isinstance(t, ast.Compare) and len(t.ops) == 1 and len(t.comparators) == 1 and _is_owner(t.left):
                op, rhs = t.ops[0], t.comparators[0]
                if _is_none(rhs) and isinstance(op, (ast.Is, ast.IsNot)):
                    self.new(s, 'TestNone')
                    th, el = self.block(s.body), self.block(s.orelse)
                    if isinstance(op, ast.IsNot):
                        th, el = el, th
                    return f'GIfNone {th} {el}'
                mk = _me_kind(rhs)
                if mk is not None and not s.orelse and (
                        (mk == 'ident' and isinstance(op, ast.NotEq)) or
                        (mk == 'thread_object' and isinstance(op, (ast.IsNot, ast.NotEq)))):
                    self.identities.add(mk)
                    self.new(s, 'TestNeq')
                    return f'GIfNeq {self.block(s.body)}'
            raise Untranslatable(f'line {s.lineno}: unsupported test in thread guard: {ast.unparse(s.test)}')
        if isinstance(s, ast.Assign):
            if len(s.targets) == 1 and _is_owner(s.targets[0]) and _me_kind(s.value) is not None:
                self.identities.add(_me_kind(s.value))
                self.new(s, 'Set')
                return 'GSet'
            raise Untranslatable(f'line {s.lineno}: unsupported assignment in thread guard: {ast.unparse(s)}')
        if isinstance(s, ast.Raise):
            e = s.exc
            if isinstance(e, ast.Call) and isinstance(e.func, ast.Name) and e.func.id == 'RuntimeError':
                self.new(s, 'Raise')
                return 'GRaise'
            raise Untranslatable(f'line {s.lineno}: the guard must refuse with RuntimeError: {ast.unparse(s)}')
        if isinstance(s, ast.With):
            if len(s.items) == 1 and s.items[0].optional_vars is None:
                c = s.items[0].context_expr
                if (isinstance(c, ast.Attribute) and c.attr in self.lock_attrs and
                        ((isinstance(c.value, ast.Name) and c.value.id in (CLASS, 'cls')))):
                    self.used_locks.append(c.attr)
                    self.new(s, 'With')
                    return f'GWith {self.block(s.body)}'
            raise Untranslatable(f'line {s.lineno}: `with` in thread guard is not a class-level threading lock')
        raise Untranslatable(f'line {s.lineno}: unsupported statement in thread guard: {type(s).__name__}')


def _mentions_owner(s: ast.stmt) -> bool:
    return any(isinstance(n, ast.Attribute) and n.attr == OWNER_ATTR for n in ast.walk(s))


def extract_guard(store_py: Path) -> Guard:
    src = Path(store_py).read_text()
    mod = ast.parse(src, filename=str(store_py))
    cls = next((n for n in mod.body if isinstance(n, ast.ClassDef) and n.name == CLASS), None)
    if cls is None:
        raise Untranslatable(f'class {CLASS} not found')
    init = next((n for n in cls.body if isinstance(n, ast.FunctionDef) and n.name == '__init__'), None)
    if init is None:
        raise Untranslatable(f'{CLASS}.__init__ not found')
    # class-level locks:  <name> = threading.Lock() | threading.RLock()
    lock_attrs = set()
    owner_declared = False
    for n in cls.body:
        tgt, val = None, None
        if isinstance(n, ast.Assign) and len(n.targets) == 1 and isinstance(n.targets[0], ast.Name):
            tgt, val = n.targets[0].id, n.value
        elif isinstance(n, ast.AnnAssign) and isinstance(n.target, ast.Name) and n.value is not None:
            tgt, val = n.target.id, n.value
        if tgt == OWNER_ATTR:
            if not _is_none(val):
                raise Untranslatable(f'{CLASS}.{OWNER_ATTR} must start as None')
            owner_declared = True
        if (tgt and isinstance(val, ast.Call) and isinstance(val.func, ast.Attribute) and
                isinstance(val.func.value, ast.Name) and val.func.value.id == 'threading' and
                val.func.attr in ('Lock', 'RLock') and not val.args):
            lock_attrs.add(tgt)
    if not owner_declared:
        raise Untranslatable(f'{CLASS}.{OWNER_ATTR} class attribute (= None) not found')
    body = list(init.body)
    if body and isinstance(body[0], ast.Expr) and isinstance(body[0].value, ast.Constant) and \
            isinstance(body[0].value.value, str):
        body = body[1:]
    guard = []
    for s in body:
        if _mentions_owner(s):
            guard.append(s)
        else:
            break
    rest = body[len(guard):]
    if not guard:
        raise Untranslatable('no thread guard at the top of TrajectoryStore.__init__ '
                             '(the first statements must check/set active_in_thread)')
    if any(_mentions_owner(s) for s in rest):
        raise Untranslatable('active_in_thread is used again after the leading guard statements')
    # nothing else in the class may write the owner (e.g. a reset in close())
    for n in cls.body:
        if isinstance(n, ast.FunctionDef) and n is not init:
            for m in ast.walk(n):
                if isinstance(m, (ast.Assign, ast.AugAssign, ast.AnnAssign, ast.Delete)):
                    tg = m.targets if isinstance(m, (ast.Assign, ast.Delete)) else [m.target]
                    if any(isinstance(x, ast.Attribute) and x.attr == OWNER_ATTR for x in tg):
                        raise Untranslatable(f'line {m.lineno}: {n.name} writes {OWNER_ATTR}; '
                                             'the model has a single writer (the constructor guard)')
    # every way of getting a store object goes through __init__ (and so through the guard): nothing in the module
    # builds instances with __new__, and the three public factories call the class
    for n in ast.walk(mod):
        if (isinstance(n, ast.Attribute) and n.attr == '__new__') or \
                (isinstance(n, ast.FunctionDef) and n.name == '__new__'):
            raise Untranslatable(f'line {n.lineno}: __new__ is used; store objects could be made without the guard')
    for fname in ('create', 'open', 'append'):
        fac = next((n for n in cls.body if isinstance(n, ast.FunctionDef) and n.name == fname), None)
        if fac is None or not any(isinstance(c, ast.Call) and isinstance(c.func, ast.Name) and c.func.id == 'cls'
                                  for c in ast.walk(fac)):
            raise Untranslatable(f'TrajectoryStore.{fname} does not construct the store by calling cls(...)')
    tr = _Tr(lock_attrs)
    term = tr.block(guard)
    if len(tr.identities) != 1:
        raise Untranslatable(f'the guard must identify threads in one way, found {sorted(tr.identities)}')
    as_coded = '[GIfNone [GSet] [GIfNeq [GRaise]]]'
    variant = 'as_coded' if term == as_coded else 'locked' if term == f'[GWith {as_coded}]' else 'other'
    return Guard(coq_term=term, variant=variant, identity=next(iter(tr.identities)),
                 lock_attrs=sorted(set(tr.used_locks)), first_line=guard[0].lineno,
                 last_line=guard[-1].end_lineno or guard[-1].lineno, stmt_of_line=tr.table,
                 source='\n'.join(src.splitlines()[guard[0].lineno - 1:(guard[-1].end_lineno or guard[-1].lineno)]))


def coq_text(g: Guard) -> str:
    return ('(* generated by translator/c20_extract.py from src/AEIC/trajectories/store.py — do not edit *)\n'
            'From Coq Require Import List.\nFrom AV Require Import model.C20_Model.\nImport ListNotations.\n\n'
            f'(* guard statements, source lines {g.first_line}-{g.last_line} *)\n'
            f'Definition guard : list gstmt := {g.coq_term}.\n')

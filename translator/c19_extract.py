"""C19 extractor — regenerates the numeric text of the BADA-3 engine models and of the point-wise part of
Bada3FuelBurnModel from the current source (BADA/model.py, utils/standard_atmosphere.py, constants.py,
units.py), on top of `py2coq.NumModule`:

  * `self.aircraft_parameters.X` and `self.aircraft_parameters['X']` become the projection `(p_X P)` of the
    model's parameter record (`C19_Model.params`);
  * calls of sibling methods (`self.calculate_cl(...)`, `self.engine_model.calculate_max_climb_thrust(...)`)
    become calls of the corresponding generated definitions, with the engine type `E` and the parameter
    record `P` threaded through;  the engine-type dispatch of `create_engine_model` is checked and emitted;
  * `np.clip(x, lo, hi)` = min(max(x, lo), hi).

Shape-specific, fail-closed checks (not translated, only recognised): the `np.divide(..., where=fuel_flow != 0)`
of calculate_specific_ground_range, the two mass-update methods of fuel_burn_base.py, and the statement that
installs the new initial mass in the two fuel-dependent drivers (overwrite = F18, or shift of the whole vector).
"""

from __future__ import annotations

import ast
from pathlib import Path

from translator.py2coq import NumModule, Untranslatable, dump, find_function, strip_doc

PARAMS = ['c_f1', 'c_f2', 'c_fcr', 'c_d0cr', 'c_d2cr', 'S_ref', 'c_tc1', 'c_tc2', 'c_tc3', 'c_tc4', 'c_tc5',
          'c_tcr', 'c_tdes_low', 'c_tdes_high', 'h_p_des']


class BadaModule(NumModule):
    def __init__(self, name):
        super().__init__(name)
        self.calls: dict[str, tuple[str, str]] = {}     # python callee text -> (coq name, prefix args)

    def expr(self, n, env, where=''):
        if isinstance(n, ast.Attribute) and ast.unparse(n.value) == 'self.aircraft_parameters':
            return self._param(n.attr, where)
        if isinstance(n, ast.Subscript) and ast.unparse(n.value) == 'self.aircraft_parameters' \
                and isinstance(n.slice, ast.Constant) and isinstance(n.slice.value, str):
            return self._param(n.slice.value, where)
        if isinstance(n, ast.Call):
            f = ast.unparse(n.func)
            if f in self.calls:
                if n.keywords:
                    raise Untranslatable(f'{where}: keyword arguments in {f}')
                name, prefix = self.calls[f]
                return '(' + ' '.join([name, prefix] + [self.expr(a, env, where) for a in n.args]).replace('  ', ' ') + ')'
            if f == 'np.clip' and len(n.args) == 3 and not n.keywords:
                a, lo, hi = (self.expr(x, env, where) for x in n.args)
                return f'(nmin (nmax {a} {lo}) {hi})'
        return super().expr(n, env, where)

    def _param(self, name, where):
        if name not in PARAMS:
            raise Untranslatable(f'{where}: aircraft parameter {name} is not part of the model record')
        return f'(p_{name} P)'

    def method(self, path, cls, fname, coq_name, prefix='(P : params N)', bool_params=None):
        self.function(path, fname, cls=cls, coq_name=coq_name, bool_params=bool_params or [])
        d = self.defs[-1]
        head = f'Definition {coq_name} '
        assert d.startswith(head)
        self.defs[-1] = head + prefix + ' ' + d[len(head):]


def _same(node, text):
    return dump(node) == dump(ast.parse(text).body[0])


def extract_flags(repo: Path) -> dict:
    """Shape recognition only (independent of the numeric translation): calculate_specific_ground_range, the two
    mass updates, and how the fuel-dependent drivers install the new initial mass."""
    src = Path(repo) / 'src/AEIC'
    m = BadaModule('C19_Flags')
    model = src / 'BADA/model.py'
    # --- recognised shapes ---
    mod = m._src(model)
    sgr = find_function(mod, 'calculate_specific_ground_range', cls='Bada3FuelBurnModel')
    body = strip_doc(sgr.body)
    want_sgr = [
        'thrust = self.calculate_thrust(mass, temperature, altitude, v_tas, rocd, acceleration, in_cruise)',
        'fuel_flow = self.engine_model.calculate_nominal_fuel_flow(thrust, v_tas)',
        'fuel_flow_cruise = self.engine_model.calculate_cruise_fuel_flow(thrust, v_tas)',
        'fuel_flow = np.where(in_cruise, fuel_flow_cruise, fuel_flow)',
        'return np.divide(groundspeed, fuel_flow, out=np.zeros_like(groundspeed), where=fuel_flow != 0)',
    ]
    if len(body) != len(want_sgr) or not all(_same(b, w) for b, w in zip(body, want_sgr)):
        raise Untranslatable('model.py:calculate_specific_ground_range: body changed: ' + ast.unparse(sgr)[-400:])
    base = src / 'BADA/fuel_burn_base.py'
    bmod = m._src(base)
    fwd = strip_doc(find_function(bmod, 'update_mass_vector', cls='BaseFuelBurnModel').body)
    want_fwd = [
        'specific_ground_range_corrected = np.where(specific_ground_range < 1, np.inf, specific_ground_range)',
        'mass[1:] = mass[0] - cumulative_trapezoid(1 / specific_ground_range_corrected, dx=segment_distance)',
        'return mass',
    ]
    if len(fwd) != 3 or not all(_same(b, w) for b, w in zip(fwd, want_fwd)):
        raise Untranslatable('fuel_burn_base.py:update_mass_vector: body changed')
    bwd = strip_doc(find_function(bmod, 'update_mass_vector_backward', cls='BaseFuelBurnModel').body)
    flags = {}
    if len(bwd) == 4 and _same(bwd[0], want_fwd[0]) and _same(bwd[2], 'mass[:-1] = mass[-1] + cumulative_integral') \
            and _same(bwd[3], 'return mass'):
        as_coded = 'cumulative_integral = cumulative_trapezoid(1 / specific_ground_range_corrected[::-1], dx=segment_distance)[::-1]'
        repaired = ('cumulative_integral = cumulative_trapezoid(1 / specific_ground_range_corrected[::-1], '
                    'dx=np.flip(segment_distance))[::-1]')
        if _same(bwd[1], as_coded):
            flags['backward_dx_reversed'] = False
        elif _same(bwd[1], repaired):
            flags['backward_dx_reversed'] = True
        else:
            raise Untranslatable('fuel_burn_base.py:update_mass_vector_backward: integral statement changed: '
                                 + ast.unparse(bwd[1]))
    else:
        raise Untranslatable('fuel_burn_base.py:update_mass_vector_backward: body changed')
    # fuel-dependent drivers: how the new initial mass is installed
    mod = m._src(model)
    for drv in ('iterate_flight_simulation_fuel_burn_dependent_initial_mass_rf_fraction',
                'iterate_flight_simulation_fuel_burn_dependent_initial_mass_rf_value'):
        fn = find_function(mod, drv, cls='Bada3FuelBurnModel')
        loops = [s for s in strip_doc(fn.body) if isinstance(s, ast.For)]
        if len(loops) != 1:
            raise Untranslatable(f'model.py:{drv}: expected one loop')
        stm = loops[0].body
        idx = [i for i, s in enumerate(stm) if isinstance(s, ast.Assign) and ast.unparse(s.targets[0]) == 'initial_mass']
        if len(idx) != 1:
            raise Untranslatable(f'model.py:{drv}: initial_mass assignment not found')
        after = stm[idx[0] + 1:]
        if after and _same(after[0], 'mass[0] = initial_mass'):
            kind = False
        elif len(after) >= 2 and _same(after[0], 'mass[1:] += initial_mass - mass[0]') and _same(after[1], 'mass[0] = initial_mass'):
            kind = True
        else:
            raise Untranslatable(f'model.py:{drv}: statement installing the new initial mass changed: '
                                 + ast.unparse(after[0])[:120] if after else 'missing')
        if flags.setdefault('shift_whole_vector', kind) != kind:
            raise Untranslatable('model.py: the two fuel-dependent drivers install the initial mass differently')
    # piston fuel flow: C_f1 as it is (kg/min, as coded before FC19b) or converted to kg/s
    forms = {'calculate_nominal_fuel_flow': {'self.aircraft_parameters.c_f1': False,
                                             'self.aircraft_parameters.c_f1 / 60': True},
             'calculate_cruise_fuel_flow': {'self.aircraft_parameters.c_f1 * self.aircraft_parameters.c_fcr': False,
                                            'self.aircraft_parameters.c_f1 / 60 * self.aircraft_parameters.c_fcr': True}}
    kinds = set()
    for meth, table in forms.items():
        body = strip_doc(find_function(mod, meth, cls='Bada3PistonEngineModel').body)
        if len(body) != 1 or not isinstance(body[0], ast.Return) or ast.unparse(body[0].value) not in table:
            raise Untranslatable(f'model.py:Bada3PistonEngineModel.{meth}: unrecognised form: '
                                 + ast.unparse(body[-1])[:120])
        kinds.add(table[ast.unparse(body[0].value)])
    if len(kinds) != 1:
        raise Untranslatable('model.py:Bada3PistonEngineModel: nominal and cruise flow use different units')
    flags['piston_per_second'] = kinds.pop()
    return flags


def extract_c19(repo: Path) -> tuple[str, dict]:
    src = Path(repo) / 'src/AEIC'
    m = BadaModule('C19_Extracted')
    m.constants(src / 'constants.py', ['p0', 'T0', 'g0', 'R_air'], prefix='k_')
    m.constants(src / 'units.py', ['METERS_TO_FEET', 'KNOTS_TO_MPS', 'MPS_TO_KNOTS'], prefix='k_')
    isa = src / 'utils/standard_atmosphere.py'
    m.constants(isa, ['beta_tropo', 'h_p_tropo'], prefix='k_')
    m.function(isa, 'temperature_at_altitude_isa_bada4', coq_name='isa_temperature')
    m.function(isa, 'pressure_at_altitude_isa_bada4', coq_name='isa_pressure')
    m.function(isa, 'calculate_air_density', coq_name='air_density')
    model = src / 'BADA/model.py'
    E = '(P : params N)'
    # --- engine models ---
    for cls, pre in (('Bada3JetEngineModel', 'jet'), ('Bada3TurbopropEngineModel', 'tp')):
        m.method(model, cls, 'calculate_specific_fuel_consumption', f'{pre}_sfc')
        m.calls['self.calculate_specific_fuel_consumption'] = (f'{pre}_sfc', 'P')
        m.method(model, cls, 'calculate_nominal_fuel_flow', f'{pre}_nominal_fuel_flow')
        m.method(model, cls, 'calculate_cruise_fuel_flow', f'{pre}_cruise_fuel_flow')
        m.method(model, cls, 'calculate_max_climb_thrust_isa', f'{pre}_max_climb_thrust_isa')
    del m.calls['self.calculate_specific_fuel_consumption']
    m.method(model, 'Bada3PistonEngineModel', 'calculate_nominal_fuel_flow', 'piston_nominal_fuel_flow')
    m.method(model, 'Bada3PistonEngineModel', 'calculate_cruise_fuel_flow', 'piston_cruise_fuel_flow')
    m.method(model, 'Bada3PistonEngineModel', 'calculate_max_climb_thrust_isa', 'piston_max_climb_thrust_isa')
    # --- dispatch (create_engine_model) ---
    mod = m._src(model)
    cem = find_function(mod, 'create_engine_model', cls='Bada3FuelBurnModel')
    want = {'Jet': 'Bada3JetEngineModel', 'Turboprop': 'Bada3TurbopropEngineModel', 'Piston': 'Bada3PistonEngineModel'}
    found = {}
    for n in ast.walk(cem):
        if isinstance(n, ast.If) and isinstance(n.test, ast.Compare) and len(n.test.comparators) == 1 \
                and isinstance(n.test.ops[0], ast.Eq) and isinstance(n.test.comparators[0], ast.Constant) \
                and ast.unparse(n.test.left) == 'engine_type' and len(n.body) == 1 and isinstance(n.body[0], ast.Assign) \
                and ast.unparse(n.body[0].targets[0]) == 'self.engine_model' and isinstance(n.body[0].value, ast.Call):
            found[n.test.comparators[0].value] = ast.unparse(n.body[0].value.func)
    if found != want:
        raise Untranslatable(f'model.py:create_engine_model: engine dispatch changed: {found}')
    for fn in ('nominal_fuel_flow', 'cruise_fuel_flow'):
        m.raw(f'Definition {fn} (E : engine) (P : params N) (v_thrust v_v_tas : T N) : T N :=\n'
              f'  match E with Jet => jet_{fn} P v_thrust v_v_tas | Turboprop => tp_{fn} P v_thrust v_v_tas\n'
              f'             | Piston => piston_{fn} P v_thrust v_v_tas end.')
    m.raw('Definition max_climb_thrust_isa (E : engine) (P : params N) (v_altitude v_v_tas : T N) : T N :=\n'
          '  match E with Jet => jet_max_climb_thrust_isa P v_altitude v_v_tas\n'
          '             | Turboprop => tp_max_climb_thrust_isa P v_altitude v_v_tas\n'
          '             | Piston => piston_max_climb_thrust_isa P v_altitude v_v_tas end.')
    # --- base engine model ---
    EP = '(E : engine) (P : params N)'
    m.calls['self.calculate_max_climb_thrust_isa'] = ('max_climb_thrust_isa', 'E P')
    m.method(model, 'Bada3EngineModel', 'calculate_max_climb_thrust', 'max_climb_thrust', EP)
    m.calls['self.calculate_max_climb_thrust'] = ('max_climb_thrust', 'E P')
    m.method(model, 'Bada3EngineModel', 'calculate_max_cruise_thrust', 'max_cruise_thrust', EP)
    m.method(model, 'Bada3EngineModel', 'calculate_descent_thrust_high', 'descent_thrust_high', EP)
    m.method(model, 'Bada3EngineModel', 'calculate_descent_thrust_low', 'descent_thrust_low', EP)
    # --- fuel burn model, point-wise part ---
    m.method(model, 'Bada3FuelBurnModel', 'calculate_cl', 'calc_cl', E)
    m.method(model, 'Bada3FuelBurnModel', 'calculate_cd', 'calc_cd', E)
    m.method(model, 'Bada3FuelBurnModel', 'calculate_drag', 'calc_drag', E)
    m.method(model, 'Bada3FuelBurnModel', 'calculate_thrust_by_total_energy', 'thrust_total_energy', E)
    m.calls.update({
        'self.calculate_cl': ('calc_cl', 'P'), 'self.calculate_cd': ('calc_cd', 'P'),
        'self.calculate_drag': ('calc_drag', 'P'), 'self.calculate_thrust_by_total_energy': ('thrust_total_energy', 'P'),
        'self.engine_model.calculate_max_climb_thrust': ('max_climb_thrust', 'E P'),
        'self.engine_model.calculate_max_cruise_thrust': ('max_cruise_thrust', 'E P'),
        'self.engine_model.calculate_descent_thrust_high': ('descent_thrust_high', 'E P'),
        'self.engine_model.calculate_descent_thrust_low': ('descent_thrust_low', 'E P'),
    })
    m.known['pressure_at_altitude_isa_bada4'] = 1
    m.known['calculate_air_density'] = 2
    m.method(model, 'Bada3FuelBurnModel', 'calculate_thrust', 'calc_thrust', EP, bool_params=['in_cruise'])

    flags = extract_flags(repo)
    # piston flow unit (kg/min in the OPF file): recognised forms
    text = ('(* generated by translator/c19_extract.py from the current /repo working tree — do not edit *)\n'
            'From Coq Require Import ZArith PrimFloat Bool.\nFrom AV Require Import lib.Num model.C19_Model.\n'
            'Section Gen.\nContext {N : Num}.\nLocal Open Scope num_scope.\nLocal Open Scope bool_scope.\n\n'
            + '\n\n'.join(m.defs) + '\n\n'
            f'Definition backward_dx_reversed : bool := {"true" if flags["backward_dx_reversed"] else "false"}.\n'
            f'Definition shift_whole_vector : bool := {"true" if flags["shift_whole_vector"] else "false"}.\n'
            f'Definition piston_per_second : bool := {"true" if flags["piston_per_second"] else "false"}.\n'
            'End Gen.\n')
    return text, flags


if __name__ == '__main__':
    import sys
    t, f = extract_c19(Path(sys.argv[1] if len(sys.argv) > 1 else '/repo'))
    print(t)
    print(f, file=sys.stderr)

"""C12 extractor — regenerates Gallina text (over `Num`) from the emission-index / atmosphere kernels of
/repo's current working tree.  Built on translator/py2coq.py:NumModule (imported, not edited).

What is regenerated on every run (module Gen.C12_Extracted):

  constants.py                      p0 a0 T0 rho0 g0 kappa R_air R_E
  utils/standard_atmosphere.py      beta_tropo h_p_tropo + the three ISA functions (pointwise)
  emissions/ei/sox.py               MW_SO2 MW_SO4 MW_S, EI_SOx (whole function)
  emissions/utils.py                get_SLS_equivalent_fuel_flow (whole function + its default arguments),
                                    get_thrust_cat_cruise (thresholds and the np.select decision, whole function)
  emissions/ei/nox.py               NOx_speciation (whole function, 3 x 4 fractions);
                                    BFFM2_EINOx: the two clamps `a[a <= 0] = 1e-2`, the evaluation of the
                                    log-log line, the ambient (humidity) correction Eq. 44-45 (statement slices)
  emissions/ei/hcco.py              EI_HCCO: ACRP_slope and the cruise correction factor (statement slices)
  emissions/ei/pmvol.py             EI_PMvol_FuelFlow (whole function, pointwise), EI_PMvol_FOA3 (whole function,
                                    node table + np.interp + formula, pointwise)
  emissions/ei/pmnvol.py            calculate_PMnvolEI_scope11: the per-mode loop body (AFR table, skip rule,
                                    SN cap, C_BC, k_slm, Q, mg->g), shape-checked

Everything outside the subset raises py2coq.Untranslatable (fail closed).  Extensions over NumModule
(all pointwise readings of elementwise numpy code):

  x[ThrustMode.M]                   -> scalar parameter x_<m>           (ThrustModeValues parameters)
  a[a <= 0] = v                     -> let a' := if a <= 0 then v else a
  X.copy(), np.full_like(a, v, dtype=float)      -> X, v
  np.array([..], dtype=float)       -> Gallina list ; np.interp(x, xs, ys) -> ninterp x (combine xs ys)
  ThrustModeValues(a, b, c, d)      -> (a, b, c, d)
  a, b, c = x, y, z                 -> sequential lets
  m == ThrustMode.M                 -> mode_eqb ;  s == 'MTF' -> String.eqb
  ThrustModeArray(np.select([c1, c2], [M1, M2], default=M3)) -> if c1 then M1 else if c2 then M2 else M3
"""

from __future__ import annotations

import ast
from pathlib import Path

from translator import py2coq
from translator.py2coq import Untranslatable, find_function, lit_text, strip_doc

MODES = {'IDLE': 'Idle', 'APPROACH': 'Approach', 'CLIMB': 'Climb', 'TAKEOFF': 'Takeoff'}


def _mode_const(n):
    """ThrustMode.X -> 'X' or None"""
    if isinstance(n, ast.Attribute) and isinstance(n.value, ast.Name) and n.value.id == 'ThrustMode' \
            and n.attr in MODES:
        return n.attr
    return None


class C12Module(py2coq.NumModule):

    def __init__(self, name):
        super().__init__(name)
        self.lists: dict[str, str] = {}

    # ---- expressions ---------------------------------------------------------
    def expr(self, n, env, where=''):
        E = lambda x: self.expr(x, env, where)  # noqa: E731
        if isinstance(n, ast.Subscript) and isinstance(n.value, ast.Name):
            m = _mode_const(n.slice)
            if m is not None:
                key = f'{n.value.id}[{m}]'
                if key in env:
                    return env[key]
                raise Untranslatable(f'{where}: {key} is not a declared ThrustModeValues parameter')
            if isinstance(n.slice, ast.Name) and f'{n.value.id}[{n.slice.id}]' in env:
                return env[f'{n.value.id}[{n.slice.id}]']
        if isinstance(n, ast.Call):
            f = n.func
            if isinstance(f, ast.Attribute) and f.attr == 'copy' and not n.args and not n.keywords:
                return E(f.value)
            is_np = isinstance(f, ast.Attribute) and isinstance(f.value, ast.Name) and f.value.id == 'np'
            kw = {k.arg: k.value for k in n.keywords}
            float_kw = (not kw) or (list(kw) == ['dtype'] and isinstance(kw['dtype'], ast.Name)
                                    and kw['dtype'].id == 'float')
            if is_np and f.attr == 'full_like' and len(n.args) == 2 and float_kw:
                return E(n.args[1])
            if is_np and f.attr == 'array' and len(n.args) == 1 and isinstance(n.args[0], ast.List) and float_kw:
                return '[' + '; '.join(E(x) for x in n.args[0].elts) + ']'
            if is_np and f.attr == 'interp' and len(n.args) == 3 and not kw:
                xs, ys = n.args[1], n.args[2]
                if not (isinstance(xs, ast.Name) and isinstance(ys, ast.Name)
                        and env.get(xs.id, '').startswith('(*l*)') and env.get(ys.id, '').startswith('(*l*)')):
                    raise Untranslatable(f'{where}: np.interp over non-literal node tables')
                return f'(ninterp {E(n.args[0])} (combine {env[xs.id][5:]} {env[ys.id][5:]}))'
            if isinstance(f, ast.Name) and f.id == 'ThrustModeValues' and len(n.args) == 4 and not n.keywords:
                return '(' + ', '.join(E(x) for x in n.args) + ')'
        if isinstance(n, ast.Attribute) and isinstance(n.value, ast.Name) and n.value.id in ('np', 'math') \
                and n.attr == 'pi':
            return lit_text('3.141592653589793')          # the binary64 of numpy.pi, written out
        if isinstance(n, ast.Name) and n.id in env and env[n.id][:5] in ('(*l*)', '(*m*)', '(*s*)'):
            raise Untranslatable(f'{where}: {n.id} used in numeric position')
        return super().expr(n, env, where)

    def bexpr(self, n, env, where=''):
        if isinstance(n, ast.Compare) and len(n.ops) == 1 and isinstance(n.ops[0], (ast.Eq, ast.NotEq)):
            left, right = n.left, n.comparators[0]
            neg = isinstance(n.ops[0], ast.NotEq)
            m = _mode_const(right)
            if m is not None:
                try:
                    key = left.id if isinstance(left, ast.Name) else self._attr_key(left)
                except Untranslatable:
                    key = None
                if key in env and env[key].startswith('(*m*)'):
                    t = f'(mode_eqb {env[key][5:]} {MODES[m]})'
                    return f'(negb {t})' if neg else t
                raise Untranslatable(f'{where}: comparison of a non-mode with ThrustMode.{m}')
            try:
                lkey = left.id if isinstance(left, ast.Name) else self._attr_key(left)
            except Untranslatable:
                lkey = None
            if lkey is not None and env.get(lkey, '').startswith('(*s*)') \
                    and isinstance(right, ast.Constant) and isinstance(right.value, str) and '"' not in right.value:
                t = f'(String.eqb {env[lkey][5:]} "{right.value}")'
                return f'(negb {t})' if neg else t
        return super().bexpr(n, env, where)

    # ---- statements ----------------------------------------------------------
    def block(self, stmts, env, where, guards, skip_guards, result_fields, indent='  '):
        if stmts:
            st, rest = stmts[0], stmts[1:]
            nxt = lambda e: self.block(rest, e, where, guards, skip_guards, result_fields, indent)  # noqa: E731
            # a, b, c = x, y, z
            if isinstance(st, ast.Assign) and len(st.targets) == 1 and isinstance(st.targets[0], ast.Tuple) \
                    and isinstance(st.value, ast.Tuple) and len(st.value.elts) == len(st.targets[0].elts) \
                    and all(isinstance(t, ast.Name) for t in st.targets[0].elts):
                vals = [self.expr(v, env, where) for v in st.value.elts]      # all evaluated before any binding
                env = dict(env)
                out = ''
                for t, v in zip(st.targets[0].elts, vals):
                    nv = self._fresh(t.id, env)
                    env[t.id] = nv
                    out += f'{indent}let {nv} := {v} in\n'
                return out + nxt(env)
            # a[<cond on a>] = v      (elementwise masked assignment)
            if isinstance(st, ast.Assign) and len(st.targets) == 1 and isinstance(st.targets[0], ast.Subscript) \
                    and isinstance(st.targets[0].value, ast.Name) and isinstance(st.targets[0].slice, ast.Compare):
                a = st.targets[0].value.id
                names = {x.id for x in ast.walk(st.targets[0].slice) if isinstance(x, ast.Name)}
                if names != {a} or a not in env:
                    raise Untranslatable(f'{where}: masked assignment {ast.unparse(st)[:60]}')
                c = self.bexpr(st.targets[0].slice, env, where)
                v = self.expr(st.value, env, where)
                old = env[a]
                env = dict(env)
                nv = self._fresh(a, env)
                env[a] = nv
                return f'{indent}let {nv} := (if {c} then {v} else {old}) in\n' + nxt(env)
            # name = np.array([...], dtype=float)   (node table)
            if isinstance(st, ast.Assign) and len(st.targets) == 1 and isinstance(st.targets[0], ast.Name) \
                    and isinstance(st.value, ast.Call) and isinstance(st.value.func, ast.Attribute) \
                    and st.value.func.attr == 'array' and st.value.args and isinstance(st.value.args[0], ast.List):
                e = self.expr(st.value, env, where)
                env = dict(env)
                nv = self._fresh(st.targets[0].id, env)
                env[st.targets[0].id] = f'(*l*){nv}'
                return f'{indent}let {nv} := {e} in\n' + nxt(env)
            # if / elif / else chain of plain assignments (no returns): nested conditional expression
            if isinstance(st, ast.If) and len(st.orelse) == 1 and isinstance(st.orelse[0], ast.If) \
                    and not self._returns(st.body):
                vs = sorted(self._chain_assigned(st))
                for v in vs:
                    if v not in env:
                        raise Untranslatable(f'{where}: {v} must be defined before an if/elif chain assigns it')
                e = self._chain_expr(st, env, where, vs, indent + '  ')
                env = dict(env)
                news = []
                for v in vs:
                    nv = self._fresh(v, env)
                    env[v] = nv
                    news.append(nv)
                pat = ("'(" + ', '.join(news) + ')') if len(news) > 1 else news[0]
                return f'{indent}let {pat} := (\n{e}) in\n' + nxt(env)
        return super().block(stmts, env, where, guards, skip_guards, result_fields, indent)

    def _chain_assigned(self, st):
        out = set(self._assigned(st.body))
        if len(st.orelse) == 1 and isinstance(st.orelse[0], ast.If):
            out |= self._chain_assigned(st.orelse[0])
        else:
            out |= set(self._assigned(st.orelse))
        return out

    def _chain_expr(self, st, env, where, vs, indent):
        tup = lambda e2: ('(' + ', '.join(e2[v] for v in vs) + ')') if len(vs) > 1 else e2[vs[0]]  # noqa: E731
        test = self.bexpr(st.test, env, where)
        th = self._branch_lets(st.body, env, where, indent + '  ', tup)
        if len(st.orelse) == 1 and isinstance(st.orelse[0], ast.If):
            el = self._chain_expr(st.orelse[0], env, where, vs, indent + '  ')
        else:
            el = self._branch_lets(st.orelse, env, where, indent + '  ', tup)
        return f'{indent}if {test} then\n{th}\n{indent}else\n{el}'

    def ret(self, v, env, where, result_fields):
        # ThrustModeArray(np.select([c1, ...], [M1, ...], default=M))
        if isinstance(v, ast.Call) and isinstance(v.func, ast.Name) and v.func.id == 'ThrustModeArray' \
                and len(v.args) == 1 and not v.keywords:
            s = v.args[0]
            if isinstance(s, ast.Call) and isinstance(s.func, ast.Attribute) and s.func.attr == 'select' \
                    and len(s.args) == 2 and all(isinstance(a, ast.List) for a in s.args) \
                    and [k.arg for k in s.keywords] == ['default'] and len(s.args[0].elts) == len(s.args[1].elts):
                conds = [self.bexpr(c, env, where) for c in s.args[0].elts]
                ch = [_mode_const(c) for c in s.args[1].elts] + [_mode_const(s.keywords[0].value)]
                if any(c is None for c in ch):
                    raise Untranslatable(f'{where}: np.select choices must be ThrustMode constants')
                out = MODES[ch[-1]]
                for c, m in reversed(list(zip(conds, ch[:-1]))):      # first true condition wins
                    out = f'(if {c} then {MODES[m]} else {out})'
                return out
            raise Untranslatable(f'{where}: ThrustModeArray(...) shape')
        return super().ret(v, env, where, result_fields)

    # ---- functions with typed parameters / statement slices --------------------
    def _bind(self, spec, where):
        """spec: list of (python name, kind) ; kind in num | tmv | mode | str | attrs:<a,b> | modeattr:<a>"""
        env, sig = {}, []
        flat = [(p, k1) for p, kind in spec for k1 in kind.split(';')]
        for p, kind in flat:
            if kind == 'num':
                env[p] = self._cid(p, 'v_')
                sig.append(f'({env[p]} : T N)')
            elif kind == 'tmv':
                for m in MODES:
                    env[f'{p}[{m}]'] = f'{p}_{m.lower()}'
                    sig.append(f'({p}_{m.lower()} : T N)')
            elif kind == 'mode':
                env[p] = f'(*m*){p}'
                sig.append(f'({p} : mode)')
            elif kind == 'str':
                env[p] = f'(*s*){p}'
                sig.append(f'({p} : string)')
            elif kind.startswith('attrs:'):
                for a in kind[6:].split(','):
                    env[f'{p}.{a}'] = f'{p}_{a}'
                    sig.append(f'({p}_{a} : T N)')
            elif kind.startswith('strattr:'):
                a = kind[8:]
                env[f'{p}.{a}'] = f'(*s*){p}_{a}'
                sig.append(f'({p}_{a} : string)')
            elif kind.startswith('modeattr:'):
                a = kind[9:]
                env[f'{p}.{a}'] = f'(*m*){p}_{a}'
                sig.append(f'({p}_{a} : mode)')
            else:
                raise Untranslatable(f'{where}: parameter kind {kind}')
        return env, sig

    def function_ex(self, path, fname, spec, coq_name=None, result_fields=None, rtype=None):
        mod = self._src(path)
        fn = find_function(mod, fname)
        where = f'{Path(path).name}:{fname}'
        allp = [a.arg for a in fn.args.args]
        if fn.args.vararg or fn.args.kwarg or fn.args.kwonlyargs:
            raise Untranslatable(f'{where}: *args/**kwargs')
        if allp != [p for p, _ in spec]:
            raise Untranslatable(f'{where}: parameters {allp} != expected {[p for p, _ in spec]}')
        env, sig = self._bind(spec, where)
        guards: list[str] = []
        body = self.block(strip_doc(fn.body), env, where, guards, True, result_fields)
        c = coq_name or self._cid(fname)
        ty = f' : {rtype}' if rtype else ''
        self.defs.append(f'Definition {c} {" ".join(sig)}{ty} :=\n{body}.')
        self.coqname[fname] = c
        return fn

    def defaults(self, path, fname, names, prefix):
        """Default argument values of `fname` as constants <prefix><name>."""
        mod = self._src(path)
        fn = find_function(mod, fname)
        args = fn.args.args
        dflt = dict(zip([a.arg for a in args[len(args) - len(fn.args.defaults):]], fn.args.defaults))
        for nme in names:
            if nme not in dflt:
                raise Untranslatable(f'{Path(path).name}:{fname}: no default for {nme}')
            e = self.expr(dflt[nme], {}, f'{fname}:{nme}')
            self.defs.append(f'Definition {prefix}{nme} : T N := {e}.')

    def slice_fn(self, path, fname, coq_name, spec, first, last, output=None, rtype=None, body_of=None):
        """Translate the top-level statements of `fname` from the first assignment to `first` through the
        next assignment to `last` as a function of `spec` returning `output` (default `last`)."""
        mod = self._src(path)
        fn = find_function(mod, fname)
        where = f'{Path(path).name}:{fname}[{first}..{last}]'
        body = strip_doc(fn.body)
        if body_of is not None:      # the statements of the top-level `if <body_of>:` block
            blocks = [st for st in body if isinstance(st, ast.If) and ast.unparse(st.test) == body_of and not st.orelse]
            if len(blocks) != 1:
                raise Untranslatable(f'{where}: expected exactly one `if {body_of}:` block')
            body = blocks[0].body

        def tgt(s):
            if isinstance(s, ast.Assign) and len(s.targets) == 1:
                t = s.targets[0]
                if isinstance(t, ast.Name):
                    return t.id
                if isinstance(t, ast.Subscript) and isinstance(t.value, ast.Name):
                    return t.value.id + '[]'
            return None
        i0 = next((i for i, s in enumerate(body) if tgt(s) == first), None)
        if i0 is None:
            raise Untranslatable(f'{where}: no assignment to {first}')
        i1 = next((i for i in range(i0, len(body)) if tgt(body[i]) == last), None)
        if i1 is None:
            raise Untranslatable(f'{where}: no assignment to {last} after {first}')
        env, sig = self._bind(spec, where)
        out = (output or last).rstrip('[]')
        retn = ast.Return(value=ast.Name(id=out, ctx=ast.Load()))
        text = self.block(body[i0:i1 + 1] + [retn], env, where, [], True, None)
        ty = f' : {rtype}' if rtype else ''
        self.defs.append(f'Definition {coq_name} {" ".join(sig)}{ty} :=\n{text}.')

    def list_consts(self, path, fname, target, coq_prefix, expect):
        """Every assignment `target = np.array([...])` inside `fname` (nested functions included), in source
        order, as Definition <coq_prefix>_<i> : list (T N)."""
        mod = self._src(path)
        fn = find_function(mod, fname)
        where = f'{Path(path).name}:{fname}:{target}'
        found = sorted((n for n in ast.walk(fn) if isinstance(n, ast.Assign) and len(n.targets) == 1
                        and isinstance(n.targets[0], ast.Name) and n.targets[0].id == target),
                       key=lambda n: n.lineno)
        if len(found) != expect:
            raise Untranslatable(f'{where}: expected {expect} assignments, found {len(found)}')
        for i, n in enumerate(found):
            e = self.expr(n.value, {}, where)
            if not e.startswith('['):
                raise Untranslatable(f'{where}: not a literal array')
            nme = coq_prefix if expect == 1 else f'{coq_prefix}_{i}'
            self.defs.append(f'Definition {nme} : list (T N) := {e}.')

    def text(self) -> str:
        return ('(* generated by translator/c12_extract.py from the current /repo working tree — do not edit *)\n'
                'From Coq Require Import ZArith PrimFloat Bool List String.\n'
                'From AV Require Import lib.Num model.C12_Base.\nImport ListNotations.\n'
                'Section Gen.\nContext {N : Num}.\nLocal Open Scope num_scope.\nLocal Open Scope bool_scope.\n\n'
                + '\n\n'.join(self.defs) + '\n\nEnd Gen.\n')


# ---------------------------------------------------------------------------
# SCOPE11: the per-mode loop body
# ---------------------------------------------------------------------------

class _ModeIndex(ast.NodeTransformer):
    """X[mode] -> X_m  (the loop variable indexes per-mode containers)"""

    def __init__(self, var):
        self.var = var

    def visit_Subscript(self, n):
        self.generic_visit(n)
        if isinstance(n.value, ast.Name) and isinstance(n.slice, ast.Name) and n.slice.id == self.var:
            return ast.copy_location(ast.Name(id=n.value.id + '_m', ctx=n.ctx), n)
        return n


def extract_scope11(m: C12Module, path: Path):
    """Skeleton required of calculate_PMnvolEI_scope11 (anything else fails closed):

        AFR = ThrustModeValues(a, b, c, d)
        CI_best = ThrustModeValues(0.0, mutable=True) ; Q = ThrustModeValues(0.0, mutable=True)
        for mode in ThrustMode:
            SN = SN_matrix[mode]
            if <skip condition on SN>: continue
            <numeric statements assigning CI_best[mode] and Q[mode]>
        PMnvolEI_best = CI_best * Q
        profile = PMnvolEI_best / <c>
        profile.freeze()
        return profile

    Emitted: scope11_AFR (4-tuple) and scope11_mode SN AFR_m BP_Ratio engine_type  (one mode's index in g/kg;
    a skipped mode keeps the initial 0.0 * 0.0 / c)."""
    mod = m._src(path)
    fn = find_function(mod, 'calculate_PMnvolEI_scope11')
    where = 'pmnvol.py:calculate_PMnvolEI_scope11'
    if [a.arg for a in fn.args.args] != ['SN_matrix', 'engine_type', 'BP_Ratio']:
        raise Untranslatable(f'{where}: signature')
    body = strip_doc(fn.body)
    if len(body) != 8:
        raise Untranslatable(f'{where}: expected 8 top-level statements, found {len(body)}')
    afr, ci0, q0, loop, prod, prof, frz, ret = body
    d = py2coq.dump
    if not (isinstance(afr, ast.Assign) and d(afr.targets[0]) == d(ast.parse('AFR').body[0].value).replace('Load', 'Store')
            and isinstance(afr.value, ast.Call) and isinstance(afr.value.func, ast.Name)
            and afr.value.func.id == 'ThrustModeValues' and len(afr.value.args) == 4):
        raise Untranslatable(f'{where}: AFR table')
    for st, nme in ((ci0, 'CI_best'), (q0, 'Q')):
        if d(st) != d(ast.parse(f'{nme} = ThrustModeValues(0.0, mutable=True)').body[0]):
            raise Untranslatable(f'{where}: {nme} must start as ThrustModeValues(0.0, mutable=True)')
    if not (isinstance(loop, ast.For) and not loop.orelse and isinstance(loop.target, ast.Name)
            and isinstance(loop.iter, ast.Name) and loop.iter.id == 'ThrustMode'):
        raise Untranslatable(f'{where}: for mode in ThrustMode')
    if d(prod) != d(ast.parse('PMnvolEI_best = CI_best * Q').body[0]):
        raise Untranslatable(f'{where}: PMnvolEI_best = CI_best * Q')
    if not (isinstance(prof, ast.Assign) and isinstance(prof.value, ast.BinOp) and isinstance(prof.value.op, ast.Div)
            and d(prof.value.left) == d(ast.parse('PMnvolEI_best').body[0].value)
            and isinstance(prof.value.right, ast.Constant) and d(prof.targets[0]).startswith("Name('profile'")):
        raise Untranslatable(f'{where}: profile = PMnvolEI_best / <const>')
    if d(frz) != d(ast.parse('profile.freeze()').body[0]) or d(ret) != d(ast.parse('return profile').body[0]):
        raise Untranslatable(f'{where}: tail must be profile.freeze(); return profile')
    var = loop.target.id
    lb = [s for s in loop.body if not (isinstance(s, ast.Expr) and isinstance(s.value, ast.Constant))]
    if len(lb) < 3 or d(lb[0]) != d(ast.parse(f'SN = SN_matrix[{var}]').body[0]):
        raise Untranslatable(f'{where}: loop must start with SN = SN_matrix[mode]')
    skip = lb[1]
    if not (isinstance(skip, ast.If) and not skip.orelse and len(skip.body) == 1 and isinstance(skip.body[0], ast.Continue)):
        raise Untranslatable(f'{where}: second loop statement must be `if <cond>: continue`')
    env = {'SN': 'v_SN', 'AFR_m': 'v_AFR_m', 'BP_Ratio': 'v_BP_Ratio', 'engine_type': '(*s*)engine_type'}
    scale = m.expr(prof.value.right, {}, where)
    zero = lit_text('0.0')
    skipc = m.bexpr(skip.test, env, where)
    rest = [_ModeIndex(var).visit(s) for s in lb[2:]]
    for s in rest:
        ast.fix_missing_locations(s)
    retn = ast.Return(value=ast.BinOp(left=ast.BinOp(left=ast.Name(id='CI_best_m', ctx=ast.Load()), op=ast.Mult(),
                                                      right=ast.Name(id='Q_m', ctx=ast.Load())),
                                      op=ast.Div(), right=prof.value.right))
    # CI_best_m / Q_m are assigned inside if-branches: give them their initial value first
    env2 = dict(env)
    env2['CI_best_m'] = zero
    env2['Q_m'] = zero
    text = m.block(rest + [retn], env2, where, [], True, None, indent='    ')
    afr_t = m.expr(afr.value, {}, where)
    m.defs.append(f'Definition scope11_AFR : T N * T N * T N * T N := {afr_t}.')
    m.defs.append('Definition scope11_mode (v_SN v_AFR_m v_BP_Ratio : T N) (engine_type : string) : T N :=\n'
                  f'  if {skipc} then ({zero} * {zero}) / {scale} else\n{text}.')


# ---------------------------------------------------------------------------
# the whole module
# ---------------------------------------------------------------------------

class _SelfAttr(ast.NodeTransformer):
    """self.x -> self_x"""

    def visit_Attribute(self, n):
        self.generic_visit(n)
        if isinstance(n.value, ast.Name) and n.value.id == 'self':
            return ast.copy_location(ast.Name(id='self_' + n.attr, ctx=n.ctx), n)
        return n


def extract_atmos_state(m: C12Module, path: Path):
    """emissions/types.py:AtmosphericState.__init__(self, altitude, tas): exactly three assignments
    self.temperature / self.pressure / self.mach (any order of use), translated pointwise to
    atmos_state_init altitude tas = (temperature, pressure, mach)."""
    mod = m._src(path)
    fn = find_function(mod, '__init__', cls='AtmosphericState')
    where = 'types.py:AtmosphericState.__init__'
    if [a.arg for a in fn.args.args] != ['self', 'altitude', 'tas']:
        raise Untranslatable(f'{where}: signature')
    body = strip_doc(fn.body)
    tg = []
    for st in body:
        if not (isinstance(st, ast.Assign) and len(st.targets) == 1 and isinstance(st.targets[0], ast.Attribute)
                and isinstance(st.targets[0].value, ast.Name) and st.targets[0].value.id == 'self'):
            raise Untranslatable(f'{where}: statement {ast.unparse(st)[:60]}')
        tg.append(st.targets[0].attr)
    if sorted(tg) != ['mach', 'pressure', 'temperature']:
        raise Untranslatable(f'{where}: assigns {tg}')
    stmts = [_SelfAttr().visit(st) for st in body]
    retn = ast.Return(value=ast.Tuple(elts=[ast.Name(id='self_' + a, ctx=ast.Load())
                                            for a in ('temperature', 'pressure', 'mach')], ctx=ast.Load()))
    env = {'altitude': 'v_altitude', 'tas': 'v_tas'}
    text = m.block(stmts + [retn], env, where, [], True, None)
    m.defs.append(f'Definition atmos_state_init (v_altitude v_tas : T N) : T N * T N * T N :=\n{text}.')


def extract_meem(m: C12Module, path: Path):
    """The elementwise statements of PMnvol_MEEM, one definition per quantity (statement slices)."""
    f = 'PMnvol_MEEM'
    N = 'num'
    m.list_consts(path, f, 'GMD_mode', 'meem_GMD_mode', 1)
    m.list_consts(path, f, 'AFR_mode', 'meem_AFR_mode', 1)
    m.list_consts(path, f, 'tgrid', 'meem_tgrid', 3)
    m.list_consts(path, f, 't_GMD', 'meem_t_GMD', 1)
    m.slice_fn(path, f, 'meem_recon_mass', [('SN', N), ('AFR_mode', N), ('EDB_data', 'attrs:BP_Ratio;strattr:engine_type')],
               'CI_mass', 'EI_mass_mode', body_of='np.min(EI_mass_mode) < 0', rtype='T N')
    m.slice_fn(path, f, 'meem_recon_num', [('EI_mass_mode', N), ('GMD_mode', N)], 'EI_num_mode', 'EI_num_mode',
               body_of='np.min(EI_num_mode) < 0', rtype='T N')
    m.slice_fn(path, f, 'meem_eta', [('alt_rate', N)], 'eta_comp', 'eta_comp', rtype='T N')
    m.slice_fn(path, f, 'meem_lin', [('altitudes', N), ('max_alt', N)], 'lin_vary_alt', 'lin_vary_alt', rtype='T N')
    m.slice_fn(path, f, 'meem_pc', [('alt_rate', N), ('lin_vary_alt', N)], 'pressure_coef', 'pressure_coef', rtype='T N')
    m.slice_fn(path, f, 'meem_Tt', [('Tamb_cruise', N), ('machFlight', N)], 'Tt_amb', 'Tt_amb', rtype='T N')
    m.slice_fn(path, f, 'meem_Pt', [('Pamb_cruise', N), ('machFlight', N)], 'Pt_amb', 'Pt_amb', rtype='T N')
    m.slice_fn(path, f, 'meem_P3', [('Pt_amb', N), ('pressure_coef', N), ('max_pr', N)], 'P3', 'P3', rtype='T N')
    m.slice_fn(path, f, 'meem_T3', [('Tt_amb', N), ('eta_comp', N), ('P3', N), ('Pt_amb', N)], 'T3', 'T3', rtype='T N')
    m.slice_fn(path, f, 'meem_P3ref', [('T3', N), ('eta_comp', N)], 'T3_ref', 'P3_ref', rtype='T N')
    m.slice_fn(path, f, 'meem_F', [('P3_ref', N), ('max_pr', N)], 'FG_over_Foo', 'FG_over_Foo', rtype='T N')
    m.slice_fn(path, f, 'meem_EI_mass', [('EI_ref_mass', N), ('P3', N), ('P3_ref', N)], 'EI_mass', 'EI_mass', rtype='T N')
    m.slice_fn(path, f, 'meem_EI_num', [('EI_ref_num', N), ('EI_mass', N), ('EI_ref_mass', N)], 'EI_num', 'EI_num', rtype='T N')


def extract_c12(repo: Path) -> str:
    src = Path(repo) / 'src/AEIC'
    m = C12Module('C12_Extracted')
    m.constants(src / 'constants.py', ['p0', 'a0', 'T0', 'rho0', 'g0', 'kappa', 'R_air', 'R_E'])
    sa = src / 'utils/standard_atmosphere.py'
    m.constants(sa, ['beta_tropo', 'h_p_tropo'])
    m.function(sa, 'temperature_at_altitude_isa_bada4')
    m.function(sa, 'pressure_at_altitude_isa_bada4')
    m.function(sa, 'altitude_from_pressure_isa_bada4')
    m.function(sa, 'calculate_speed_of_sound')
    m.function(sa, 'speed_of_sound_at_altitude')
    m.function(sa, 'calculate_air_density')
    extract_atmos_state(m, src / 'emissions/types.py')
    sox = src / 'emissions/ei/sox.py'
    m.constants(sox, ['MW_SO2', 'MW_SO4', 'MW_S'])
    m.function(sox, 'EI_SOx', attrs={'fuel': ['fuel_sulfur_content_nom', 'sulfate_yield_nom']},
               result_fields=['EI_SOx', 'EI_SO2', 'EI_SO4'])
    ut = src / 'emissions/utils.py'
    m.function(ut, 'get_SLS_equivalent_fuel_flow')
    m.defaults(ut, 'get_SLS_equivalent_fuel_flow', ['z', 'P_SL', 'T_SL', 'n_eng'], 'sls_default_')
    m.function_ex(ut, 'get_thrust_cat_cruise', [('ff_eval', 'num'), ('ff_cal', 'tmv')])
    nox = src / 'emissions/ei/nox.py'
    m.function_ex(nox, 'NOx_speciation', [], result_fields=['no', 'no2', 'hono'],
                  rtype='(T N * T N * T N * T N) * (T N * T N * T N * T N) * (T N * T N * T N * T N)')
    m.slice_fn(nox, 'BFFM2_EINOx', 'nox_clamp_cal', [('ff_cal', 'num')], 'ff_cal[]', 'ff_cal[]')
    m.slice_fn(nox, 'BFFM2_EINOx', 'nox_clamp_eval', [('ff_eval', 'num')], 'ff_eval[]', 'ff_eval[]')
    m.slice_fn(nox, 'BFFM2_EINOx', 'nox_log', [('ff_eval', 'num')], 'x_eval', 'x_eval')
    m.slice_fn(nox, 'BFFM2_EINOx', 'nox_line', [('x_eval', 'num'), ('slope', 'num'), ('intercept', 'num')],
               'NOxEI_sl', 'NOxEI_sl')
    m.slice_fn(nox, 'BFFM2_EINOx', 'nox_ambient', [('Tamb', 'num'), ('Pamb', 'num'), ('NOxEI_sl', 'num')],
               'theta_amb', 'NOxEI')
    hc = src / 'emissions/ei/hcco.py'
    m.slice_fn(hc, 'EI_HCCO', 'hcco_ACRP_slope', [], 'ACRP_slope', 'ACRP_slope', rtype='T N')
    m.slice_fn(hc, 'EI_HCCO', 'hcco_cruise_factor', [('Tamb', 'num'), ('Pamb', 'num')], 'theta_amb', 'factor')
    pv = src / 'emissions/ei/pmvol.py'
    m.function_ex(pv, 'EI_PMvol_FuelFlow', [('fuelflow', 'num'), ('thrustMode', 'modeattr:data')], rtype='T N * T N')
    m.function_ex(pv, 'EI_PMvol_FOA3', [('thrusts', 'num'), ('HCEI', 'num')], rtype='T N * T N')
    extract_scope11(m, src / 'emissions/ei/pmnvol.py')
    extract_meem(m, src / 'emissions/ei/pmnvol.py')
    return m.text()


if __name__ == '__main__':
    import sys
    print(extract_c12(Path(sys.argv[1] if len(sys.argv) > 1 else '/repo')))

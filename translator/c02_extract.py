"""C02 extractor: regenerates, from the current source tree,

  * units.py: FEET_TO_METERS, METERS_TO_FEET, METERS_TO_FL, NAUTICAL_MILES_TO_METERS, MINUTES_TO_SECONDS
  * trajectories/builders/legacy.py:LegacyContext.__init__  -> `schedule_gen` (the altitude schedule with its
    three refusals)
  * trajectories/builders/legacy.py:LegacyBuilder.calc_starting_mass -> `calc_gen` (the arithmetic)

as Gallina over `Num`.  Fail-closed: every statement of the two bodies must be one of the shapes handled
below (assignments to names / `self.<attr>`, one- or two-sided `if` made of such assignments, `if ...: raise`,
and a short list of statements that are matched *verbatim* because they only wire oracles together).
link/C02_Link.v proves the generated text equal to coq/model/C02_Model.v.
"""

from __future__ import annotations

import ast
from pathlib import Path

from translator.py2coq import NumModule, Untranslatable, find_function, strip_doc

UNITS = ['FEET_TO_METERS', 'METERS_TO_FEET', 'METERS_TO_FL', 'NAUTICAL_MILES_TO_METERS', 'MINUTES_TO_SECONDS']


def _norm(node) -> str:
    return ' '.join(ast.unparse(node).split())


class Body:
    """let-chain translation of a straight-line body with `if`s; variables may be names or `self.<attr>`."""

    def __init__(self, nm: NumModule, env: dict, where: str, verbatim: dict, on_raise: str):
        self.nm, self.env, self.where = nm, dict(env), where
        self.verbatim = verbatim            # normalised source text -> callable(self) | None
        self.on_raise = on_raise
        self.seen_verbatim: set[str] = set()
        self.n = 0

    def key(self, tgt) -> str:
        if isinstance(tgt, ast.Name):
            return tgt.id
        if isinstance(tgt, ast.Attribute) and isinstance(tgt.value, ast.Name) and tgt.value.id == 'self':
            return 'self.' + tgt.attr
        raise Untranslatable(f'{self.where}: assignment target {_norm(tgt)}')

    def fresh(self, key: str) -> str:
        self.n += 1
        return key.replace('self.', '') + f'_{self.n}'

    def assign(self, st, env):
        """(key, expr text) for an assignment statement."""
        if isinstance(st, ast.Assign) and len(st.targets) == 1:
            return self.key(st.targets[0]), self.nm.expr(st.value, env, self.where)
        if isinstance(st, ast.AugAssign):
            op = {ast.Add: '+', ast.Sub: '-', ast.Mult: '*', ast.Div: '/'}.get(type(st.op))
            if op is None:
                raise Untranslatable(f'{self.where}: augmented {type(st.op).__name__}')
            k = self.key(st.target)
            return k, f'({self.nm.expr(st.target, env, self.where)} {op} {self.nm.expr(st.value, env, self.where)})'
        raise Untranslatable(f'{self.where}: statement {_norm(st)[:70]}')

    def branch(self, stmts, env, keys):
        env = dict(env)
        for s in stmts:
            k, e = self.assign(s, env)
            env[k] = e                      # substituted, not let-bound: branches are tiny
        return [env[k] for k in keys]

    def run(self, stmts, tail) -> str:
        out = []
        env = self.env
        for i, st in enumerate(stmts):
            txt = _norm(st)
            if txt in self.verbatim:
                self.seen_verbatim.add(txt)
                act = self.verbatim[txt]
                if act is not None:
                    act(env)
                continue
            if isinstance(st, ast.Expr) and isinstance(st.value, ast.Constant):
                continue
            if isinstance(st, (ast.Assign, ast.AugAssign)):
                k, e = self.assign(st, env)
                v = self.fresh(k)
                out.append(f'  let {v} := {e} in')
                env[k] = v
                continue
            if isinstance(st, ast.If):
                test = self.nm.bexpr(st.test, env, self.where)
                if st.body and all(isinstance(s, ast.Raise) for s in st.body) and not st.orelse:
                    out.append(f'  if {test} then {self.on_raise} else')
                    continue
                keys = []
                for s in list(st.body) + list(st.orelse):
                    k = self.key(s.targets[0] if isinstance(s, ast.Assign) and len(s.targets) == 1
                                 else s.target if isinstance(s, ast.AugAssign) else None) \
                        if isinstance(s, (ast.Assign, ast.AugAssign)) else None
                    if k is None:
                        raise Untranslatable(f'{self.where}: statement in if-branch: {_norm(s)[:70]}')
                    if k not in keys:
                        keys.append(k)
                keys.sort()
                for k in keys:
                    if k not in env:
                        both = all(any(self.key(s.targets[0]) == k for s in br if isinstance(s, ast.Assign))
                                   for br in (st.body, st.orelse))
                        if not both:
                            raise Untranslatable(f'{self.where}: {k} assigned in one branch only and undefined before')
                        env = dict(env)
                        env[k] = '(* undefined *)'
                th = self.branch(st.body, env, keys)
                el = self.branch(st.orelse, env, keys)
                news = [self.fresh(k) for k in keys]
                if len(keys) == 1:
                    out.append(f'  let {news[0]} := if {test} then {th[0]} else {el[0]} in')
                else:
                    out.append(f"  let '({', '.join(news)}) := if {test} then ({', '.join(th)}) else ({', '.join(el)}) in")
                for k, v in zip(keys, news):
                    env[k] = v
                continue
            if isinstance(st, ast.Return):
                if i != len(stmts) - 1:
                    raise Untranslatable(f'{self.where}: code after return')
                env['<return>'] = self.nm.expr(st.value, env, self.where)
                continue
            raise Untranslatable(f'{self.where}: statement {type(st).__name__}: {txt[:80]}')
        missing = [t for t, a in self.verbatim.items() if t not in self.seen_verbatim]
        if missing:
            raise Untranslatable(f'{self.where}: expected statement(s) not found: {missing[0][:90]}')
        out.append('  ' + tail(env))
        return '\n'.join(out)


def extract(repo: Path) -> str:
    units = Path(repo) / 'src/AEIC/units.py'
    legacy = Path(repo) / 'src/AEIC/trajectories/builders/legacy.py'
    nm = NumModule('C02_Extracted')
    nm.constants(units, UNITS, prefix='u_')
    mod = nm._src(legacy)

    # ---- LegacyContext.__init__ ----
    fn = find_function(mod, '__init__', cls='LegacyContext')
    args = [a.arg for a in fn.args.args]
    if args != ['self', 'builder', 'ac_performance', 'mission', 'starting_mass']:
        raise Untranslatable(f'LegacyContext.__init__: signature {args}')
    env = {'mission.origin_position.altitude': 'o_alt', 'mission.destination_position.altitude': 'd_alt',
           'ac_performance.maximum_altitude': 'max_alt'}
    verbatim = {
        'ground_track = GroundTrack.great_circle(mission.origin_position.location, '
        'mission.destination_position.location, allow_overstep=True)': None,
        'self.weather: Weather | None = None': None,
        'if builder.options.use_weather: self.weather = Weather(data_dir=config.weather.weather_data_dir)': None,
        'super().__init__(builder, ac_performance, mission, ground_track, '
        'initial_altitude=self.clm_start_altitude, starting_mass=starting_mass)': None,
    }
    verbatim = {' '.join(k.split()): v for k, v in verbatim.items()}
    body = Body(nm, env, 'legacy.py:LegacyContext.__init__', verbatim, 'Err ESchedule')
    stmts = strip_doc(fn.body)

    def tail_sched(e):
        need = ['self.clm_start_altitude', 'self.crz_start_altitude', 'self.des_start_altitude',
                'self.des_end_altitude', 'self.descent_dist_approx']
        for k in need:
            if k not in e:
                raise Untranslatable(f'LegacyContext.__init__: {k} never assigned')
        return 'Ok (mksched ' + ' '.join(e[k] for k in need) + ')'

    sched_text = body.run(stmts, tail_sched)
    nm.raw('Definition schedule_gen (o_alt d_alt max_alt : T N) : res (@sched N) :=\n' + sched_text + '.')

    # ---- LegacyBuilder.calc_starting_mass ----
    fn2 = find_function(mod, 'calc_starting_mass', cls='LegacyBuilder')
    env2 = {'perf.true_airspeed': 'tas', 'perf.fuel_flow': 'ff',
            'self.ac_performance.maximum_payload': 'max_payload', 'self.mission.load_factor': 'lf',
            'self.ground_track.total_distance': 'total_dist', 'self.ac_performance.empty_mass': 'empty_mass',
            'self.ac_performance.maximum_mass': 'max_mass'}
    verbatim2 = {
        "perf = self.ac_performance.evaluate(AircraftState(altitude=self.crz_start_altitude, "
        "aircraft_mass='max'), SimpleFlightRules.CRUISE)": None,
    }
    verbatim2 = {' '.join(k.split()): v for k, v in verbatim2.items()}
    body2 = Body(nm, env2, 'legacy.py:LegacyBuilder.calc_starting_mass', verbatim2, 'Err ESchedule')

    def tail_calc(e):
        if '<return>' not in e or 'self.total_fuel_mass' not in e:
            raise Untranslatable('calc_starting_mass: return value / total_fuel_mass missing')
        return f"({e['<return>']}, {e['self.total_fuel_mass']})"

    calc_text = body2.run(strip_doc(fn2.body), tail_calc)
    nm.raw('Definition calc_gen (tas ff total_dist lf max_payload empty_mass max_mass : T N) : T N * T N :=\n'
           + calc_text + '.')

    return ('(* generated by translator/c02_extract.py from the current source tree — do not edit *)\n'
            'From Coq Require Import ZArith PrimFloat Bool.\nFrom AV Require Import lib.Num model.C02_Model.\n'
            'Section Gen.\nContext {N : Num}.\nLocal Open Scope num_scope.\nLocal Open Scope bool_scope.\n\n'
            + '\n\n'.join(nm.defs) + '\n\nEnd Gen.\n')


if __name__ == '__main__':
    import sys
    print(extract(Path(sys.argv[1] if len(sys.argv) > 1 else '/repo')))

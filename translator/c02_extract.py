"""C02 extractor: regenerates, from the current source tree,

  * units.py: FEET_TO_METERS, METERS_TO_FEET, METERS_TO_FL, NAUTICAL_MILES_TO_METERS, MINUTES_TO_SECONDS
  * trajectories/builders/legacy.py:LegacyContext.__init__  -> `schedule_gen` (the altitude schedule with its
    three refusals)
  * trajectories/builders/legacy.py:LegacyBuilder.calc_starting_mass -> `calc_gen` (the arithmetic)

as Gallina over `Num`.  Fail-closed: every statement of the two bodies must be one of the shapes handled
below (assignments to names / `self.<attr>`, one- or two-sided `if` made of such assignments, `if ...: raise`,
and a short list of statements that are matched *verbatim* because they only wire oracles together).
link/C02_Link.v proves the generated text equal to coq/model/C02_Model.v.
"""

from __future__ import annotations

import ast
from pathlib import Path

from translator.py2coq import NumModule, Untranslatable, find_function, strip_doc

UNITS = ['FEET_TO_METERS', 'METERS_TO_FEET', 'METERS_TO_FL', 'NAUTICAL_MILES_TO_METERS', 'MINUTES_TO_SECONDS']


def _norm(node) -> str:
    return ' '.join(ast.unparse(node).split())


class Body:
    """let-chain translation of a straight-line body with `if`s; variables may be names or `self.<attr>`."""

    def __init__(self, nm: NumModule, env: dict, where: str, verbatim: dict, on_raise: str):
        self.nm, self.env, self.where = nm, dict(env), where
        self.verbatim = verbatim            # normalised source text -> callable(self) | None
        self.on_raise = on_raise
        self.seen_verbatim: set[str] = set()
        self.n = 0
        self.out: list[str] = []
        self.snaps: dict[str, tuple] = {}

    def snap(self, name: str, env: dict):
        """remember the let-chain so far and the variable bindings (a point is appended here)"""
        self.snaps[name] = (list(self.out), dict(env))

    def key(self, tgt) -> str:
        if isinstance(tgt, ast.Name):
            return tgt.id
        if isinstance(tgt, ast.Attribute) and isinstance(tgt.value, ast.Name) and tgt.value.id in ('self', 'pt'):
            return tgt.value.id + '.' + tgt.attr
        raise Untranslatable(f'{self.where}: assignment target {_norm(tgt)}')

    def fresh(self, key: str) -> str:
        self.n += 1
        return key.replace('self.', '').replace('pt.', 'pt_') + f'_{self.n}'

    def assign(self, st, env):
        """(key, expr text) for an assignment statement."""
        if isinstance(st, ast.Assign) and len(st.targets) == 1:
            return self.key(st.targets[0]), self.nm.expr(st.value, env, self.where)
        if isinstance(st, ast.AugAssign):
            op = {ast.Add: '+', ast.Sub: '-', ast.Mult: '*', ast.Div: '/'}.get(type(st.op))
            if op is None:
                raise Untranslatable(f'{self.where}: augmented {type(st.op).__name__}')
            k = self.key(st.target)
            return k, f'({self.nm.expr(st.target, env, self.where)} {op} {self.nm.expr(st.value, env, self.where)})'
        raise Untranslatable(f'{self.where}: statement {_norm(st)[:70]}')

    def branch(self, stmts, env, keys):
        env = dict(env)
        for s in stmts:
            k, e = self.assign(s, env)
            env[k] = e                      # substituted, not let-bound: branches are tiny
        return [env[k] for k in keys]

    def run(self, stmts, tail) -> str:
        out = self.out
        env = self.env
        for i, st in enumerate(stmts):
            txt = _norm(st)
            if txt in self.verbatim:
                self.seen_verbatim.add(txt)
                act = self.verbatim[txt]
                if act is not None:
                    act(env)
                continue
            if isinstance(st, ast.Expr) and isinstance(st.value, ast.Constant):
                continue
            if isinstance(st, (ast.Assign, ast.AugAssign)):
                k, e = self.assign(st, env)
                v = self.fresh(k)
                out.append(f'  let {v} := {e} in')
                env[k] = v
                continue
            if isinstance(st, ast.If):
                test = self.nm.bexpr(st.test, env, self.where)
                if st.body and all(isinstance(s, ast.Raise) for s in st.body) and not st.orelse:
                    out.append(f'  if {test} then {self.on_raise} else')
                    continue
                keys = []
                for s in list(st.body) + list(st.orelse):
                    k = self.key(s.targets[0] if isinstance(s, ast.Assign) and len(s.targets) == 1
                                 else s.target if isinstance(s, ast.AugAssign) else None) \
                        if isinstance(s, (ast.Assign, ast.AugAssign)) else None
                    if k is None:
                        raise Untranslatable(f'{self.where}: statement in if-branch: {_norm(s)[:70]}')
                    if k not in keys:
                        keys.append(k)
                keys.sort()
                for k in keys:
                    if k not in env:
                        both = all(any(self.key(s.targets[0]) == k for s in br if isinstance(s, ast.Assign))
                                   for br in (st.body, st.orelse))
                        if not both:
                            raise Untranslatable(f'{self.where}: {k} assigned in one branch only and undefined before')
                        env = dict(env)
                        env[k] = '(* undefined *)'
                th = self.branch(st.body, env, keys)
                el = self.branch(st.orelse, env, keys)
                news = [self.fresh(k) for k in keys]
                if len(keys) == 1:
                    out.append(f'  let {news[0]} := if {test} then {th[0]} else {el[0]} in')
                else:
                    out.append(f"  let '({', '.join(news)}) := if {test} then ({', '.join(th)}) else ({', '.join(el)}) in")
                for k, v in zip(keys, news):
                    env[k] = v
                continue
            if isinstance(st, ast.Return):
                if i != len(stmts) - 1:
                    raise Untranslatable(f'{self.where}: code after return')
                env['<return>'] = self.nm.expr(st.value, env, self.where)
                continue
            raise Untranslatable(f'{self.where}: statement {type(st).__name__}: {txt[:80]}')
        missing = [t for t, a in self.verbatim.items() if t not in self.seen_verbatim]
        if missing:
            raise Untranslatable(f'{self.where}: expected statement(s) not found: {missing[0][:90]}')
        out.append('  ' + tail(env))
        return '\n'.join(out)


class PartError(Untranslatable):
    """extraction failure of one named part (the harness reports `extract:<part>`)"""

    def __init__(self, part: str, msg: str):
        super().__init__(f'{part}: {msg}')
        self.part = part


class _Square(ast.NodeTransformer):
    """x ** 2  ->  x * x  (the reading of the model; exact over the reals)"""

    def visit_BinOp(self, node):
        self.generic_visit(node)
        if isinstance(node.op, ast.Pow) and isinstance(node.right, ast.Constant) and node.right.value == 2:
            return ast.BinOp(left=node.left, op=ast.Mult(), right=node.left)
        return node


ZERO_LIT = '(lit (0)%Z (1)%Z (0x0.0p+0)%float)'
PT_FIELDS = ['altitude', 'flight_level', 'true_airspeed', 'rate_of_climb', 'aircraft_mass', 'fuel_mass',
             'ground_distance', 'flight_time', 'ground_speed', 'fuel_flow', 'longitude', 'latitude', 'azimuth', 'heading']
PT_PROJ = ['p_alt', 'p_fl', 'p_tas', 'p_rocd', 'p_mass', 'p_fuel', 'p_dist', 'p_time', 'p_gs', 'p_ff', 'p_lon', 'p_lat',
           'p_az', 'p_head']


def _ast_equal(a, b) -> bool:
    return ast.dump(a) == ast.dump(b)


def _body_equal(fn: ast.FunctionDef, src: str) -> bool:
    want = ast.parse(src).body[0]
    return (ast.dump(ast.Module(body=strip_doc(fn.body), type_ignores=[]))
            == ast.dump(ast.Module(body=strip_doc(want.body), type_ignores=[]))
            and ast.dump(fn.args) == ast.dump(want.args))


def _mkpt(env: dict) -> str:
    return '(mkpt ' + ' '.join(env['pt.' + f] for f in PT_FIELDS) + ')'


def _pt_env() -> dict:
    return {'pt.' + f: f'({pr} p)' for f, pr in zip(PT_FIELDS, PT_PROJ)}


# ---- storage/container.py --------------------------------------------------------------------------
MP_LOOP = """
for name in pt._data_dictionary:
    if name in self._data:
        val = self._data[name]
        if isinstance(val, np.ndarray):
            pt._data[name] = val[idx]
"""
EXPAND_SRC = """
def _expand_capacity(self) -> None:
    self._capacity += self.CAPACITY_EXPANSION
    for name in self._data_dictionary:
        if name in self._data:
            if isinstance(self._data[name], np.ndarray):
                self._data[name] = np.resize(self._data[name], (self._capacity,))
"""
APPEND_TAIL = """
if self._size == self._capacity:
    self._expand_capacity()
for name, value in data.items():
    self._data[name][self._size] = field_set[name].convert_in(value, name, 0)
self._size += 1
"""
GETATTR_SRC = """
def __getattr__(self, name: str):
    if name in self.FIXED_FIELDS:
        return super().__getattribute__(name)
    if name in self._data:
        val = self._data[name]
        if isinstance(val, np.ndarray):
            return val[: self._size]
        else:
            return val
    else:
        raise AttributeError(f"Container has no attribute '{name}'")
"""


def container_facts(repo: Path) -> dict:
    mod = ast.parse((Path(repo) / 'src/AEIC/storage/container.py').read_text())
    # make_point
    part = 'storage/container.py:make_point'
    fn = find_function(mod, 'make_point', cls='Container')
    blocks = [s for s in strip_doc(fn.body) if isinstance(s, ast.If) and ast.unparse(s.test) == 'idx is not None']
    if len(blocks) != 1 or blocks[0].orelse:
        raise PartError(part, '`if idx is not None:` block not found')
    stmts = list(blocks[0].body)
    if not stmts or not _ast_equal(stmts[-1], ast.parse(MP_LOOP).body[0]):
        raise PartError(part, 'the copy loop `pt._data[name] = val[idx]` changed')
    guards = stmts[:-1]
    bounds = norm = False
    for g in guards:
        if (isinstance(g, ast.If) and not g.orelse and ast.unparse(g.test) == 'idx < -self._size or idx >= self._size'
                and len(g.body) == 1 and isinstance(g.body[0], ast.Raise)
                and ast.unparse(g.body[0].exc).startswith('IndexError(') and not norm):
            bounds = True
        elif (isinstance(g, ast.If) and not g.orelse and ast.unparse(g.test) == 'idx < 0' and len(g.body) == 1
              and _ast_equal(g.body[0], ast.parse('idx += self._size').body[0]) and bounds):
            norm = True
        else:
            raise PartError(part, f'unrecognised statement before the copy loop: {ast.unparse(g)[:80]}')
    # growth rule
    part = 'storage/container.py:_expand_capacity/_append_from_dict'
    cls = next(n for n in mod.body if isinstance(n, ast.ClassDef) and n.name == 'Container')
    consts = {}
    for st in cls.body:
        if isinstance(st, ast.Assign) and len(st.targets) == 1 and isinstance(st.targets[0], ast.Name) \
                and st.targets[0].id in ('STARTING_CAPACITY', 'CAPACITY_EXPANSION'):
            if not (isinstance(st.value, ast.Constant) and isinstance(st.value.value, int) and 0 < st.value.value < 4000):
                raise PartError(part, f'{st.targets[0].id} is not a small integer literal')
            consts[st.targets[0].id] = st.value.value
    if set(consts) != {'STARTING_CAPACITY', 'CAPACITY_EXPANSION'}:
        raise PartError(part, 'capacity constants not found')
    if not _body_equal(find_function(mod, '_expand_capacity', cls='Container'), EXPAND_SRC):
        raise PartError(part, '_expand_capacity is not `capacity += CAPACITY_EXPANSION; np.resize(buffer, capacity)`')
    app = strip_doc(find_function(mod, '_append_from_dict', cls='Container').body)
    tail = ast.parse(APPEND_TAIL).body
    if [ast.dump(x) for x in app[-len(tail):]] != [ast.dump(x) for x in tail]:
        raise PartError(part, '_append_from_dict no longer grows when size == capacity / writes at [size] / bumps size')
    init = find_function(mod, '__init__', cls='Container')
    if 'self._capacity = self.STARTING_CAPACITY' not in ast.unparse(init) or 'self._size = 0' not in ast.unparse(init):
        raise PartError(part, 'an extensible container no longer starts with STARTING_CAPACITY cells and size 0')
    part = 'storage/container.py:__getattr__'
    if not _body_equal(find_function(mod, '__getattr__', cls='Container'), GETATTR_SRC):
        raise PartError(part, 'attribute reads are no longer `val[: self._size]`')
    return {'bounds': bounds, 'norm': norm, 'start': consts['STARTING_CAPACITY'], 'expand': consts['CAPACITY_EXPANSION']}


# ---- trajectories/trajectory.py:interpolate_time ------------------------------------------------------
INTERP_LOOP = """
for name, field in self._data_dictionary.items():
    if Dimension.POINT in field.dimensions and name in self._data:
        if Dimension.SPECIES in field.dimensions:
            assert isinstance(self._data[name], SpeciesValues)
            new_species_values = SpeciesValues[np.ndarray]()
            for sp in self._data[name].keys():
                new_species_values[sp] = np.interp(new_time, orig_time, self._data[name][sp], left=np.nan, right=np.nan)
            new_traj._data[name] = new_species_values
        else:
            new_traj._data[name] = np.interp(new_time, orig_time, VALUES, left=np.nan, right=np.nan)
    elif name in self._data:
        new_traj._data[name] = deepcopy(self._data[name])
"""


def interpolate_facts(repo: Path) -> dict:
    part = 'trajectories/trajectory.py:interpolate_time'
    mod = ast.parse((Path(repo) / 'src/AEIC/trajectories/trajectory.py').read_text())
    body = strip_doc(find_function(mod, 'interpolate_time', cls='Trajectory').body)
    if len(body) != 5:
        raise PartError(part, f'{len(body)} top-level statements instead of guard / time axis / new trajectory / loop / '
                              'return (a short-cut path?)')
    guard, tax, new, loop, ret = body
    if not (isinstance(guard, ast.If) and ast.unparse(guard.test) == "'flight_time' not in self._data"
            and len(guard.body) == 1 and isinstance(guard.body[0], ast.Raise) and not guard.orelse):
        raise PartError(part, 'first statement is not the flight_time guard')
    t_txt = ast.unparse(tax)
    if t_txt == "orig_time = self._data['flight_time'][:self._size]":
        slices_time = True
    elif t_txt == "orig_time = self._data['flight_time']":
        slices_time = False
    else:
        raise PartError(part, 'time axis: ' + t_txt[:80])
    if ast.unparse(new) != 'new_traj = Trajectory(len(new_time), fieldsets=list(self._fieldsets))' \
            or ast.unparse(ret) != 'return new_traj':
        raise PartError(part, 'result construction changed')
    slices_values = None
    for flag, txt in ((True, 'self._data[name][: self._size]'), (False, 'self._data[name]')):
        if _ast_equal(loop, ast.parse(INTERP_LOOP.replace('VALUES', txt)).body[0]):
            slices_values = flag
    if slices_values is None:
        raise PartError(part, 'the resampling loop is not np.interp(new_time, orig_time, values, left=nan, right=nan) per field')
    return {'slices_time': slices_time, 'slices_values': slices_values}


# ---- trajectories/ground_track.py --------------------------------------------------------------------
OVERSTEP_SRC = """
def _overstep(self, distance: float) -> GroundTrack.Point:
    lon, lat, _ = GEOD.fwd(self.waypoints[-2].longitude, self.waypoints[-2].latitude, self.azimuths[-1],
                           distance - self.index[-2])
    azimuth, _, _ = GEOD.inv(self.waypoints[-1].longitude, self.waypoints[-1].latitude, lon, lat)
    return GroundTrack.Point(Location(lon, lat), azimuth)
"""
STEP_GUARD = "if from_distance < 0 or distance_step < 0:\n    raise GroundTrack.Exception('distances must be non-negative')"


def ground_track_facts(repo: Path) -> dict:
    mod = ast.parse((Path(repo) / 'src/AEIC/trajectories/ground_track.py').read_text())
    part = 'trajectories/ground_track.py:_overstep'
    if not _body_equal(find_function(mod, '_overstep', cls='GroundTrack'), OVERSTEP_SRC):
        raise PartError(part, 'the continuation beyond the last waypoint is no longer GEOD.fwd from waypoint [-2] along '
                              'azimuths[-1] by distance - index[-2]')
    part = 'trajectories/ground_track.py:step'
    st = strip_doc(find_function(mod, 'step', cls='GroundTrack').body)
    if not st or not _ast_equal(st[0], ast.parse(STEP_GUARD).body[0]):
        raise PartError(part, 'step no longer starts by refusing negative distances')
    contains = find_function(mod, '__contains__', cls='GroundTrack')
    if ast.unparse(strip_doc(contains.body)[0]) != 'return distance >= self.index[0] and distance <= self.index[-1]':
        raise PartError('trajectories/ground_track.py:__contains__', 'range test of the track changed')
    return {'from_wp': -2, 'azimuth': -1, 'offset_index': -2}


# ---- builders/base.py:_start_point -------------------------------------------------------------------
def start_point_def(repo: Path, nm: NumModule) -> str:
    part = 'trajectories/builders/base.py:_start_point'
    path = Path(repo) / 'src/AEIC/trajectories/builders/base.py'
    mod = nm._src(path)
    body = strip_doc(find_function(mod, '_start_point', cls='Builder').body)
    if len(body) < 3 or ast.unparse(body[0]) != 'pt = traj.make_point()' \
            or ast.unparse(body[1]) != 'start = self.ground_track[0]' or ast.unparse(body[-1]) != 'return pt':
        raise PartError(part, 'frame (make_point / ground_track[0] / return pt) changed')
    env = {'start.location.longitude': 'lon', 'start.location.latitude': 'lat', 'start.azimuth': 'az',
           'self.initial_altitude': 'initial_altitude', 'self.starting_mass': 'starting_mass',
           'self.total_fuel_mass': 'total_fuel_mass'}
    slots = {f: 'zero' for f in PT_FIELDS}          # the np.zeros fill of a fresh point
    seen = set()
    for st in body[2:-1]:
        if not (isinstance(st, ast.Assign) and len(st.targets) == 1 and isinstance(st.targets[0], ast.Attribute)
                and isinstance(st.targets[0].value, ast.Name) and st.targets[0].value.id == 'pt'
                and st.targets[0].attr in PT_FIELDS and st.targets[0].attr not in seen):
            raise PartError(part, f'statement {ast.unparse(st)[:70]}')
        seen.add(st.targets[0].attr)
        try:
            slots[st.targets[0].attr] = nm.expr(st.value, env, part).replace(ZERO_LIT, 'zero')
        except PartError:
            raise
        except Untranslatable as e:
            raise PartError(part, f'value of {st.targets[0].attr}: {e}') from e
    return ('Definition start_point_gen (initial_altitude starting_mass total_fuel_mass lon lat az : T N) : @pt N :=\n  '
            + '(mkpt ' + ' '.join(slots[f] for f in PT_FIELDS) + ').')


# ---- builders/legacy.py: the loop bodies of _fly_level_change and fly_cruise ----------------------------
EVAL_LC = ('perf = self.ac_performance.evaluate(AircraftState(altitude=pt.altitude, true_airspeed=pt.true_airspeed, '
           'rate_of_climb=pt.rate_of_climb, aircraft_mass=pt.aircraft_mass), flight_rule)')
EVAL_LC_END = ('perf_end = self.ac_performance.evaluate(AircraftState(altitude=pt.altitude + delta_altitude, '
               'true_airspeed=pt.true_airspeed, rate_of_climb=pt.rate_of_climb, aircraft_mass=pt.aircraft_mass), flight_rule)')
WX_LC = ('if self.weather is None: pt.ground_speed = fwd_tas else: pt.ground_speed = self.weather.get_ground_speed('
         'time=self.mission.departure, gt_point=self.ground_track.location(pt.ground_distance), altitude=pt.altitude, '
         'true_airspeed=fwd_tas, azimuth=pt.azimuth)')
WX_CRZ = ('if self.weather is not None: pt.ground_speed = self.weather.get_ground_speed(time=self.mission.departure, '
          'gt_point=self.ground_track.location(pt.ground_distance), altitude=pt.altitude, true_airspeed=pt.true_airspeed, '
          'azimuth=pt.azimuth) pt.heading = pt.azimuth else: pt.ground_speed = pt.true_airspeed pt.heading = pt.azimuth')
EVAL_CRZ = ('perf = self.ac_performance.evaluate(AircraftState(altitude=pt.altitude, true_airspeed=pt.true_airspeed, '
            'rate_of_climb=0, aircraft_mass=pt.aircraft_mass), SimpleFlightRules.CRUISE)')


def _loop(fn: ast.FunctionDef, part: str) -> ast.For:
    loops = [s for s in fn.body if isinstance(s, ast.For)]
    if len(loops) != 1 or loops[0].orelse:
        raise PartError(part, 'expected exactly one for-loop')
    return loops[0]


def _fn_text(name: str, sig: str, prefix: list, result: str) -> str:
    lines = [ln.replace(ZERO_LIT, 'zero') for ln in prefix]
    return f'Definition {name} {sig} : @pt N :=\n' + '\n'.join(lines + ['  ' + result.replace(ZERO_LIT, 'zero')]) + '.'


def loop_defs(repo: Path, nm: NumModule) -> list:
    path = Path(repo) / 'src/AEIC/trajectories/builders/legacy.py'
    mod = _Square().visit(nm._src(path))
    ast.fix_missing_locations(mod)
    defs = []

    # -- climb / descent
    part = 'trajectories/builders/legacy.py:_fly_level_change(loop body)'
    fn = find_function(mod, '_fly_level_change', cls='LegacyBuilder')
    loop = _loop(fn, part)
    if ast.unparse(loop.target) != 'i' or ast.unparse(loop.iter) != 'range(n_points)':
        raise PartError(part, 'loop header changed')
    pre = [_norm(s2) for s2 in strip_doc(fn.body) if not isinstance(s2, ast.For)]
    want_pre = ['traj.set_phase(flight_phase)',
                'if flight_phase == FlightPhase.CLIMB: pt = self._start_point(traj) pt.true_airspeed = '
                'min(self.ac_performance.performance_table.tas) pt.rate_of_climb = '
                'max(self.ac_performance.performance_table.rocd) else: pt = traj.make_point(-1)',
                'delta_altitude = (end_altitude - start_altitude) / (n_points - 1)']
    if pre != want_pre:
        raise PartError(part, 'set-up before the loop changed (start point / hand-over / altitude step)')
    env = _pt_env()
    env.update({'start_altitude': 'start_alt', 'i': 'idx', 'delta_altitude': 'delta', 'self.fuel_LHV': 'lhv',
                'METERS_TO_FL': nm.coqname['METERS_TO_FL']})
    holder = {}

    def bind(**kw):
        def act(e):
            e.update(kw)
        return act

    verbatim = {
        EVAL_LC: bind(**{'perf.true_airspeed': 'tas', 'perf.rate_of_climb': 'rocd', 'perf.fuel_flow': 'ff'}),
        'if i == n_points - 1: traj.append(pt) break': lambda e: holder['b'].snap('last', e),
        WX_LC: bind(**{'pt.ground_speed': 'gs'}),
        'traj.append(pt)': lambda e: holder['b'].snap('q', e),
        'gpt = self.ground_track.step(pt.ground_distance, dist)':
            bind(**{'gpt.location.longitude': 'lon', 'gpt.location.latitude': 'lat', 'gpt.azimuth': 'az'}),
        EVAL_LC_END: bind(**{'perf_end.true_airspeed': 'tas_end'}),
    }
    verbatim = {' '.join(k.split()): v for k, v in verbatim.items()}
    body = Body(nm, env, part, verbatim, 'Err ESchedule')
    holder['b'] = body
    try:
        nxt = body.run(loop.body, lambda e: _mkpt(e))
    except PartError:
        raise
    except Untranslatable as e:
        raise PartError(part, str(e)) from e
    for k in ('last', 'q'):
        if k not in body.snaps:
            raise PartError(part, f'append of the {k} point not found')
    sig_p = '(start_alt idx delta : T N) (p : @pt N) (tas rocd ff : T N)'
    pre_l, env_l = body.snaps['last']
    defs.append(_fn_text('lc_last_gen', sig_p, pre_l, _mkpt(env_l)))
    pre_q, env_q = body.snaps['q']
    defs.append(_fn_text('lc_q_gen', sig_p + ' (gs : T N)', pre_q, _mkpt(env_q)))
    if 'fwd_tas' not in env_q:
        raise PartError(part, 'fwd_tas not computed before the point is appended')
    defs.append('Definition fwd_tas_gen (tas rocd : T N) : T N :=\n'
                + '\n'.join(ln for ln in pre_q if 'fwd_tas' in ln.split(':=')[0]) + '\n  ' + env_q['fwd_tas'] + '.')
    defs.append('Definition lc_next_gen (start_alt idx delta lhv : T N) (p : @pt N) (tas rocd ff gs lon lat az tas_end : T N) '
                ': @pt N :=\n' + nxt.replace(ZERO_LIT, 'zero') + '.')

    # -- cruise
    part = 'trajectories/builders/legacy.py:fly_cruise(loop body)'
    fn = find_function(mod, 'fly_cruise', cls='LegacyBuilder')
    loop = _loop(fn, part)
    if ast.unparse(loop.iter) != 'range(n_cruise)':
        raise PartError(part, 'loop header changed')
    pre = [_norm(s2) for s2 in strip_doc(fn.body) if not isinstance(s2, ast.For)]
    want_pre = ['traj.set_phase(FlightPhase.CRUISE)', 'pt = traj.make_point(-1)', 'start_dist = pt.ground_distance',
                'pt.altitude = self.crz_start_altitude', 'pt.flight_level = pt.altitude * METERS_TO_FL',
                'end_dist = self.ground_track.total_distance - self.descent_dist_approx',
                'n_cruise = int(1 / self.frac_step_crz)',
                'ground_distance_step = (end_dist - start_dist) / (n_cruise - 1)', 'pt.rate_of_climb = 0']
    if pre != want_pre:
        raise PartError(part, 'set-up before the loop changed (hand-over / cruise level / step length)')
    env = _pt_env()
    env.update({'ground_distance_step': 'step'})
    holder2 = {}
    verbatim = {
        WX_CRZ: bind(**{'pt.ground_speed': 'gs', 'pt.heading': '(p_az p)'}),
        'traj.append(pt)': lambda e: holder2['b'].snap('q', e),
        'gpt = self.ground_track.step(pt.ground_distance, ground_distance_step)':
            bind(**{'gpt.location.longitude': 'lon', 'gpt.location.latitude': 'lat', 'gpt.azimuth': 'az'}),
        EVAL_CRZ: bind(**{'perf.true_airspeed': 'tas', 'perf.rate_of_climb': 'rocd', 'perf.fuel_flow': 'ff'}),
    }
    verbatim = {' '.join(k.split()): v for k, v in verbatim.items()}
    body2 = Body(nm, env, part, verbatim, 'Err ESchedule')
    holder2['b'] = body2
    try:
        nxt2 = body2.run(loop.body, lambda e: _mkpt(e))
    except PartError:
        raise
    except Untranslatable as e:
        raise PartError(part, str(e)) from e
    if 'q' not in body2.snaps:
        raise PartError(part, 'append of the cruise point not found')
    pre_q, env_q = body2.snaps['q']
    defs.append(_fn_text('crz_q_gen', '(p : @pt N) (gs : T N)', pre_q, _mkpt(env_q)))
    defs.append('Definition crz_next_gen (step : T N) (p : @pt N) (gs lon lat az tas rocd ff : T N) : @pt N :=\n'
                + nxt2.replace(ZERO_LIT, 'zero') + '.')
    return defs


def extract(repo: Path) -> str:
    units = Path(repo) / 'src/AEIC/units.py'
    legacy = Path(repo) / 'src/AEIC/trajectories/builders/legacy.py'
    nm = NumModule('C02_Extracted')
    nm.constants(units, UNITS, prefix='u_')
    mod = nm._src(legacy)

    # ---- LegacyContext.__init__ ----
    fn = find_function(mod, '__init__', cls='LegacyContext')
    args = [a.arg for a in fn.args.args]
    if args != ['self', 'builder', 'ac_performance', 'mission', 'starting_mass']:
        raise Untranslatable(f'LegacyContext.__init__: signature {args}')
    env = {'mission.origin_position.altitude': 'o_alt', 'mission.destination_position.altitude': 'd_alt',
           'ac_performance.maximum_altitude': 'max_alt'}
    verbatim = {
        'ground_track = GroundTrack.great_circle(mission.origin_position.location, '
        'mission.destination_position.location, allow_overstep=True)': None,
        'self.weather: Weather | None = None': None,
        'if builder.options.use_weather: self.weather = Weather(data_dir=config.weather.weather_data_dir)': None,
        'super().__init__(builder, ac_performance, mission, ground_track, '
        'initial_altitude=self.clm_start_altitude, starting_mass=starting_mass)': None,
    }
    verbatim = {' '.join(k.split()): v for k, v in verbatim.items()}
    body = Body(nm, env, 'legacy.py:LegacyContext.__init__', verbatim, 'Err ESchedule')
    stmts = strip_doc(fn.body)

    def tail_sched(e):
        need = ['self.clm_start_altitude', 'self.crz_start_altitude', 'self.des_start_altitude',
                'self.des_end_altitude', 'self.descent_dist_approx']
        for k in need:
            if k not in e:
                raise Untranslatable(f'LegacyContext.__init__: {k} never assigned')
        return 'Ok (mksched ' + ' '.join(e[k] for k in need) + ')'

    sched_text = body.run(stmts, tail_sched)
    nm.raw('Definition schedule_gen (o_alt d_alt max_alt : T N) : res (@sched N) :=\n' + sched_text + '.')

    # ---- LegacyBuilder.calc_starting_mass ----
    fn2 = find_function(mod, 'calc_starting_mass', cls='LegacyBuilder')
    env2 = {'perf.true_airspeed': 'tas', 'perf.fuel_flow': 'ff',
            'self.ac_performance.maximum_payload': 'max_payload', 'self.mission.load_factor': 'lf',
            'self.ground_track.total_distance': 'total_dist', 'self.ac_performance.empty_mass': 'empty_mass',
            'self.ac_performance.maximum_mass': 'max_mass'}
    verbatim2 = {
        "perf = self.ac_performance.evaluate(AircraftState(altitude=self.crz_start_altitude, "
        "aircraft_mass='max'), SimpleFlightRules.CRUISE)": None,
    }
    verbatim2 = {' '.join(k.split()): v for k, v in verbatim2.items()}
    body2 = Body(nm, env2, 'legacy.py:LegacyBuilder.calc_starting_mass', verbatim2, 'Err ESchedule')

    def tail_calc(e):
        if '<return>' not in e or 'self.total_fuel_mass' not in e:
            raise Untranslatable('calc_starting_mass: return value / total_fuel_mass missing')
        return f"({e['<return>']}, {e['self.total_fuel_mass']})"

    calc_text = body2.run(strip_doc(fn2.body), tail_calc)
    nm.raw('Definition calc_gen (tas ff total_dist lf max_payload empty_mass max_mass : T N) : T N * T N :=\n'
           + calc_text + '.')

    nm.raw(start_point_def(repo, nm))
    for d in loop_defs(repo, nm):
        nm.raw(d)
    cf, itf, gtf = container_facts(repo), interpolate_facts(repo), ground_track_facts(repo)
    from translator import c17_extract
    bf = c17_extract.facts(repo)

    def b(x):
        return 'true' if x else 'false'

    data = ('End Gen.\n\n(* shapes read from storage/container.py, trajectory.py, ground_track.py, builders/base.py *)\n'
            f'Definition g_mp_bounds_checked : bool := {b(cf["bounds"])}.\n'
            f'Definition g_mp_normalises_negative : bool := {b(cf["norm"])}.\n'
            f'Definition g_start_capacity : nat := {cf["start"]}.\nDefinition g_capacity_expansion : nat := {cf["expand"]}.\n'
            f'Definition g_interp_slices_time : bool := {b(itf["slices_time"])}.\n'
            f'Definition g_interp_slices_values : bool := {b(itf["slices_values"])}.\n'
            f'Definition g_overstep : Z * Z * Z := (({gtf["from_wp"]})%Z, ({gtf["azimuth"]})%Z, ({gtf["offset_index"]})%Z).\n'
            f'Definition g_given_mass_fuel_derived : bool := {b(bf["given_fix"])}.\n')
    return ('(* generated by translator/c02_extract.py from the current source tree — do not edit *)\n'
            'From Coq Require Import ZArith PrimFloat Bool.\nFrom AV Require Import lib.Num model.C02_Model.\n'
            'Section Gen.\nContext {N : Num}.\nLocal Open Scope num_scope.\nLocal Open Scope bool_scope.\n\n'
            + '\n\n'.join(nm.defs) + '\n\n' + data)


if __name__ == '__main__':
    import sys
    print(extract(Path(sys.argv[1] if len(sys.argv) > 1 else '/repo')))

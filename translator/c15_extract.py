"""C15 extractor — shape-specific, fail closed.

  * missions/mission.py:Mission.gc_distance must be
        return GEOD.inv(<a1>, <a2>, <a3>, <a4>)[2]
    with each <ai> one of self.{origin,destination}_position.{longitude,latitude}; the four positional
    arguments are emitted in the order the source hands them to pyproj.
  * trajectories/ground_track.py:GroundTrack.Point.__post_init__ must be
        self.azimuth = self.azimuth % <literal>
    the modulus is emitted as a `Num` literal.
"""

from __future__ import annotations

import ast
from pathlib import Path

from translator.py2coq import Untranslatable, _parse, dump, find_function, lit_text, strip_doc

_ARG = {
    'self.origin_position.longitude': 'olon', 'self.origin_position.latitude': 'olat',
    'self.destination_position.longitude': 'dlon', 'self.destination_position.latitude': 'dlat',
}


def extract_c15(repo: Path) -> str:
    src = Path(repo) / 'src/AEIC'
    # --- Mission.gc_distance ---
    fn = find_function(_parse(src / 'missions/mission.py'), 'gc_distance', cls='Mission')
    body = strip_doc(fn.body)
    where = 'mission.py:Mission.gc_distance'
    if len(body) != 1 or not isinstance(body[0], ast.Return):
        raise Untranslatable(f'{where}: body must be a single return')
    v = body[0].value
    if not (isinstance(v, ast.Subscript) and isinstance(v.slice, ast.Constant) and v.slice.value == 2):
        raise Untranslatable(f'{where}: must return element [2] (the distance) of GEOD.inv(...)')
    call = v.value
    if not (isinstance(call, ast.Call) and dump(call.func) == dump(ast.parse('GEOD.inv', mode='eval').body)
            and len(call.args) == 4 and not call.keywords):
        raise Untranslatable(f'{where}: must call GEOD.inv with four positional arguments')
    names = []
    for a in call.args:
        key = ast.unparse(a)
        if key not in _ARG:
            raise Untranslatable(f'{where}: unexpected argument {key}')
        names.append(_ARG[key])
    # --- GEOD itself ---
    utils = (src / 'utils/__init__.py').read_text()
    umod = ast.parse(utils)
    geod = [s for s in umod.body if isinstance(s, ast.Assign) and len(s.targets) == 1
            and isinstance(s.targets[0], ast.Name) and s.targets[0].id == 'GEOD']
    if len(geod) != 1 or dump(geod[0].value) not in (dump(ast.parse("Geod(ellps='WGS84')", mode='eval').body),
                                                     dump(ast.parse('Geod(ellps="WGS84")', mode='eval').body)):
        raise Untranslatable('utils/__init__.py: GEOD must be Geod(ellps="WGS84")')
    # --- every geodesic computation of the two anchored modules goes through that one WGS-84 object ---
    for rel in ('trajectories/ground_track.py', 'missions/mission.py'):
        tree = _parse(src / rel)
        imports = [n for n in ast.walk(tree) if isinstance(n, ast.ImportFrom) and any(al.name == 'GEOD' for al in n.names)]
        if len(imports) != 1 or imports[0].module != 'AEIC.utils' or any(al.asname for al in imports[0].names):
            raise Untranslatable(f'{rel}: GEOD must be imported (once, unaliased) from AEIC.utils')
        for n in ast.walk(tree):
            if isinstance(n, (ast.Import, ast.ImportFrom)) and 'pyproj' in ast.unparse(n):
                raise Untranslatable(f'{rel}: direct pyproj import: {ast.unparse(n)}')
            if isinstance(n, ast.Name) and n.id in ('Geod', 'Proj', 'Transformer'):
                raise Untranslatable(f'{rel}: geodesic object other than AEIC.utils.GEOD: {n.id}')
            if isinstance(n, (ast.Assign, ast.AugAssign, ast.AnnAssign)) and 'GEOD' in \
                    [ast.unparse(t) for t in (n.targets if isinstance(n, ast.Assign) else [n.target])]:
                raise Untranslatable(f'{rel}: GEOD is rebound: {ast.unparse(n)[:80]}')
            if isinstance(n, ast.Attribute) and isinstance(n.value, ast.Name) and n.value.id == 'GEOD' \
                    and n.attr not in ('inv', 'fwd'):
                raise Untranslatable(f'{rel}: unexpected use of GEOD.{n.attr}')
    # --- Point.__post_init__ ---
    gmod = _parse(src / 'trajectories/ground_track.py')
    point = None
    for n in ast.walk(gmod):
        if isinstance(n, ast.ClassDef) and n.name == 'Point':
            point = n
    if point is None:
        raise Untranslatable('ground_track.py: class Point not found')
    post = [s for s in point.body if isinstance(s, ast.FunctionDef) and s.name == '__post_init__']
    if len(post) != 1:
        raise Untranslatable('ground_track.py: Point.__post_init__ not found')
    pb = strip_doc(post[0].body)
    ok = (len(pb) == 1 and isinstance(pb[0], ast.Assign) and len(pb[0].targets) == 1
          and ast.unparse(pb[0].targets[0]) == 'self.azimuth' and isinstance(pb[0].value, ast.BinOp)
          and isinstance(pb[0].value.op, ast.Mod) and ast.unparse(pb[0].value.left) == 'self.azimuth'
          and isinstance(pb[0].value.right, ast.Constant) and isinstance(pb[0].value.right.value, (int, float))
          and not isinstance(pb[0].value.right.value, bool))
    if not ok:
        raise Untranslatable('ground_track.py: Point.__post_init__ must be self.azimuth = self.azimuth % <literal>')
    modulus = ast.get_source_segment((src / 'trajectories/ground_track.py').read_text(), pb[0].value.right)
    return ('(* generated by translator/c15_extract.py from the current /repo working tree — do not edit *)\n'
            'From Coq Require Import ZArith PrimFloat.\nFrom AV Require Import lib.Num model.C15_Model.\n'
            'Section Gen.\nContext {N : Num}.\n'
            f'Definition gc_distance_extracted (olon olat dlon dlat : T N) : dexp N := DInv {" ".join(names)}.\n'
            f'Definition azimuth_modulus : T N := {lit_text(modulus)}.\n'
            'End Gen.\n')


if __name__ == '__main__':
    import sys
    print(extract_c15(Path(sys.argv[1] if len(sys.argv) > 1 else '/repo')))

"""C01 extractors — regenerate, from the current source, the constants / tables / formulas the
inventory bookkeeping rests on, as Gallina over `Num` (module Gen.C01_Extracted):

  units.py                 MINUTES_TO_SECONDS, PPM, KG_TO_GRAMS
  emissions/lto.py         _LTO_TIMS                          -> x_lto_tims : tmv
  emissions/ei/nox.py      NOx_speciation()                   -> x_sp_no / x_sp_no2 / x_sp_hono : tmv
  emissions/ei/sox.py      MW_*, EI_SOx(fuel)                 -> EI_SOx sulfur yield : (SOx, SO2, SO4)
  emissions/gse.py         _gse_nominal_profile, get_GSE_emissions -> x_gse_nominal, x_gse
  emissions/apu.py         get_APU_emissions                  -> x_apu, x_apu_pmnvoln_methods

Built on translator/py2coq.py (NumModule.expr / bexpr translate the expressions); the statement shapes
("species dictionary" bookkeeping: `d[Species.X] = expr`, loops over species lists, one `if flag:` block)
are handled here.  Everything else raises py2coq.Untranslatable: fail closed.
"""

from __future__ import annotations

import ast
import copy
from pathlib import Path

from translator.py2coq import NumModule, Untranslatable, find_function, lit_text, strip_doc

COQ_SPECIES = ['CO2', 'H2O', 'HC', 'CO', 'NOx', 'NO', 'NO2', 'HONO', 'PMnvol', 'PMnvolGMD', 'PMvol', 'OCic',
               'SOx', 'SO2', 'SO4', 'PMnvolN']
MODES = ['IDLE', 'APPROACH', 'CLIMB', 'TAKEOFF']
PMNVOL = {'MEEM': 'PN_MEEM', 'SCOPE11': 'PN_SCOPE11', 'FOA3': 'PN_FOA3', 'NONE': 'PN_NONE'}
ACCLASS = {'WIDE': 'AC_WIDE', 'NARROW': 'AC_NARROW', 'SMALL': 'AC_SMALL', 'FREIGHT': 'AC_FREIGHT'}


def _enum_member(n, enum: str):
    """`Enum.NAME` -> NAME (else None)."""
    if isinstance(n, ast.Attribute) and isinstance(n.value, ast.Name) and n.value.id == enum:
        return n.attr
    return None


def species_order(src: Path) -> list[str]:
    """types/species.py:Species must be an IntEnum whose members are all `auto()` in the order the Coq
    inductive lists them."""
    mod = ast.parse((src / 'types/species.py').read_text())
    for n in mod.body:
        if isinstance(n, ast.ClassDef) and n.name == 'Species':
            names = []
            for st in n.body:
                if isinstance(st, ast.Assign) and len(st.targets) == 1 and isinstance(st.targets[0], ast.Name):
                    v = st.value
                    if not (isinstance(v, ast.Call) and isinstance(v.func, ast.Name) and v.func.id == 'auto' and not v.args):
                        raise Untranslatable('Species: member not auto()')
                    names.append(st.targets[0].id)
                elif not (isinstance(st, ast.Expr) and isinstance(st.value, ast.Constant)):
                    raise Untranslatable('Species: unexpected statement in enum body')
            if names != COQ_SPECIES:
                raise Untranslatable(f'Species enum changed: {names}')
            return names
    raise Untranslatable('Species enum not found')


def thrust_mode_order(src: Path) -> list[str]:
    mod = ast.parse((src / 'performance/types.py').read_text())
    for n in mod.body:
        if isinstance(n, ast.ClassDef) and n.name == 'ThrustMode':
            names = [st.targets[0].id for st in n.body
                     if isinstance(st, ast.Assign) and len(st.targets) == 1 and isinstance(st.targets[0], ast.Name)
                     and isinstance(st.value, ast.Constant) and isinstance(st.value.value, str)]
            if names != MODES:
                raise Untranslatable(f'ThrustMode enum changed: {names}')
            return names
    raise Untranslatable('ThrustMode enum not found')


# ---------------------------------------------------------------------------
# lto.py:_LTO_TIMS
# ---------------------------------------------------------------------------

def extract_lto_tims(m: NumModule, path: Path):
    mod = m._src(path)
    for st in mod.body:
        if isinstance(st, ast.Assign) and len(st.targets) == 1 and isinstance(st.targets[0], ast.Name) \
                and st.targets[0].id == '_LTO_TIMS':
            v = st.value
            if not (isinstance(v, ast.Call) and isinstance(v.func, ast.Name) and v.func.id == 'ThrustModeValues'
                    and len(v.args) == 1 and not v.keywords and isinstance(v.args[0], ast.Dict)):
                raise Untranslatable('_LTO_TIMS: expected ThrustModeValues({...})')
            d = {}
            for k, val in zip(v.args[0].keys, v.args[0].values):
                name = _enum_member(k, 'ThrustMode')
                if name is None or name in d:
                    raise Untranslatable('_LTO_TIMS: keys must be distinct ThrustMode members')
                d[name] = m.expr(val, {}, '_LTO_TIMS')
            if sorted(d) != sorted(MODES):
                raise Untranslatable(f'_LTO_TIMS: modes {sorted(d)}')
            m.raw('Definition x_lto_tims : tmv := (' + ', '.join(d[k] for k in MODES) + ').')
            return
    raise Untranslatable('_LTO_TIMS not found')


# ---------------------------------------------------------------------------
# ei/nox.py:NOx_speciation
# ---------------------------------------------------------------------------

def extract_nox_speciation(m: NumModule, path: Path):
    mod = m._src(path)
    fn = find_function(mod, 'NOx_speciation')
    if fn.args.args or fn.args.vararg or fn.args.kwarg:
        raise Untranslatable('NOx_speciation: takes no arguments')
    env: dict[str, str] = {}
    body = strip_doc(fn.body)
    for st in body[:-1]:
        if not (isinstance(st, ast.Assign) and len(st.targets) == 1):
            raise Untranslatable('NOx_speciation: only assignments before the return')
        tgt, val = st.targets[0], st.value
        if isinstance(tgt, ast.Tuple):
            if not (isinstance(val, ast.Tuple) and len(val.elts) == len(tgt.elts)
                    and all(isinstance(t, ast.Name) for t in tgt.elts)):
                raise Untranslatable('NOx_speciation: tuple assignment shape')
            pairs = list(zip(tgt.elts, val.elts))
        elif isinstance(tgt, ast.Name):
            pairs = [(tgt, val)]
        else:
            raise Untranslatable('NOx_speciation: assignment target')
        new = {}
        for t, v in pairs:
            c = f'nsp_{t.id}'
            if t.id in env:
                raise Untranslatable(f'NOx_speciation: {t.id} assigned twice')
            m.raw(f'Definition {c} : T N := {m.expr(v, env, "NOx_speciation")}.')
            new[t.id] = c
        env.update(new)
    ret = body[-1]
    if not (isinstance(ret, ast.Return) and isinstance(ret.value, ast.Call) and isinstance(ret.value.func, ast.Name)
            and ret.value.func.id == 'NOXSpeciation' and not ret.value.args):
        raise Untranslatable('NOx_speciation: must return NOXSpeciation(no=..., no2=..., hono=...)')
    kws = {k.arg: k.value for k in ret.value.keywords}
    if sorted(kws) != ['hono', 'no', 'no2']:
        raise Untranslatable(f'NOx_speciation: fields {sorted(kws)}')
    for field, v in kws.items():
        if not (isinstance(v, ast.Call) and isinstance(v.func, ast.Name) and v.func.id == 'ThrustModeValues'
                and len(v.args) == 4 and not v.keywords):
            raise Untranslatable('NOx_speciation: each field must be ThrustModeValues(idle, approach, climb, takeoff)')
        m.raw(f'Definition x_sp_{field} : tmv := (' + ', '.join(m.expr(a, env, 'NOx_speciation') for a in v.args) + ').')


# ---------------------------------------------------------------------------
# utils.py:get_thrust_cat_cruise  and the speciation steps of ei/nox.py:BFFM2_EINOx / trajectory.py:compute_EI_NOx
# ---------------------------------------------------------------------------

TMODE = {'IDLE': 'TM_IDLE', 'APPROACH': 'TM_APPROACH', 'CLIMB': 'TM_CLIMB', 'TAKEOFF': 'TM_TAKEOFF'}


class _CalRewrite(ast.NodeTransformer):
    def __init__(self, cal):
        self.cal = cal

    def visit_Subscript(self, n):
        if isinstance(n.value, ast.Name) and n.value.id == self.cal and _enum_member(n.slice, 'ThrustMode'):
            return ast.copy_location(ast.Name(id=f'cal__{_enum_member(n.slice, "ThrustMode")}', ctx=ast.Load()), n)
        return self.generic_visit(n)


def extract_thrust_cat(m: NumModule, path: Path):
    mod = m._src(path)
    fn = find_function(mod, 'get_thrust_cat_cruise')
    args = [a.arg for a in fn.args.args]
    if len(args) != 2:
        raise Untranslatable('get_thrust_cat_cruise: signature')
    ev, cal = args
    rw = _CalRewrite(cal)
    env = {ev: 'v_ff', 'cal__IDLE': 'ff_idle', 'cal__APPROACH': 'ff_approach', 'cal__CLIMB': 'ff_climb',
           'cal__TAKEOFF': 'ff_takeoff'}
    lets = []
    body = strip_doc(fn.body)
    for st in body[:-1]:
        if not (isinstance(st, ast.Assign) and len(st.targets) == 1 and isinstance(st.targets[0], ast.Name)):
            raise Untranslatable('get_thrust_cat_cruise: only simple assignments before the return')
        node = rw.visit(copy.deepcopy(st.value))
        ast.fix_missing_locations(node)
        v = f'tc_{st.targets[0].id}'
        lets.append(f'let {v} := {m.expr(node, env, "get_thrust_cat_cruise")} in')
        env[st.targets[0].id] = v
    ret = body[-1]
    ok = (isinstance(ret, ast.Return) and _is_call(ret.value, 'ThrustModeArray', 1))
    sel = ret.value.args[0] if ok else None
    if not (ok and isinstance(sel, ast.Call) and ast.unparse(sel.func) == 'np.select' and len(sel.args) == 2
            and [k.arg for k in sel.keywords] == ['default'] and isinstance(sel.args[0], ast.List)
            and isinstance(sel.args[1], ast.List) and len(sel.args[0].elts) == len(sel.args[1].elts) >= 1):
        raise Untranslatable('get_thrust_cat_cruise: must return ThrustModeArray(np.select([conds], [modes], default=mode))')
    text = TMODE.get(_enum_member(sel.keywords[0].value, 'ThrustMode') or '')
    if text is None:
        raise Untranslatable('get_thrust_cat_cruise: default mode')
    for cnd, mo in reversed(list(zip(sel.args[0].elts, sel.args[1].elts))):
        mm = TMODE.get(_enum_member(mo, 'ThrustMode') or '')
        if mm is None:
            raise Untranslatable('get_thrust_cat_cruise: choice list')
        node = rw.visit(copy.deepcopy(cnd))
        ast.fix_missing_locations(node)
        text = f'if {m.bexpr(node, env, "get_thrust_cat_cruise")} then {mm} else {text}'
    m.raw('Definition x_thrust_cat (ff_idle ff_approach ff_climb ff_takeoff v_ff : T N) : tmode :=\n  '
          + '\n  '.join(lets) + f'\n  {text}.')


def extract_bffm2_parts(m: NumModule, nox_path: Path, traj_path: Path):
    """Which fraction table multiplies NOx for which species, read off BFFM2_EINOx and compute_EI_NOx."""
    fn = find_function(ast.parse(Path(nox_path).read_text()), 'BFFM2_EINOx')
    cat_var = sp_var = None
    props, prods, ret = {}, {}, None
    for st in fn.body:
        if isinstance(st, ast.Assign) and len(st.targets) == 1 and isinstance(st.targets[0], ast.Name):
            t, v = st.targets[0].id, st.value
            if _is_call(v, 'get_thrust_cat_cruise', 2):
                if [ast.unparse(a) for a in v.args] != ['sls_equiv_fuel_flow', 'fuelflow_performance']:
                    raise Untranslatable('BFFM2_EINOx: thrust category must be taken from (sls_equiv_fuel_flow, fuelflow_performance)')
                cat_var = t
            elif _is_call(v, 'NOx_speciation', 0):
                sp_var = t
            elif isinstance(v, ast.Call) and ast.unparse(v.func) == 'np.array' and len(v.args) == 1 \
                    and isinstance(v.args[0], ast.ListComp):
                lc = v.args[0]
                g = lc.generators[0]
                if len(lc.generators) == 1 and not g.ifs and isinstance(g.target, ast.Name) and isinstance(g.iter, ast.Name) \
                        and g.iter.id == cat_var and isinstance(lc.elt, ast.Subscript) \
                        and isinstance(lc.elt.value, ast.Attribute) and isinstance(lc.elt.value.value, ast.Name) \
                        and lc.elt.value.value.id == sp_var and isinstance(lc.elt.slice, ast.Name) \
                        and lc.elt.slice.id == g.target.id and lc.elt.value.attr in ('no', 'no2', 'hono'):
                    props[t] = lc.elt.value.attr
            elif isinstance(v, ast.BinOp) and isinstance(v.op, ast.Mult) and isinstance(v.left, ast.Name) \
                    and isinstance(v.right, ast.Name) and v.right.id in props:
                prods[t] = (v.left.id, props[v.right.id])
        elif isinstance(st, ast.Return):
            ret = st.value
    if not (cat_var and sp_var and ret is not None and isinstance(ret, ast.Call) and not ret.args):
        raise Untranslatable('BFFM2_EINOx: speciation steps not recognised')
    fields = {k.arg: k.value.id for k in ret.keywords if isinstance(k.value, ast.Name)}
    # trajectory.py:compute_EI_NOx: indices[Species.X] = bffm2_result.<field>
    fn2 = find_function(ast.parse(Path(traj_path).read_text()), 'compute_EI_NOx')
    spmap, res_var = {}, None
    for n in ast.walk(fn2):
        if isinstance(n, ast.Assign) and len(n.targets) == 1 and _is_call(n.value, 'BFFM2_EINOx') is False:
            pass
        if isinstance(n, ast.Assign) and len(n.targets) == 1 and isinstance(n.value, ast.Call) \
                and isinstance(n.value.func, ast.Name) and n.value.func.id == 'BFFM2_EINOx':
            res_var = n.targets[0].id
            kw = {k.arg: ast.unparse(k.value) for k in n.value.keywords}
            if kw.get('sls_equiv_fuel_flow') != 'sls_equiv_fuel_flow' or kw.get('fuelflow_performance') != 'lto.fuel_flow' \
                    or kw.get('EI_NOx_matrix') != 'lto.EI_NOx':
                raise Untranslatable('compute_EI_NOx: arguments of BFFM2_EINOx changed')
    for n in ast.walk(fn2):
        if isinstance(n, ast.Assign) and len(n.targets) == 1 and isinstance(n.targets[0], ast.Subscript) \
                and isinstance(n.targets[0].value, ast.Name) and n.targets[0].value.id == 'indices' \
                and _enum_member(n.targets[0].slice, 'Species') and isinstance(n.value, ast.Attribute) \
                and isinstance(n.value.value, ast.Name) and n.value.value.id == res_var:
            spmap[_enum_member(n.targets[0].slice, 'Species')] = n.value.attr
    if sorted(spmap) != ['HONO', 'NO', 'NO2', 'NOx']:
        raise Untranslatable(f'compute_EI_NOx: species written from the BFFM2 result: {sorted(spmap)}')
    whole = fields.get(spmap['NOx'])
    out = []
    for s in ('NO', 'NO2', 'HONO'):
        var = fields.get(spmap[s])
        if var not in prods or prods[var][0] != whole:
            raise Untranslatable(f'BFFM2_EINOx: {s} is not <NOx array> * <fraction by thrust category>')
        out.append(f'v_nox * tm_get cat x_sp_{prods[var][1]}')
    m.raw('(* (NO, NO2, HONO) at a point of thrust category cat with NOx index v_nox *)\n'
          'Definition x_bffm2_parts (cat : tmode) (v_nox : T N) : T N * T N * T N :=\n  (' + ', '.join(out) + ').')


# ---------------------------------------------------------------------------
# the "species dictionary" statement translator (gse.py, apu.py)
# ---------------------------------------------------------------------------

class _Rewrite(ast.NodeTransformer):
    """`d[Species.X]` -> Name d__X ; `lto_indices[Species.X][ThrustMode.M]` -> Name lto__X__M ;
    `<speciation var>.f[ThrustMode.M]` -> Name sp__f__M"""

    def __init__(self, containers, lto_name, sp_name):
        self.containers, self.lto_name, self.sp_name = containers, lto_name, sp_name

    def visit_Subscript(self, n):
        # lto_indices[Species.X][ThrustMode.M]
        if isinstance(n.value, ast.Subscript) and isinstance(n.value.value, ast.Name) and n.value.value.id == self.lto_name:
            s, mo = _enum_member(n.value.slice, 'Species'), _enum_member(n.slice, 'ThrustMode')
            if s and mo:
                return ast.copy_location(ast.Name(id=f'lto__{s}__{mo}', ctx=ast.Load()), n)
        if isinstance(n.value, ast.Attribute) and isinstance(n.value.value, ast.Name) and n.value.value.id == self.sp_name:
            mo = _enum_member(n.slice, 'ThrustMode')
            if mo and n.value.attr in ('no', 'no2', 'hono'):
                return ast.copy_location(ast.Name(id=f'sp__{n.value.attr}__{mo}', ctx=ast.Load()), n)
        if isinstance(n.value, ast.Name) and n.value.id in self.containers:
            s = _enum_member(n.slice, 'Species')
            if s:
                return ast.copy_location(ast.Name(id=f'{n.value.id}__{s}', ctx=n.ctx), n)
        return self.generic_visit(n)


class DictFn:
    def __init__(self, m: NumModule, where: str, env: dict[str, str], containers: set[str],
                 lto_name: str | None = None, sp_name: str | None = None):
        self.m, self.where = m, where
        self.env = dict(env)
        self.containers = set(containers)
        self.rw = _Rewrite(self.containers, lto_name, sp_name)
        self.keys: dict[str, list[str]] = {c: [] for c in containers}    # insertion order of species keys
        self.lets: list[str] = []
        self.n = 0

    def fresh(self, base):
        self.n += 1
        return f'{base}_{self.n}'

    def tr(self, node, env=None):
        node = self.rw.visit(copy.deepcopy(node))
        ast.fix_missing_locations(node)
        env = self.env if env is None else env
        try:
            text = self.m.expr(node, env, self.where)
            if text.startswith('(*b*)'):
                return text[5:], True
            return text, False
        except Untranslatable as e1:
            try:
                return self.m.bexpr(node, env, self.where), True
            except Untranslatable:
                raise e1 from None

    def bind(self, key: str, node, env=None, lets=None):
        env = self.env if env is None else env
        lets = self.lets if lets is None else lets
        text, is_bool = self.tr(node, env)
        v = self.fresh(key)
        lets.append(f'let {v} := {text} in')
        env[key] = ('(*b*)' + v) if is_bool else v
        c, _, s = key.partition('__')
        if c in self.containers and s and s not in self.keys[c]:
            self.keys[c].append(s)

    def target_key(self, tgt):
        tgt = self.rw.visit(copy.deepcopy(tgt))
        if isinstance(tgt, ast.Name):
            return tgt.id
        raise Untranslatable(f'{self.where}: assignment target {ast.unparse(tgt)}')

    def straight(self, stmts, env, lets):
        """plain assignments / augmented assignments only (inside an if-branch)"""
        for st in stmts:
            if isinstance(st, ast.Assign) and len(st.targets) == 1:
                self.bind(self.target_key(st.targets[0]), st.value, env, lets)
            elif isinstance(st, ast.AugAssign) and isinstance(st.op, (ast.Add, ast.Sub, ast.Mult, ast.Div)):
                key = self.target_key(st.target)
                node = ast.BinOp(left=ast.Name(id=key, ctx=ast.Load()), op=st.op, right=st.value)
                ast.copy_location(node, st)
                self.bind(key, node, env, lets)
            else:
                raise Untranslatable(f'{self.where}: statement in branch: {ast.unparse(st)[:70]}')

    def if_block(self, st: ast.If):
        test, is_bool = self.tr(st.test)
        if not is_bool:
            raise Untranslatable(f'{self.where}: if-test is not boolean')
        saved_keys = {c: list(v) for c, v in self.keys.items()}
        e1, l1 = dict(self.env), []
        self.straight(st.body, e1, l1)
        k1 = {c: list(v) for c, v in self.keys.items()}
        self.keys = {c: list(v) for c, v in saved_keys.items()}
        e2, l2 = dict(self.env), []
        self.straight(st.orelse, e2, l2)
        k2 = self.keys
        if k1 != k2:
            raise Untranslatable(f'{self.where}: the two branches of `if {ast.unparse(st.test)}` write different species')
        ch1 = {k for k in e1 if e1[k] != self.env.get(k)}
        ch2 = {k for k in e2 if e2[k] != self.env.get(k)}
        merged = sorted(k for k in ch1 | ch2 if (k in ch1 and k in ch2) or k in self.env)
        if not merged:
            raise Untranslatable(f'{self.where}: if-block without effect')
        if any(e1.get(k, '').startswith('(*b*)') or e2.get(k, '').startswith('(*b*)') for k in merged):
            raise Untranslatable(f'{self.where}: boolean assigned in if-block')
        tup = lambda e: ('(' + ', '.join(e[k] for k in merged) + ')') if len(merged) > 1 else e[merged[0]]  # noqa: E731
        news = [self.fresh(k) for k in merged]
        pat = ("'(" + ', '.join(news) + ')') if len(news) > 1 else news[0]
        self.lets.append(f'let {pat} := (if {test} then {" ".join(l1)} {tup(e1)} else {" ".join(l2)} {tup(e2)}) in')
        for k, v in zip(merged, news):
            self.env[k] = v


def _is_call(n, fname, nargs=None):
    return isinstance(n, ast.Call) and isinstance(n.func, ast.Name) and n.func.id == fname and not n.keywords \
        and (nargs is None or len(n.args) == nargs)


def _species_list(n):
    if isinstance(n, ast.List):
        out = [_enum_member(e, 'Species') for e in n.elts]
        if all(out):
            return out
    return None


def coq_pairs(d: DictFn, container: str, order: list[str], only=None):
    ks = [s for s in order if s in d.keys[container] and (only is None or s in only)]
    return '[' + '; '.join(f'({s}, {d.env[f"{container}__{s}"]})' for s in ks) + ']'


# ---------------------------------------------------------------------------
# gse.py
# ---------------------------------------------------------------------------

def extract_gse(m: NumModule, path: Path, order: list[str]):
    mod = m._src(path)
    # -- _gse_nominal_profile: match aircraft_class: case AircraftClass.X: return (SpeciesValues[float]({...}), pm)
    fn = find_function(mod, '_gse_nominal_profile')
    body = strip_doc(fn.body)
    if len(body) != 1 or not isinstance(body[0], ast.Match):
        raise Untranslatable('_gse_nominal_profile: expected a single match statement')
    arms = {}
    for case in body[0].cases:
        pat = case.pattern
        if not (isinstance(pat, ast.MatchValue) and _enum_member(pat.value, 'AircraftClass') and case.guard is None):
            raise Untranslatable('_gse_nominal_profile: case pattern')
        k = _enum_member(pat.value, 'AircraftClass')
        if len(case.body) != 1 or not isinstance(case.body[0], ast.Return) or not isinstance(case.body[0].value, ast.Tuple) \
                or len(case.body[0].value.elts) != 2:
            raise Untranslatable('_gse_nominal_profile: each case returns (SpeciesValues({...}), pm)')
        sv, pmv = case.body[0].value.elts
        if not (isinstance(sv, ast.Call) and len(sv.args) == 1 and isinstance(sv.args[0], ast.Dict)
                and isinstance(sv.func, ast.Subscript) and isinstance(sv.func.value, ast.Name)
                and sv.func.value.id == 'SpeciesValues'):
            raise Untranslatable('_gse_nominal_profile: SpeciesValues[float]({...})')
        dd = {}
        for kk, vv in zip(sv.args[0].keys, sv.args[0].values):
            s = _enum_member(kk, 'Species')
            if not s or s in dd:
                raise Untranslatable('_gse_nominal_profile: dictionary keys')
            dd[s] = m.expr(vv, {}, '_gse_nominal_profile')
        if sorted(dd) != ['CO', 'CO2', 'HC', 'NOx']:
            raise Untranslatable(f'_gse_nominal_profile: species {sorted(dd)}')
        if k in arms:
            raise Untranslatable('_gse_nominal_profile: duplicate case')
        arms[k] = f"({dd['CO2']}, {dd['NOx']}, {dd['HC']}, {dd['CO']}, {m.expr(pmv, {}, '_gse_nominal_profile')})"
    if sorted(arms) != sorted(ACCLASS):
        raise Untranslatable(f'_gse_nominal_profile: classes {sorted(arms)}')
    m.raw('Definition x_gse_nominal (k : acclass) : T N * T N * T N * T N * T N :=\n  match k with\n'
          + '\n'.join(f'  | {ACCLASS[k]} => {arms[k]}' for k in ACCLASS) + '\n  end.')

    # -- get_GSE_emissions
    fn = find_function(mod, 'get_GSE_emissions')
    if [a.arg for a in fn.args.args] != ['aircraft_class', 'fuel']:
        raise Untranslatable('get_GSE_emissions: signature')
    env = {'fuel.EI_CO2': 'fuel_EI_CO2', 'fuel.EI_H2O': 'fuel_EI_H2O',
           'PPM': m.coqname['PPM'], 'KG_TO_GRAMS': m.coqname['KG_TO_GRAMS']}
    for s in ('CO2', 'NOx', 'HC', 'CO'):
        env[f'nominal__{s}'] = f'nominal_{s}'
    d = DictFn(m, 'get_GSE_emissions', env, {'gse', 'nominal'})
    result = None
    for st in strip_doc(fn.body):
        if isinstance(st, ast.Assign) and len(st.targets) == 1:
            tgt, val = st.targets[0], st.value
            if isinstance(tgt, ast.Name) and tgt.id == 'gse' and isinstance(val, ast.Call) and not val.args:
                continue                                           # gse = SpeciesValues[float]()
            if isinstance(tgt, ast.Tuple) and [getattr(e, 'id', None) for e in tgt.elts] == ['nominal', 'pm_core'] \
                    and _is_call(val, '_gse_nominal_profile', 1) and isinstance(val.args[0], ast.Name) \
                    and val.args[0].id == 'aircraft_class':
                d.env['pm_core'] = 'pm_core'
                continue
            d.bind(d.target_key(tgt), val)
        elif isinstance(st, ast.For) and isinstance(st.target, ast.Name) and _species_list(st.iter) and not st.orelse \
                and len(st.body) == 1 and isinstance(st.body[0], ast.Assign):
            a = st.body[0]
            want = ast.parse(f'gse[{st.target.id}] = nominal[{st.target.id}]').body[0]
            if ast.dump(a) != ast.dump(want):
                raise Untranslatable('get_GSE_emissions: loop body must be gse[species] = nominal[species]')
            for s in _species_list(st.iter):
                if f'nominal__{s}' not in d.env:
                    raise Untranslatable(f'get_GSE_emissions: no nominal value for {s}')
                d.bind(f'gse__{s}', ast.Name(id=f'nominal__{s}', ctx=ast.Load()))
        elif isinstance(st, ast.Return):
            v = st.value
            if not (isinstance(v, ast.Call) and isinstance(v.func, ast.Name) and v.func.id == 'EmissionsSubset' and not v.args):
                raise Untranslatable('get_GSE_emissions: return EmissionsSubset(emissions=gse, fuel_burn=...)')
            kw = {k.arg: k.value for k in v.keywords}
            if sorted(kw) != ['emissions', 'fuel_burn'] or not (isinstance(kw['emissions'], ast.Name) and kw['emissions'].id == 'gse'):
                raise Untranslatable('get_GSE_emissions: returned fields')
            result = d.tr(kw['fuel_burn'])[0]
        else:
            raise Untranslatable(f'get_GSE_emissions: statement {ast.unparse(st)[:70]}')
    if result is None:
        raise Untranslatable('get_GSE_emissions: no return')
    m.raw('Definition x_gse (k : acclass) (fuel_EI_CO2 fuel_EI_H2O : T N) : list (species * T N) * T N :=\n'
          "  let '(nominal_CO2, nominal_NOx, nominal_HC, nominal_CO, pm_core) := x_gse_nominal k in\n  "
          + '\n  '.join(d.lets) + f'\n  ({coq_pairs(d, "gse", order)}, {result}).')


# ---------------------------------------------------------------------------
# apu.py
# ---------------------------------------------------------------------------

def extract_apu(m: NumModule, path: Path, order: list[str]) -> dict:
    mod = m._src(path)
    fn = find_function(mod, 'get_APU_emissions')
    if [a.arg for a in fn.args.args] != ['lto_indices', 'apu', 'fuel', 'apu_time'] or len(fn.args.defaults) != 1:
        raise Untranslatable('get_APU_emissions: signature')
    env = {'apu_time': m.expr(fn.args.defaults[0], {}, 'get_APU_emissions'), 'fuel.EI_H2O': 'fuel_EI_H2O'}
    for a in ('fuel_kg_per_s', 'PM10_g_per_kg', 'NOx_g_per_kg', 'HC_g_per_kg', 'CO_g_per_kg'):
        env[f'apu.{a}'] = f'apu_{a}'
    for s in ('SO2', 'SO4'):
        env[f'lto__{s}__IDLE'] = f'lto_{s}_idle'
    for f in ('no', 'no2', 'hono'):
        for mo, acc in zip(MODES, ('tm_idle', 'tm_approach', 'tm_climb', 'tm_takeoff')):
            env[f'sp__{f}__{mo}'] = f'({acc} x_sp_{f})'
    d = DictFn(m, 'get_APU_emissions', env, {'indices', 'emissions'}, lto_name='lto_indices', sp_name='nox_speciation')
    meta = {'guards_missing_lto_keys': [], 'pmnvoln_methods': None}
    cond_lets: list[str] = []
    result = None

    def strip_membership(node):
        """`<flag> and Species.X in lto_indices` -> (<flag>, X): the repaired code guards the LTO read."""
        found = []

        class T(ast.NodeTransformer):
            def visit_BoolOp(self, n):
                self.generic_visit(n)
                if isinstance(n.op, ast.And):
                    keep = []
                    for v in n.values:
                        if isinstance(v, ast.Compare) and len(v.ops) == 1 and isinstance(v.ops[0], ast.In) \
                                and _enum_member(v.left, 'Species') and isinstance(v.comparators[0], ast.Name) \
                                and v.comparators[0].id == 'lto_indices':
                            found.append(_enum_member(v.left, 'Species'))
                        else:
                            keep.append(v)
                    if len(keep) == 1:
                        return keep[0]
                    n.values = keep
                return n
        return T().visit(copy.deepcopy(node)), found

    for st in strip_doc(fn.body):
        if isinstance(st, ast.Assign) and len(st.targets) == 1:
            tgt, val = st.targets[0], st.value
            if isinstance(tgt, ast.Name) and tgt.id in ('indices', 'emissions') and isinstance(val, ast.Call) and not val.args:
                continue
            if isinstance(tgt, ast.Name) and tgt.id == 'nox_speciation' and _is_call(val, 'NOx_speciation', 0):
                continue
            key = d.target_key(tgt)
            if key in ('indices__SO2', 'indices__SO4'):
                val, found = strip_membership(val)
                if found:
                    if found != [key.split('__')[1]]:
                        raise Untranslatable('get_APU_emissions: membership guard on the wrong species')
                    meta['guards_missing_lto_keys'].append(found[0])
            d.bind(key, val)
        elif isinstance(st, ast.If):
            t = st.test
            if isinstance(t, ast.Compare) and len(t.ops) == 1 and isinstance(t.ops[0], ast.In) \
                    and ast.unparse(t.left) == 'config.emissions.pmnvol_method' and isinstance(t.comparators[0], ast.Tuple):
                ms = [_enum_member(e, 'PMnvolMethod') for e in t.comparators[0].elts]
                want = ast.parse('indices[Species.PMnvolN] = 0.0').body[0]
                if not all(ms) or st.orelse or len(st.body) != 1 or ast.dump(st.body[0]) != ast.dump(want) \
                        or meta['pmnvoln_methods'] is not None:
                    raise Untranslatable('get_APU_emissions: PMnvolN block shape')
                meta['pmnvoln_methods'] = ms
                d.bind('indices__PMnvolN', st.body[0].value)
            else:
                d.if_block(st)
        elif isinstance(st, ast.For) and isinstance(st.target, ast.Name) and isinstance(st.iter, ast.Name) \
                and st.iter.id == 'indices' and not st.orelse and len(st.body) == 1:
            sp = st.target.id
            want = ast.parse(f'emissions[{sp}] = indices[{sp}] * apu_fuel_burn').body[0]
            if ast.dump(st.body[0]) != ast.dump(want):
                raise Untranslatable('get_APU_emissions: loop body must be emissions[s] = indices[s] * apu_fuel_burn')
            for s in list(d.keys['indices']):
                d.bind(f'emissions__{s}', ast.BinOp(left=ast.Name(id=f'indices__{s}', ctx=ast.Load()), op=ast.Mult(),
                                                    right=ast.Name(id='apu_fuel_burn', ctx=ast.Load())))
        elif isinstance(st, ast.Return):
            v = st.value
            if not (_is_call(v, 'EmissionsSubset', 3) and [getattr(a, 'id', None) for a in v.args[:2]] == ['indices', 'emissions']):
                raise Untranslatable('get_APU_emissions: return EmissionsSubset(indices, emissions, fuel)')
            result = d.tr(v.args[2])[0]
        else:
            raise Untranslatable(f'get_APU_emissions: statement {ast.unparse(st)[:70]}')
    if result is None or meta['pmnvoln_methods'] is None:
        raise Untranslatable('get_APU_emissions: no return / no PMnvolN block')
    if sorted(meta['guards_missing_lto_keys']) not in ([], ['SO2', 'SO4']):
        raise Untranslatable('get_APU_emissions: the LTO read is guarded for one of SO2/SO4 only')
    del cond_lets
    m.raw('Definition x_apu_pmnvoln_methods : list pmnvol_method := ['
          + '; '.join(PMNVOL[x] for x in meta['pmnvoln_methods']) + '].')
    m.raw('Definition x_apu_guards_missing_lto_keys : bool := ' + ('true' if meta['guards_missing_lto_keys'] else 'false') + '.')
    m.raw('(* indices, amounts (PMnvolN included: it is written only under x_apu_pmnvoln_methods), fuel burn *)\n'
          'Definition x_apu (lto_SO2_idle lto_SO4_idle apu_fuel_kg_per_s apu_PM10_g_per_kg apu_NOx_g_per_kg '
          'apu_HC_g_per_kg apu_CO_g_per_kg fuel_EI_H2O : T N)\n  : list (species * T N) * list (species * T N) * T N :=\n  '
          + '\n  '.join(d.lets) + f'\n  ({coq_pairs(d, "indices", order)}, {coq_pairs(d, "emissions", order)}, {result}).')
    return meta


# ---------------------------------------------------------------------------
# all of it
# ---------------------------------------------------------------------------

HEADER = ('(* generated by translator/c01_extract.py from the current working tree of the repository — do not edit *)\n'
          'From Coq Require Import ZArith PrimFloat Bool List.\n'
          'From AV Require Import lib.Num model.C11_Model model.C01_Model.\nImport ListNotations.\n'
          'Section Gen.\nContext {N : Num}.\nLocal Open Scope num_scope.\nLocal Open Scope bool_scope.\n\n')


def extract_all(src: Path, want_meta: bool = False):
    """src = <repo>/src/AEIC"""
    src = Path(src)
    order = species_order(src)
    thrust_mode_order(src)
    m = NumModule('C01_Extracted')
    m.constants(src / 'units.py', ['MINUTES_TO_SECONDS', 'PPM', 'KG_TO_GRAMS'])
    extract_lto_tims(m, src / 'emissions/lto.py')
    extract_nox_speciation(m, src / 'emissions/ei/nox.py')
    extract_thrust_cat(m, src / 'emissions/utils.py')
    extract_bffm2_parts(m, src / 'emissions/ei/nox.py', src / 'emissions/trajectory.py')
    m.constants(src / 'emissions/ei/sox.py', ['MW_SO2', 'MW_SO4', 'MW_S'])
    m.function(src / 'emissions/ei/sox.py', 'EI_SOx', attrs={'fuel': ['fuel_sulfur_content_nom', 'sulfate_yield_nom']},
               result_fields=['EI_SOx', 'EI_SO2', 'EI_SO4'])
    extract_gse(m, src / 'emissions/gse.py', order)
    meta = extract_apu(m, src / 'emissions/apu.py', order)
    text = HEADER + '\n\n'.join(m.defs) + '\n\nEnd Gen.\n'
    return (text, meta) if want_meta else text


if __name__ == '__main__':
    import sys
    print(extract_all(Path(sys.argv[1] if len(sys.argv) > 1 else '/repo/src/AEIC')))

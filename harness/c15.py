"""C15 — ground tracks and mission distances are true WGS-84 great circles.

Tie:    translator/c15_extract.py (argument order of Mission.gc_distance, azimuth modulus, GEOD ellipsoid) ->
        Gen.C15_Extracted + link/C15_Link.v;
        correspondence: GroundTrack.location / step / index / total_distance and Mission.gc_distance on seeded
        tracks vs `C15_Model` evaluated inside Coq (FNum).  The model returns ORACLE SCRIPTS
        (PFwd k az d, AInvFrom p j, DInv x1 y1 x2 y2 ...) that are evaluated here with pyproj and compared with
        the implementation; the raw azimuth goes back into Coq for `norm360`.
Oracle: independent pyproj calls on a fresh Geod(ellps='WGS84'): line_length for totals, inverse problems from
        the leg start to the returned point (distance = offset; point on the leg by the triangle equality),
        step(a, b) vs location(a + b), overstep collinearity, azimuth range, refusals, mission distance vs track
        length and vs the reversed mission.
"""

from __future__ import annotations

import json
import math
import os

from harness.common import REPO, VERIF, Check, close, coq_float, nat

F13_SIG = 'mission-gc-distance-lat-lon-exchanged'

HEADER = ('From Coq Require Import ZArith List PrimFloat.\nFrom AV Require Import lib.Num lib.FloatMath model.C15_Model.\n'
          'Import ListNotations.\nOpen Scope float_scope.\n')

HALF = 19_000_000.0       # below this, geodesics from pyproj are unique shortest paths (half circumference ~ 20 004 km)
TOL_M = 1e-3              # 1 mm: geodesic round trips are good to nanometres; semantic errors are metres to 1000s of km

_geod = None


def G():
    global _geod
    if _geod is None:
        import pyproj
        _geod = pyproj.Geod(ellps='WGS84')
    return _geod


# ---------------------------------------------------------------------------------------------
# generation
# ---------------------------------------------------------------------------------------------

def rnd_point(rng):
    return [rng.uniform(-180.0, 180.0), math.degrees(math.asin(rng.uniform(-1.0, 1.0)))]


def antipode(p):
    lon = p[0] + 180.0
    if lon > 180.0:
        lon -= 360.0
    return [lon, -p[1]]


def gen_pair(rng):
    kind = rng.choice(['generic', 'generic', 'antimeridian', 'polar', 'antipodal', 'same-lon', 'same-lat', 'equator',
                       'close', 'continental'])
    if kind == 'generic':
        a, b = rnd_point(rng), rnd_point(rng)
    elif kind == 'antimeridian':
        a = [rng.uniform(150.0, 180.0), rng.uniform(-60.0, 60.0)]
        b = [rng.uniform(-180.0, -150.0), rng.uniform(-60.0, 60.0)]
        if rng.random() < 0.2:
            a[0] = 180.0
        if rng.random() < 0.2:
            b[0] = -180.0
    elif kind == 'polar':
        a = [rng.uniform(-180.0, 180.0), rng.choice([1, -1]) * rng.choice([85.0, 89.0, 89.999, 90.0])]
        b = rnd_point(rng) if rng.random() < 0.5 else [rng.uniform(-180.0, 180.0), rng.choice([1, -1]) * rng.uniform(84.0, 90.0)]
    elif kind == 'antipodal':
        a = rnd_point(rng)
        b = antipode(a)
        off = rng.choice([0.01, 0.1, 0.5, 2.0])
        b = [max(-180.0, min(180.0, b[0] + rng.uniform(-off, off))), max(-90.0, min(90.0, b[1] + rng.uniform(-off, off)))]
    elif kind == 'same-lon':
        lon = rng.uniform(-180.0, 180.0)
        a, b = [lon, rng.uniform(-80.0, 80.0)], [lon, rng.uniform(-80.0, 80.0)]
    elif kind == 'same-lat':
        lat = rng.uniform(-80.0, 80.0)
        a, b = [rng.uniform(-180.0, 180.0), lat], [rng.uniform(-180.0, 180.0), lat]
    elif kind == 'equator':
        a, b = [rng.uniform(-180.0, 180.0), 0.0], [rng.uniform(-180.0, 180.0), 0.0]
    elif kind == 'close':
        a = rnd_point(rng)
        s = rng.choice([1e-5, 1e-3, 0.05])
        b = [max(-180.0, min(180.0, a[0] + rng.uniform(-s, s))), max(-90.0, min(90.0, a[1] + rng.uniform(-s, s)))]
    else:
        a = [rng.uniform(-125.0, -70.0), rng.uniform(25.0, 49.0)]
        b = [rng.uniform(-125.0, -70.0), rng.uniform(25.0, 49.0)]
    if rng.random() < 0.5:
        a, b = b, a
    return kind, a, b


def gen_dense_track(rng, tid):
    """dense-fix track (ADS-B style): legs of 10 m - 1 km, laid out with pyproj from a start that sits next to the
    antimeridian, next to a pole, or anywhere; mixed with a few long legs"""
    where = rng.choice(['antimeridian', 'antimeridian', 'pole', 'pole', 'anywhere'])
    if where == 'antimeridian':
        start = [rng.choice([179.9998, -179.9997, 179.99995]), rng.uniform(-70.0, 70.0)]
        az0 = 90.0 if start[0] > 0 else -90.0
    elif where == 'pole':
        start = [rng.uniform(-180.0, 180.0), rng.choice([1, -1]) * rng.choice([89.9995, 89.99, 89.9])]
        az0 = rng.uniform(-180.0, 180.0)
    else:
        start = rnd_point(rng)
        az0 = rng.uniform(-180.0, 180.0)
    wps = [start]
    for k in range(rng.choice([2, 3, 4, 5])):
        long_leg = k > 0 and rng.random() < 0.25
        d = rng.uniform(2e5, 3e6) if long_leg else rng.choice([rng.uniform(10.0, 250.0), rng.uniform(10.0, 250.0),
                                                               rng.uniform(250.0, 1000.0)])
        az = az0 + rng.uniform(-25.0, 25.0) if k == 0 or rng.random() < 0.7 else rng.uniform(-180.0, 180.0)
        lon, lat, _ = G().fwd(wps[-1][0], wps[-1][1], az, d)
        wps.append([float(lon), float(lat)])
    return {'id': tid, 'kind': 'dense-' + where, 'wps': wps, 'allow': rng.random() < 0.5}


def gen_track(rng, tid):
    if rng.random() < 0.2:
        return gen_dense_track(rng, tid)
    kind, a, b = gen_pair(rng)
    n = rng.choice([2, 2, 2, 3, 4, 5, 6])
    wps = [a, b]
    while len(wps) < n:
        r = rng.random()
        if r < 0.08:
            wps.append(list(wps[-1]))                      # repeated waypoint: zero-length leg
        elif r < 0.5:
            last = wps[-1]
            wps.append([max(-180.0, min(180.0, last[0] + rng.uniform(-8.0, 8.0))),
                        max(-90.0, min(90.0, last[1] + rng.uniform(-5.0, 5.0)))])
        else:
            wps.append(gen_pair(rng)[2])
    if n == 2 and rng.random() < 0.02:
        wps[1] = list(wps[0])
    return {'id': tid, 'kind': kind, 'wps': wps, 'allow': rng.random() < 0.5}


def near_end(rng, total):
    """a distance at the end of the track +- {1 ulp, 1e-9 .. 1e-5 relative, 1 mm, 1 m, 5 m}: the end is exact —
    total_distance itself is inside, the next float is outside"""
    kind = rng.choice(['ulp', 1e-9, 1e-7, 1e-6, 1e-5, '1mm', '1m', '5m'])
    sign = rng.choice([1.0, 1.0, -1.0])
    if kind == 'ulp':
        return math.nextafter(total, math.inf if sign > 0 else -math.inf)
    delta = {'1mm': 1e-3, '1m': 1.0, '5m': 5.0}.get(kind) or kind * total
    return max(total + sign * delta, 0.0)


def gen_queries(rng, index, nq):
    total = index[-1]
    qs = []
    big = max(total, 1000.0)
    if total > 10.0:
        for _ in range(3):
            qs.append({'op': 'loc', 'd': near_end(rng, total), 'near_end': True})
            target = near_end(rng, total)
            a = rng.choice([0.0, total * rng.uniform(0.0, 1.0), rng.choice(index[:-1]), total])
            if target >= a:
                qs.append({'op': 'step', 'a': a, 'b': target - a, 'near_end': True})
    # steps that END EXACTLY on a waypoint's cumulative distance / on the total (a + b evaluated with the same float
    # addition as the code): from 0, from an earlier waypoint, from inside a leg — flying a track leg by leg
    def exact_step(a, target):
        b = target - a
        for cand in (b, math.nextafter(b, math.inf), math.nextafter(b, -math.inf)):
            if cand >= 0.0 and a + cand == target:
                return {'op': 'step', 'a': a, 'b': cand, 'ends_on_waypoint': True}
        return None
    for k in range(1, len(index)):
        if index[k] <= 0.0:
            continue
        starts = [0.0, index[k - 1], index[k - 1] + rng.uniform(0.05, 0.95) * (index[k] - index[k - 1])]
        if k >= 2:
            starts.append(index[rng.randrange(0, k - 1)])
        for a in rng.sample(starts, min(len(starts), 3 if len(index) <= 3 else 2)):
            q_ = exact_step(a, index[k])
            if q_ is not None:
                qs.append(q_)
    # strictly inside every short leg (< 1.5 km): location and a step that stays on the leg
    for k in range(len(index) - 1):
        ln = index[k + 1] - index[k]
        if 0.0 < ln < 1500.0:
            f1, f2 = sorted((rng.uniform(0.05, 0.95), rng.uniform(0.05, 0.95)))
            qs.append({'op': 'loc', 'd': index[k] + f1 * ln, 'short_leg': True})
            qs.append({'op': 'step', 'a': index[k] + f1 * ln, 'b': (f2 - f1) * ln, 'short_leg': True})
    for _ in range(nq):
        r = rng.random()
        if r < 0.45:
            k = rng.random()
            if k < 0.55:
                d = rng.uniform(0.0, total)
            elif k < 0.63:
                d = rng.choice(index)
            elif k < 0.68:
                d = 0.0
            elif k < 0.73:
                d = total
            elif k < 0.80:
                d = rng.choice([1e-9, 1e-3, 1.0]) if total > 2.0 else 0.0
            elif k < 0.88:
                d = -rng.choice([1e-6, 1.0, 5e5])
            else:
                d = total + rng.choice([1e-3 * max(1.0, total * 1e-6), 10.0, 3e5])
            qs.append({'op': 'loc', 'd': d})
        else:
            k = rng.random()
            a = rng.uniform(0.0, total)
            if k < 0.12:
                a = rng.choice(index)
            elif k < 0.18:
                a = 0.0
            b = rng.choice([rng.uniform(0.0, max(total - a, 0.0)), rng.uniform(0.0, 0.02 * big), 0.0,
                            rng.uniform(0.0, 1.3 * big)])
            if k > 0.9:
                a, b = rng.choice([(-1.0, 10.0), (10.0, -1.0), (total + 5.0, 100.0), (total + 5e5, 0.0)])
            qs.append({'op': 'step', 'a': a, 'b': b})
    return qs


# ---------------------------------------------------------------------------------------------
# implementation side
# ---------------------------------------------------------------------------------------------

REASONS = {'distance outside ground track range': 'RRange', 'distances must be non-negative': 'RNeg',
           'step would cross a waypoint': 'RCross', 'step outside ground track range': 'ROutside'}


def impl_track(trk):
    from AEIC.trajectories.ground_track import GroundTrack
    from AEIC.types import Location
    locs = [Location(p[0], p[1]) for p in trk['wps']]
    if len(locs) == 2:
        return GroundTrack.great_circle(locs[0], locs[1], allow_overstep=trk['allow'])
    return GroundTrack(locs, allow_overstep=trk['allow'])


def impl_query(gt, q):
    from AEIC.trajectories.ground_track import GroundTrack
    try:
        p = gt.location(q['d']) if q['op'] == 'loc' else gt.step(q['a'], q['b'])
        return ['pt', float(p.location.longitude), float(p.location.latitude), float(p.azimuth)]
    except GroundTrack.Exception as e:
        return ['refused', REASONS.get(str(e), 'unknown:' + str(e)[:80])]
    except Exception as e:  # noqa: BLE001
        return ['error', type(e).__name__, str(e)[:200]]


# ---------------------------------------------------------------------------------------------
# Coq side: tracks, scripts
# ---------------------------------------------------------------------------------------------

def leg_table(trk):
    """the finite table GroundTrack.__init__ asks pyproj for: (forward azimuth, distance) per leg"""
    w = trk['wps']
    out = []
    for i in range(len(w) - 1):
        az, _, d = G().inv(w[i][0], w[i][1], w[i + 1][0], w[i + 1][1])
        out.append((float(az), float(d)))
    return out


def coq_track_def(trk, legs):
    ls = '; '.join(f'({coq_float(a)}, {coq_float(d)})' for a, d in legs)
    return f'Definition trk_{trk["id"]} : track FNum := @Build_track FNum [{ls}] {"true" if trk["allow"] else "false"}.\n'


SFX = ''          # '_x' when the text regenerated from ground_track.py compiled: the correspondence then runs on it


def coq_query(trk, q):
    if q['op'] == 'loc':
        return f'@location{SFX} FNum trk_{trk["id"]} {coq_float(q["d"])}'
    return f'@step{SFX} FNum trk_{trk["id"]} {coq_float(q["a"])} {coq_float(q["b"])}'


def eval_point(trk, p):
    if p[0] == 'PWp':
        w = trk['wps'][p[1]]
        return float(w[0]), float(w[1])
    _, i, az, d = p
    w = trk['wps'][i]
    lon, lat, _ = G().fwd(w[0], w[1], az, d)
    return float(lon), float(lat)


def eval_script(trk, legs, v):
    """parsed Coq `res` -> ['pt', lon, lat, raw_azimuth] | ['refused', reason]"""
    if isinstance(v, tuple) and v[0] == 'Refuse':
        return ['refused', v[1]]
    if not (isinstance(v, tuple) and v[0] == 'At'):
        return ['?', repr(v)]
    _, p, a = v
    lon, lat = eval_point(trk, p)
    if a[0] == 'ALeg':
        raw = legs[a[1]][0]
    elif a[0] == 'AInvFrom':
        plon, plat = eval_point(trk, a[1])
        w = trk['wps'][a[2]]
        raw = float(G().inv(plon, plat, w[0], w[1])[0])
    elif a[0] == 'AInvTo':
        plon, plat = eval_point(trk, a[2])
        w = trk['wps'][a[1]]
        raw = float(G().inv(w[0], w[1], plon, plat)[0])
    else:
        return ['?', repr(v)]
    return ['pt', lon, lat, raw]


# ---------------------------------------------------------------------------------------------
# independent oracle
# ---------------------------------------------------------------------------------------------

def fresh_geod():
    import pyproj
    return pyproj.Geod(ellps='WGS84')


def cum_lengths(geod, wps):
    out = [0.0]
    for i in range(len(wps) - 1):
        out.append(out[-1] + geod.line_length([wps[i][0], wps[i + 1][0]], [wps[i][1], wps[i + 1][1]]))
    return out


def dist(geod, p, q):
    return geod.inv(p[0], p[1], q[0], q[1])[2]


def tol(x):
    return TOL_M + 1e-9 * abs(x)


def judge_point(geod, trk, cum, d, out, what):
    """out = ['pt', lon, lat, az] must be the point at distance d (0 <= d <= total) along the track"""
    P = [out[1], out[2]]
    az = out[3]
    if not (0.0 <= az <= 360.0):
        return f'{what}: azimuth {az!r} outside the 0-360 convention'
    total = cum[-1]
    # leg containing d (by the oracle's own cumulative lengths)
    k = 0
    while k < len(cum) - 2 and d > cum[k + 1]:
        k += 1
    off = d - cum[k]
    w0, w1 = trk['wps'][k], trk['wps'][k + 1]
    leg = cum[k + 1] - cum[k]
    d0 = dist(geod, w0, P)
    d1 = dist(geod, P, w1)
    if abs(d0 - off) > tol(total) + tol(off):
        return (f'{what}: returned point is {d0!r} m from waypoint {k}, expected offset {off!r} m '
                f'(distance {d!r} along a track of {total!r} m)')
    if abs(d0 + d1 - leg) > 3 * tol(leg):
        return (f'{what}: returned point is not on the geodesic of leg {k}: {d0!r} + {d1!r} != leg length {leg!r}')
    if len(trk['wps']) == 2 and abs(dist(geod, trk['wps'][0], P) - d) > tol(total) + tol(d):
        return f'{what}: returned point is not {d!r} m from the start'
    return None


def judge_overstep(geod, trk, cum, d, out, what):
    P = [out[1], out[2]]
    az = out[3]
    if not (0.0 <= az <= 360.0):
        return f'{what}: azimuth {az!r} outside the 0-360 convention'
    wp, wl = trk['wps'][-2], trk['wps'][-1]
    off = d - cum[-2]
    if off > HALF:
        return None                       # beyond half a circumference the inverse problem returns the short way round
    leg = cum[-1] - cum[-2]
    dP = dist(geod, wp, P)
    if abs(dP - off) > tol(off) + tol(cum[-1]):
        return f'{what}: overstep point is {dP!r} m from the last leg\'s start, expected {off!r} m'
    dl = dist(geod, wl, P)
    if abs(leg + dl - dP) > 3 * tol(dP):
        return (f'{what}: overstep leaves the great circle of the last leg: {leg!r} + {dl!r} != {dP!r}')
    return None


# ---------------------------------------------------------------------------------------------
# extraction + link
# ---------------------------------------------------------------------------------------------

def extract(chk: Check):
    """-> True: gc_distance hands (lat, lon, lat, lon) to pyproj (F13 present); False: (lon, lat, lon, lat); None: unknown"""
    from translator import c15_extract, py2coq
    name = 'extract:mission.py:gc_distance+ground_track.py:Point+utils:GEOD'
    try:
        text = c15_extract.extract_c15(REPO)
    except py2coq.Untranslatable as e:
        chk.obligations.append({'name': name, 'ok': False})
        chk.broken(name, str(e))
        return None
    chk.obligations.append({'name': name, 'ok': True})
    if chk.coq_compile_gen('C15_Extracted', text) is None:
        return None
    chk.coq_link('C15_Link.v')
    hdr = HEADER + 'From Gen Require Import C15_Extracted.\n'
    vals = chk.coq_eval(hdr, ['@gc_distance_extracted FNum 1 2 3 4'], label='xcheck')
    if vals[0] == ('DInv', 2.0, 1.0, 4.0, 3.0):
        return True
    if vals[0] == ('DInv', 1.0, 2.0, 3.0, 4.0):
        return False
    if vals[0] is not None:
        chk.broken('link:gc_distance', f'regenerated argument order is neither reading of the model: {vals[0]}')
    return None


# ---------------------------------------------------------------------------------------------
# the check
# ---------------------------------------------------------------------------------------------

def write_airports(chk: Check, airports):
    d = chk.tmp / 'data' / 'airports'
    d.mkdir(parents=True, exist_ok=True)
    hdr = ('"id","ident","type","name","latitude_deg","longitude_deg","elevation_ft","continent","iso_country",'
           '"iso_region","municipality","scheduled_service","icao_code","iata_code","gps_code","local_code",'
           '"home_link","wikipedia_link","keywords"\n')
    rows = [hdr]
    for i, (code, (lon, lat)) in enumerate(airports.items()):
        elev_ft = [0, 13, 100, 1500, 5355, 9000, 13300][(i * 3 + i // 7) % 7]      # sea level to La Paz
        rows.append(f'"{9000 + i}","K{code}","large_airport","Harness {code}","{lat!r}","{lon!r}","{elev_ft}","NA","US",'
                    f'"US-XX","X","yes","K{code}","{code}","K{code}","","","",""\n')
    (d / 'airports.csv').write_text(''.join(rows))
    return chk.tmp / 'data'


def setup_config(extra=None):
    import AEIC.utils.airports as ap
    from AEIC.config import Config
    os.environ['AEIC_PATH'] = str(REPO / 'tests/data')
    Config.reset()
    over = ([extra] if extra else []) + [REPO / 'tests/data']
    Config.load(data_path_overrides=over)
    ap._airports = None


def teardown_config():
    import AEIC.utils.airports as ap
    from AEIC.config import Config
    ap._airports = None
    Config.reset()


def mission(o, d):
    from AEIC.missions import Mission
    from AEIC.missions.mission import iso_to_timestamp
    return Mission(origin=o, destination=d, aircraft_type='738', departure=iso_to_timestamp('2024-09-01 12:00:00'),
                   arrival=iso_to_timestamp('2024-09-01 18:00:00'), load_factor=1.0)


def mission_from_query(o, d, stated_km):
    """the same mission built the way mission-database queries build it (Mission.from_query_result); the record's
    stated distance (whole km, as schedules state it) must not influence the great-circle distance"""
    from AEIC.missions import Mission
    from AEIC.missions.mission import iso_to_timestamp
    from AEIC.missions.query import QueryResult
    qr = QueryResult(departure=iso_to_timestamp('2024-09-01 12:00:00'), arrival=iso_to_timestamp('2024-09-01 18:00:00'),
                     carrier='XX', flight_number='1', origin=o, origin_country='US', destination=d,
                     destination_country='US', service_type='J', aircraft_type='738', engine_type=None,
                     distance=int(stated_km), seat_capacity=150, id=1, flight_id=1)
    return Mission.from_query_result(qr)


def extract_ground_track(chk: Check):
    """regenerate GroundTrack's methods as Gallina (translator/c15_gt_extract.py), one named obligation per method, and
    prove them equal to the model (link/C15_GtLink.v); the correspondence then evaluates the regenerated text itself"""
    global SFX
    from translator import c15_gt_extract
    text, obs = c15_gt_extract.extract_ground_track(REPO)
    for name, ok, msg in obs:
        chk.obligations.append({'name': name, 'ok': ok})
        if not ok:
            chk.broken(name, msg)
    SFX = ''
    if text is None:
        chk.obligations.append({'name': 'C15_GtLink.v:not-checked (extraction of ground_track.py failed)', 'ok': False})
        return
    if chk.coq_compile_gen('C15_GtExtracted', text) is None:
        return
    if chk.coq_link('C15_GtLink.v'):
        SFX = '_x'
    else:
        # name the lemma at which the link stopped (the file is compiled top to bottom)
        import re
        det = chk.breaks[-1]['detail'] if chk.breaks else ''
        m = re.search(r'C15_GtLink\.v", line (\d+)', det)
        if m:
            lines = (VERIF / 'coq/link/C15_GtLink.v').read_text().splitlines()[:int(m.group(1))]
            thm = [ln.split()[1] for ln in lines if ln.startswith('Theorem ')]
            if thm:
                chk.notes['link_stopped_at'] = thm[-1]
                chk.breaks[-1]['what'] = f'proof:C15_GtLink.v:{thm[-1]}'
    chk.notes['correspondence_runs_on'] = 'text regenerated from ground_track.py' if SFX else 'hand-written model'


def check_tracks(chk: Check, tracks):
    """tracks: list of dict(track, queries or None -> generated from the implementation's index)"""
    geod = fresh_geod()
    exprs, meta, defs = [], [], []
    impl_out = {}
    objs: dict = {}          # obj_key -> GroundTrack object handed out earlier (kept alive, queried again later)
    for trk in tracks:
        legs = leg_table(trk)
        trk['_legs'] = legs
        defs.append(coq_track_def(trk, legs))
        try:
            if trk.get('reuse') is not None and trk['reuse'] in objs:
                gt = objs[trk['reuse']]            # the object created earlier, with the options it was created with
                chk.count('track-object-queried-again-after-others-were-created')
            else:
                gt = impl_track(trk)
                if trk.get('obj_key') is not None:
                    objs[trk['obj_key']] = gt
            index = [float(x) for x in gt.index]
            info = ['ok', index, float(gt.total_distance), [float(a) for a in gt.azimuths], len(gt)]
        except Exception as e:  # noqa: BLE001
            gt, index, info = None, None, ['error', type(e).__name__, str(e)[:200]]
        trk['_info'] = info
        if gt is None:
            chk.fail(f'constructing the ground track raised {info[1]}: {info[2]}', {'track': strip(trk)}, signature=None)
            continue
        if trk.get('queries') is None:
            trk['queries'] = gen_queries(chk.rng, index, trk.get('nq', 10))
            if trk.get('reuse') is not None:
                trk['queries'] += [{'op': 'step', 'a': 0.5 * index[-1], 'b': index[-1]},
                                   {'op': 'step', 'a': index[-1], 'b': 1000.0}, {'op': 'step', 'a': 0.0, 'b': 0.25 * index[-1]}]
        exprs.append(f'@index{SFX} FNum trk_{trk["id"]}')
        meta.append((trk, None))
        for q in trk['queries']:
            impl_out[(trk['id'], json.dumps(q, sort_keys=True))] = impl_query(gt, q)
            exprs.append(coq_query(trk, q))
            meta.append((trk, q))
    hdr = HEADER + ('From Gen Require Import C15_GtExtracted.\n' if SFX else '') + ''.join(defs)
    vals = chk.coq_eval(hdr, exprs, shard=250)
    # second round: azimuth normalisation of the raw oracle answers, inside Coq
    scripts, raws, slot = [], [], []
    for (trk, q), v in zip(meta, vals):
        if q is None or v is None:
            scripts.append(None)
            slot.append(None)
            continue
        s = eval_script(trk, trk['_legs'], v)
        scripts.append(s)
        if s[0] == 'pt':
            slot.append(len(raws))
            raws.append(s[3])
        else:
            slot.append(None)
    norm = chk.coq_eval(HEADER, [f'@norm360 FNum {coq_float(r)}' for r in raws], shard=400, label='norm') if raws else []
    for (trk, q), v, s, sl in zip(meta, vals, scripts, slot):
        info = trk['_info']
        index, total = info[1], info[2]
        if q is None:
            # ---- construction: index / total ----
            cum = cum_lengths(geod, trk['wps'])
            trk['_cum'] = cum
            chk.case({'track': strip(trk), 'q': 'index'}, len(trk['wps']) > 2)
            chk.count(f'track:{trk["kind"]}/n={len(trk["wps"])}')
            bad = None
            if abs(total - cum[-1]) > tol(cum[-1]):
                bad = f'total_distance {total!r} != sum of WGS-84 leg lengths {cum[-1]!r}'
            elif len(trk['wps']) == 2 and abs(total - dist(geod, trk['wps'][0], trk['wps'][1])) > tol(total):
                bad = f'total_distance {total!r} != geodesic distance between the end points'
            elif any(abs(a - b) > tol(b) for a, b in zip(index, cum)) or len(index) != len(cum):
                bad = f'cumulative waypoint index {index} != cumulative WGS-84 leg lengths {cum}'
            if bad:
                chk.fail(bad, {'track': strip(trk), 'q': 'index', 'impl': info}, signature=None)
            elif v is not None:
                if [float(x) for x in v] != index:
                    chk.broken('correspondence:C15_Model.index', f'model {v} vs implementation {index}', strip(trk))
                else:
                    chk.traces_validated += 1
            continue
        io = impl_out[(trk['id'], json.dumps(q, sort_keys=True))]
        cum = trk['_cum']
        full = {'track': strip(trk), 'q': q, 'impl': io}
        target = q['d'] if q['op'] == 'loc' else q['a'] + q['b']
        inside = 0.0 <= target <= total
        chk.case({'track': strip(trk), 'q': q}, io[0] == 'pt' and (len(trk['wps']) > 2 or target > total or 0 < target < total))
        chk.count('q:' + q['op'] + ':' + io[0] + (':' + io[1] if io[0] == 'refused' else ''))
        if q.get('ends_on_waypoint'):
            chk.count('step-ending-exactly-on-a-waypoint:' + ('overstep' if trk['allow'] else 'no-overstep') + ':' + io[0]
                      + (':' + io[1] if io[0] == 'refused' else ''))
        if q.get('short_leg'):
            chk.count('short-leg-query:' + trk['kind'] + ':' + io[0])
        if q.get('near_end'):
            chk.count('near-end:' + ('beyond' if target > total else 'at-or-inside') + ':' + io[0])
        # ---- property oracle ----
        bad = None
        if io[0] == 'error':
            bad = f'{q["op"]} raised {io[1]}: {io[2]}'
        elif q['op'] == 'loc':
            if inside:
                bad = (f'location({target!r}) inside the track refused ({io[1]})' if io[0] != 'pt'
                       else judge_point(geod, trk, cum, target, io, f'location({target!r})'))
            elif io[0] == 'pt':
                bad = f'location({target!r}) outside [0, {total!r}] answered'
        else:
            a, b = q['a'], q['b']
            if a < 0 or b < 0:
                if io[0] == 'pt':
                    bad = f'step({a!r}, {b!r}) with a negative distance answered'
            elif a <= total and inside:
                if io[0] == 'pt':
                    bad = judge_point(geod, trk, cum, target, io, f'step({a!r}, {b!r})')
                    # stepping from a by b equals locating a + b
                    gt2 = impl_track(trk)
                    lo = impl_query(gt2, {'op': 'loc', 'd': target})
                    if bad is None and lo != io:
                        bad = f'step({a!r}, {b!r}) = {io} differs from location({target!r}) = {lo}'
                elif not (io[1] == 'RCross' and not trk['allow'] and any(a < x < target for x in index)):
                    # the crossing refusal is admissible only when a waypoint lies STRICTLY inside the step
                    # (C15_cross_refusal_only_when_a_waypoint_is_strictly_inside); ending exactly on one is not crossing it
                    bad = (f'step({a!r}, {b!r}) inside the track refused ({io[1]}) although no waypoint lies strictly between '
                           f'{a!r} and {target!r}')
            else:
                if trk['allow']:
                    bad = (f'step({a!r}, {b!r}) past the end refused ({io[1]}) although overstepping is allowed'
                           if io[0] != 'pt' else judge_overstep(geod, trk, cum, target, io, f'step({a!r}, {b!r})'))
                elif io[0] == 'pt':
                    bad = f'step({a!r}, {b!r}) past the end answered although overstepping is not allowed'
        if bad:
            chk.fail(bad, full, signature=None)
            continue
        # ---- correspondence ----
        if v is None or s is None:
            continue
        if s[0] == 'pt':
            nz = norm[sl]
            if nz is None:
                continue
            mo = ['pt', s[1], s[2], nz]
        else:
            mo = s
        same = (mo[0] == io[0]) and (mo[1:] == io[1:] if mo[0] != 'pt' else
                                     all(close(x, y, rel=1e-12, abs_=1e-12) for x, y in zip(mo[1:], io[1:])))
        if not same:
            chk.broken('correspondence:C15_Model.' + ('location' if q['op'] == 'loc' else 'step'),
                       f'model script {v} -> {mo} vs implementation {io}', {'track': strip(trk), 'q': q})
        else:
            chk.traces_validated += 1


def code3(n):
    return chr(65 + n // 676 % 26) + chr(65 + n // 26 % 26) + chr(65 + n % 26)


def fresh_codes(n):
    """IATA-style codes not used by the supplemental airports file (which overrides the main one)"""
    import csv
    taken = set()
    patch = REPO / 'src/AEIC/data/airports/airports-patch.csv'
    if patch.exists():
        with open(patch, newline='', encoding='utf-8') as fp:
            taken = {r.get('iata_code', '') for r in csv.DictReader(fp)}
    out, k = [], 0
    while len(out) < n:
        c = code3(k)
        k += 1
        if c not in taken:
            out.append(c)
    return out


def strip(trk):
    return {k: v for k, v in trk.items() if not k.startswith('_')}


def check_missions(chk: Check, variant, pairs):
    """pairs: list of (kind, a, b) with a, b = [lon, lat]"""
    geod = fresh_geod()
    airports = {}
    cases = []
    codes = fresh_codes(2 * len(pairs))
    by_xy: dict = {}                       # the same place is the same airport (hub missions share their origin)
    for i, (kind, a, b) in enumerate(pairs):
        ca = by_xy.setdefault((a[0], a[1]), codes[2 * i])
        cb = by_xy.setdefault((b[0], b[1]), codes[2 * i + 1])
        if ca == cb:                       # identical coordinates: keep two airports
            cb = codes[2 * i + 1]
        airports[ca], airports[cb] = a, b
        cases.append((kind, ca, cb, a, b))
    extra = write_airports(chk, airports)
    setup_config(extra)
    impl = []
    try:
        from AEIC.trajectories.ground_track import GroundTrack
        for n_, (kind, ca, cb, a, b) in enumerate(cases):
            try:
                if n_ % 2 == 1:
                    # built from a schedule record whose stated distances differ from the geodesic and between directions
                    km = dist(geod, a, b) / 1000.0
                    m = mission_from_query(ca, cb, km * chk.rng.uniform(0.96, 1.04) + 2.0)
                    mr = mission_from_query(cb, ca, km * chk.rng.uniform(0.96, 1.04) - 3.0 if km > 10 else km + 5.0)
                else:
                    m, mr = mission(ca, cb), mission(cb, ca)
                gt = GroundTrack.great_circle(m.origin_position.location, m.destination_position.location)
                impl.append(['ok', float(m.gc_distance), float(mr.gc_distance), float(gt.total_distance),
                             [m.origin_position.longitude, m.origin_position.latitude,
                              m.destination_position.longitude, m.destination_position.latitude]])
            except Exception as e:  # noqa: BLE001
                impl.append(['error', type(e).__name__, str(e)[:200]])
    finally:
        teardown_config()
    exch = False if variant is None else variant      # undetermined: compare with pyproj's own order
    b_ = 'true' if exch else 'false'
    exprs = [f'@gc_distance FNum {b_} {coq_float(a[0])} {coq_float(a[1])} {coq_float(b[0])} {coq_float(b[1])}'
             for _, _, _, a, b in cases]
    vals = chk.coq_eval(HEADER, exprs, label='missions')
    for n_, ((kind, ca, cb, a, b), io, v) in enumerate(zip(cases, impl, vals)):
        case = {'mission': {'kind': kind, 'origin': a, 'destination': b,
                            'built': 'from_query_result' if n_ % 2 == 1 else 'constructor'}}
        chk.case(case, True)
        chk.count('mission:' + kind)
        chk.count('mission-built:' + case['mission']['built'])
        if io[0] == 'error':
            chk.fail(f'Mission.gc_distance raised {io[1]}: {io[2]}', dict(case, impl=io), signature=None)
            continue
        gc, gcr, tl, pos = io[1], io[2], io[3], io[4]
        want = dist(geod, a, b)
        bad = None
        if pos != [a[0], a[1], b[0], b[1]]:
            bad = f'airport positions {pos} differ from the airports file {[a, b]}'
        elif not (abs(tl - want) <= tol(want)):
            bad = f'ground-track length {tl!r} != WGS-84 geodesic distance {want!r}'
        elif not (abs(gc - tl) <= tol(tl)):
            bad = f'Mission.gc_distance {gc!r} != length of the ground track between its airports {tl!r}'
        elif not (abs(gc - gcr) <= tol(gc)):
            bad = f'Mission.gc_distance not symmetric: {gc!r} vs reversed {gcr!r}'
        if bad:
            exd = geod.inv(a[1], a[0], b[1], b[0])[2]
            sig = F13_SIG if (pos == [a[0], a[1], b[0], b[1]] and abs(tl - want) <= tol(want)
                              and close(gc, exd, rel=1e-12) and close(gcr, exd, rel=1e-9)) else None
            chk.fail(bad, dict(case, impl=io, reference={'geodesic': want, 'with_lat_lon_exchanged': exd}), signature=sig)
        if v is None:
            continue
        if not (isinstance(v, tuple) and v[0] == 'DInv'):
            chk.broken('correspondence:C15_Model.gc_distance', f'unexpected script {v}', case)
            continue
        md = float(G().inv(v[1], v[2], v[3], v[4])[2])
        if not close(md, gc, rel=1e-12):
            chk.broken('correspondence:C15_Model.gc_distance',
                       f'model script {v} -> {md!r} vs implementation {gc!r}', case)
        else:
            chk.traces_validated += 1


def check_laws(chk: Check):
    """spot-check of the geodesic laws the theorems take as premises (pyproj is trusted, not verified)"""
    geod = fresh_geod()
    rng = chk.rng
    worst = {'fwd_dist': 0.0, 'inv_fwd': 0.0, 'dist_sym': 0.0, 'az_range': 0.0}
    for _ in range(chk.n(300, 3000)):
        _, a, b = gen_pair(rng)
        az, baz, d = geod.inv(a[0], a[1], b[0], b[1])
        d2 = geod.inv(b[0], b[1], a[0], a[1])[2]
        worst['dist_sym'] = max(worst['dist_sym'], abs(d - d2))
        lon, lat, _ = geod.fwd(a[0], a[1], az, d)
        worst['inv_fwd'] = max(worst['inv_fwd'], dist(geod, [lon, lat], b))
        dd = rng.uniform(0.0, HALF)
        aa = rng.uniform(-180.0, 180.0)
        lon, lat, _ = geod.fwd(a[0], a[1], aa, dd)
        worst['fwd_dist'] = max(worst['fwd_dist'], abs(dist(geod, a, [lon, lat]) - dd))
        if not (-180.0 <= az <= 180.0):
            worst['az_range'] = 1.0
        chk.count('law-samples')
    chk.notes['geodesic_law_residuals_m'] = worst
    for k, v in worst.items():
        if v > TOL_M:
            chk.broken(f'oracle-law:{k}', f'pyproj violates the assumed law {k}: residual {v!r}')


def load_corpus(chk):
    tracks, pairs = [], []
    for f in sorted((VERIF / 'corpus' / chk.pid).glob('*.json')):
        c = json.loads(f.read_text())
        if 'track' in c:
            t = dict(c['track'])
            t['queries'] = c.get('queries')
            tracks.append(t)
        if 'mission' in c:
            pairs.append((c['mission'].get('kind', 'corpus'), c['mission']['origin'], c['mission']['destination']))
    return tracks, pairs


def run(chk: Check):
    chk.rule = ('tracks of 2-6 waypoints (generic, antimeridian-crossing, near-polar incl. the poles, near-antipodal, '
                'equal longitudes / latitudes, equatorial, metres apart, repeated waypoints), allow_overstep on/off; '
                'queries location(d) and step(a, b) with distances inside, at 0 / waypoints / the end, just beyond, far '
                'beyond and negative; missions between synthetic airports of the same classes; one PRNG stream. '
                'non-trivial = answered query strictly inside, beyond the end, or on a multi-waypoint track; every mission')
    chk.trusted += ['pyproj / PROJ geodesic direct and inverse problems (enter the theorems as hypotheses; laws spot-checked each run)',
                    'translator/c15_extract.py (shape-specific, fail closed)',
                    'harness/c15.py: script evaluator (pyproj), correspondence, independent pyproj oracle']
    chk.assumptions += ['at least two waypoints; finite coordinates in [-180, 180] x [-90, 90]',
                        'bisect_left is modelled as "first index whose entry is >= d" (equal to binary search on the '
                        'non-decreasing cumulative index)',
                        'azimuth normalisation modelled on the raw range pyproj reports ([-180, 180])',
                        'beyond half a circumference from the last leg\'s start only the correspondence (not the '
                        'independent oracle) constrains an overstep']
    chk.coq_props('props/C15_Props.v')
    variant = extract(chk)
    extract_ground_track(chk)
    chk.notes['gc_distance_argument_order'] = {True: '(lat, lon, lat, lon) — F13 present', False: '(lon, lat, lon, lat) — pyproj order',
                                               None: 'undetermined'}[variant]
    check_laws(chk)
    ctracks, cpairs = load_corpus(chk)
    tracks = list(ctracks)
    for i in range(chk.n(110, 900)):
        t = dict(gen_track(chk.rng, 1000 + i), nq=chk.n(10, 14))
        tracks.append(t)
        if len(t['wps']) == 2 and chk.rng.random() < 0.3:
            # object identity: the same end points are requested again with the other option (and reversed), then the FIRST
            # object is used again — each object must keep behaving as it was created
            t['obj_key'] = f'k{i}'
            other = {'kind': t['kind'] + '/same-ends-other-mode', 'wps': [list(w) for w in t['wps']], 'allow': not t['allow'], 'nq': 4}
            rev = {'kind': t['kind'] + '/reversed-ends', 'wps': [list(w) for w in reversed(t['wps'])],
                   'allow': chk.rng.random() < 0.5, 'nq': 3}
            again = {'kind': t['kind'] + '/first-object-again', 'wps': [list(w) for w in t['wps']], 'allow': t['allow'],
                     'reuse': t['obj_key'], 'nq': 8,
                     'after': [{k: v for k, v in x.items() if k != 'after'} for x in (dict(t, queries=[]), dict(other, queries=[]),
                                                                                      dict(rev, queries=[]))]}
            tracks += [other, rev, again]
    for i, t in enumerate(tracks):
        t['id'] = i
    setup_config()
    try:
        check_tracks(chk, tracks)
    finally:
        teardown_config()
    fixed = [('BOS-ATL', [-71.0079, 42.36197], [-84.428101, 33.6367]),
             ('LHR-JFK', [-0.461941, 51.4706], [-73.7789, 40.6398]),
             ('SFO-SEA', [-122.374821, 37.619806], [-122.308998, 47.449001])]
    pairs = cpairs + fixed + [gen_pair(chk.rng) for _ in range(chk.n(150, 1500))]
    # hub-and-spoke: one origin with many destinations (an answer cached per origin, or per airport, would show)
    hub = pairs[len(cpairs) + len(fixed)][1]
    pairs += [('hub', hub, p_[2]) for p_ in pairs[len(cpairs) + len(fixed) + 1:len(cpairs) + len(fixed) + 13]]
    check_missions(chk, variant, pairs)


def replay(chk: Check, rp):
    chk.coq_props('props/C15_Props.v')
    variant = extract(chk)
    extract_ground_track(chk)
    case = rp.get('case') or {}
    if 'track' in case:
        t = dict(case['track'])
        q = case.get('q')
        t['queries'] = [q] if isinstance(q, dict) else []
        seq = [dict(x) for x in t.get('after', [])] + [t]      # objects created before this one, in order
        for i_, x in enumerate(seq):
            x['id'] = i_
        setup_config()
        try:
            check_tracks(chk, seq)
        finally:
            teardown_config()
    elif 'mission' in case:
        m = case['mission']
        pair = (m.get('kind', 'replay'), m['origin'], m['destination'])
        check_missions(chk, variant, [pair, pair])       # once per way of building the mission
    else:
        chk.broken('replay', 'replay file carries no case (broken obligation: re-run the check)')

"""C07 — store indices follow insertion order across sessions and cache evictions.

Proof:  coq/props/C07_Props.v (store_refines_list: every history, every eviction choice).
Tie:    histories of 5-60 operations on real stores under build/C07/tmp vs `Store_Model.run` inside Coq
        (vm_compute), incl. the real LRU cache's key set after every operation and the final directory listing.
Oracle: plain Python list per path.
"""
from harness import store_util as su
from harness.common import Check

COQ_TARGETS = su.COQ_TARGETS
PROPS = 'props/C07_Props.v'


def nontrivial(hist):
    """a read of an item that is not in the cache after at least two additions, or a read of an old item after an
    addition in an append session"""
    adds, mode, n_open, k = 0, None, 0, 0
    total = {}
    path = None
    for o in hist:
        if o['op'] in ('create', 'open_r', 'open_a', 'create_mem'):
            mode = o['op']
            path = tuple(o.get('p', ('mem',)))
            n_open = total.get(path, 0)
            k = 0
        elif o['op'] == 'add' and o.get('kind', 'ok') == 'ok':
            adds += 1
            k += 1
            total[path] = total.get(path, 0) + 1
        elif o['op'] in ('get', 'iter'):
            if mode == 'open_a' and k >= 1 and (o['op'] == 'iter' or o['i'] < n_open):
                return True
            if adds >= 2 and o['op'] == 'get' and o['i'] < total.get(path, 0) - 3:
                return True
    return False


def run(chk: Check):
    chk.rule = ('histories of 5-60 operations from one PRNG stream: create (file / in-memory) with cache sizes of 1, 2, 3 '
                'items or unbounded, add, [] at old / last / one-past-the-end indices, len, iterate, sync, close, reopen '
                'for append or read (any number of times, several paths); rejected additions of every kind (missing required '
                'value, other field sets, inconsistent identifier use, value larger than the cache, full in-memory store) at '
                'every position incl. the first of a session, payloads of three sizes; plus the corpus and integer-cache-size '
                'scenarios.  Non-trivial = contains a read of an old item after an addition in an append session, or a '
                'read of an item evicted from the cache')
    gen = [{'name': f'gen:{i}', 'ops': su.gen_history(chk.rng, 'C07')} for i in range(chk.n(150, 2000))]
    def extra(chk, cfg):
        # reads through a cache smaller than the item read: oracle only (see store_util.oversized_read_scenarios)
        su.check_histories(chk, su.oversized_read_scenarios(), cfg, nontrivial, label='o', model=False)
        # append sessions over a base file and an associated file that holds fewer trajectories: oracle only
        su.append_shorter_associated_scenarios(chk, chk.rng, chk.n(6, 40))
    su.run_property(chk, 'C07', PROPS, gen, nontrivial,
                    scenarios=su.big_payload_scenarios(chk.rng, chk.n(3, 12)) + su.rejected_first_add_scenarios(),
                    extra=extra)


def replay(chk: Check, rp):
    su.replay_property(chk, rp, PROPS, nontrivial)

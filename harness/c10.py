"""C10 — rejected or interrupted store operations lose and corrupt nothing.

Proof:  coq/props/C10_Props.v (rejected_add_is_noop, merge_crash_safe for every failure point, refused merges
        change nothing).
Tie:    every kind of invalid trajectory at every position; every refusal rule of merge with a corrected retry into
        the same directory; a failure injected in front of EVERY file-system call of merge (monkey-patched os.mkdir,
        os.rename, netCDF4.Dataset, open, json.dump), after which the directory listing (read with netCDF4 directly)
        and reopening every input are compared with the model's predicted state.
Oracle: plain Python lists; "every input intact in exactly one place; metadata never promises more than is there".
"""
from harness import store_util as su
from harness.common import Check

COQ_TARGETS = su.COQ_TARGETS
PROPS = 'props/C10_Props.v'


def nontrivial(hist):
    """a rejected addition followed by an observation of the same store, or a refused / interrupted merge"""
    rejected = False
    for o in hist:
        if o['op'] == 'add' and (o.get('kind', 'ok') != 'ok'):
            rejected = True
        elif rejected and o['op'] in ('get', 'len', 'iter', 'add', 'open_r', 'open_a'):
            return True
        if o['op'] == 'merge' and o.get('fault') is not None:
            return True
    ms = [o for o in hist if o['op'] == 'merge']
    return len(ms) >= 2


def run(chk: Check):
    chk.rule = ('(a) histories with invalid trajectories (missing starting_mass / total_fuel_mass, other field sets, '
                'identifier given to an unidentified store or withheld from an identified one) at every position incl. the '
                'first addition, in create / append / in-memory sessions, followed by len, reads, further additions, reopen; '
                '(b) every refusal rule of merge, then the corrected merge into the same directory; (c) merges of 1..3 '
                '(thorough: 1..4) inputs, identified or not, failing in front of every file-system call, then every input '
                'reopened and the directory listed.  Non-trivial = a rejected addition that is observed afterwards, or a '
                'refused / interrupted merge')
    gen = [{'name': f'gen:{i}', 'ops': su.gen_history(chk.rng, 'C10')} for i in range(chk.n(110, 1500))]
    scen = (su.refusal_scenarios() + su.first_op_schema_scenarios() + su.rejected_first_add_scenarios()
            + su.crash_scenarios(chk.n(3, 4)))
    chk.exhaustive = True        # crash points: every call of every merge shape listed in the rule
    su.run_property(chk, 'C10', PROPS, gen, nontrivial, scenarios=scen,
                    extra=lambda c, cfg: (su.declared_associated_scenarios(c),
                                          su.rewrite_input_then_retry_scenarios(c, c.rng, c.n(6, 40)),
                                          su.rejected_then_other_schema_scenarios(c),
                                          su.retry_after_interrupted_merge_scenarios(c, c.rng, c.n(4, 24))))


def replay(chk: Check, rp):
    su.replay_property(chk, rp, PROPS, nontrivial)

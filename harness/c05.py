"""C05 — gridded pieces land in the cells the path actually crosses.

Shares the model (coq/model/C04_Model.v), the generators and the implementation driver with harness/c04.py.
Oracle (independent of code and model): for every segment the straight map line (unwrapped across the
antimeridian) is cut at every grid line by brute force; every piece is densely sampled (about 1000 samples per
segment) and each sample is binned into the closed cells that contain it; the pieces are measured with pyproj.
The implementation's output — split into per-segment blocks by an instrumentation state variable, shares read
from an instrumentation integrated variable equal to 1 — must list, in path order, cells that contain the
corresponding part of the segment with the corresponding share, must not list a cell the line does not touch,
must carry the altitude / time cell and the state values of the segment's start point, and all arrays must be
equally long.
"""

from __future__ import annotations

from harness import c04
from harness.c04 import PI, SIG_DL, SIG_F20, TOL_SHARE, expected_segment
from harness.common import Check

COQ_TARGETS = ['model/C04_Model.v']


# ----------------------------------------------------------------------------------------------
# closed-cell binning of dense samples
# ----------------------------------------------------------------------------------------------

def allowed_cells(g, xs):
    """indices i (0..len(g)-2) of the closed cells [g[i], g[i+1]] that contain every sample of xs"""
    import numpy as np
    g = np.asarray(g, float)
    xs = np.asarray(xs, float)
    m = (g[:-1][None, :] <= xs[:, None]) & (xs[:, None] <= g[1:][None, :])
    return set(int(i) for i in np.nonzero(m.all(axis=0))[0])


def sample_piece(case, p, total_samples=1000):
    """dense samples strictly inside the oracle piece -> (allowed lat cells, allowed lon cells)"""
    import numpy as np
    (lat0, lon0), (lat1, lon1) = p['A'], p['B']
    ta, tb = p['ta'], p['tb']
    m = max(3, int(round(total_samples * (tb - ta))))
    ts = ta + (tb - ta) * (np.arange(m) + 0.5) / m
    return (allowed_cells(case['glat'], lat0 + ts * (lat1 - lat0)),
            allowed_cells(case['glon'], lon0 + ts * (lon1 - lon0)))


def cell_touches_path(case, j, ia, ib, bent):
    """does the closed cell (ia, ib) share a point with the map line(s) of segment j?  (Liang-Barsky clipping)"""
    glat, glon = case['glat'], case['glon']
    if not (0 <= ia < len(glat) - 1 and 0 <= ib < len(glon) - 1):
        return False
    lo = (glat[ia], glon[ib])
    hi = (glat[ia + 1], glon[ib + 1])
    eps = 1e-12
    for A, B in c04.legs_of_segment(case, j, bent):
        t0, t1 = 0.0, 1.0
        ok = True
        for k in (0, 1):
            d = B[k] - A[k]
            if d == 0:
                if A[k] < lo[k] - eps or A[k] > hi[k] + eps:
                    ok = False
                    break
            else:
                ta, tb = (lo[k] - eps - A[k]) / d, (hi[k] + eps - A[k]) / d
                if ta > tb:
                    ta, tb = tb, ta
                t0, t1 = max(t0, ta), min(t1, tb)
                if t0 > t1:
                    ok = False
                    break
        if ok:
            return True
    return False


def index_of(g, v):
    """cell index whose lower line is the reported coordinate v (exact: the code returns grid values)"""
    for i, x in enumerate(g):
        if x == v:
            return i
    return None


# ----------------------------------------------------------------------------------------------
# the C05 predicate
# ----------------------------------------------------------------------------------------------

def c05_check(case, out, bent=False, unwrap=False, skip_ill=False):
    """-> list of discrepancy strings.  bent / unwrap are the two relaxations used ONLY to classify a failure:
    bent   = antimeridian met at the start latitude (FC05a as coded),
    unwrap = a reported coordinate equal to the LAST grid line (never the origin of a cell) is read as the FIRST
             line (what index -1 wrapped around from, F20),
    skip_ill = the horizontal cells of a segment that straddles a grid line with a coordinate change of at most
             about 1e-11 rad (crossing position determined to less than 3 digits) are not checked (catastrophic cancellation in slope * line + intercept, FC04d/FC05c)."""
    probs = []
    nseg = len(case['lats']) - 1
    L = len(out['lat'])
    # -- all arrays equally long
    lens = {'lon': len(out['lon'])}
    if case['alts'] is not None:
        lens['alt'] = -1 if out['alt'] is None else len(out['alt'])
    elif out['alt'] is not None:
        probs.append('altitude cells returned although no altitudes were given')
    if case['times'] is not None:
        lens['time'] = -1 if out['time'] is None else len(out['time'])
    elif out['time'] is not None:
        probs.append('time cells returned although no times were given')
    for k, s in enumerate(out['states']):
        lens[f'state{k}'] = len(s)
    for k, v in enumerate(out['ints']):
        lens[f'integrated{k}'] = len(v)
    for name, n in lens.items():
        if n != L:
            probs.append(f'output array {name} has length {n}, latitude cells {L}')
    if probs:
        return probs
    if c04.any_multi_crossing(case):
        return probs          # documented: more than one crossing returns empty arrays (outside the quantifier)
    blocks, order_ok = c04.blocks_by_segment(out, nseg)
    if blocks is None:
        return ['state values of the pieces are not those of a segment start point']
    if not order_ok:
        probs.append('pieces are not reported in path order (segment numbers decrease)')
    glat, glon = case['glat'], case['glon']

    def norm(g, v):
        return g[0] if unwrap and v == g[-1] else v

    for j in range(nseg):
        blk = blocks[j]
        if not blk:
            probs.append(f'segment {j}: no piece reported')
            continue
        # -- state variables, altitude and time cell of the start point
        for k, var in enumerate(case['states']):
            for p in blk:
                if out['states'][k][p] != var[j]:
                    probs.append(f'segment {j} piece at {p}: state variable {k} is {out["states"][k][p]!r}, '
                                 f'start point has {var[j]!r}')
                    break
        for key, gk, vk in (('alt', 'galt', 'alts'), ('time', 'gtime', 'times')):
            if case[vk] is None:
                continue
            allow = allowed_cells(case[gk], [case[vk][j]])
            for p in blk:
                i = index_of(case[gk], norm(case[gk], out[key][p]))
                if i is None or i not in allow:
                    probs.append(f'segment {j} piece at {p}: {key} cell starts at {out[key][p]!r}; start point '
                                 f'{key} {case[vk][j]!r} lies in cell(s) {sorted(allow)} of the {key} grid')
                    break
        # -- horizontal cells
        if skip_ill and ill_segment(case, j):
            continue
        cells = []
        for p in blk:
            ia = index_of(glat, norm(glat, out['lat'][p]))
            ib = index_of(glon, norm(glon, out['lon'][p]))
            cells.append((ia, ib))
        shares = [out['ints'][-1][p] for p in blk]
        pieces, D, _E = expected_segment(case, j, bent)
        for (ia, ib), s, p in zip(cells, shares, blk):
            if ia is None or ib is None:
                probs.append(f'segment {j} piece at {p}: reported cell ({out["lat"][p]!r}, {out["lon"][p]!r}) is not a grid line pair')
            elif not cell_touches_path(case, j, ia, ib, bent):
                probs.append(f'segment {j} piece at {p}: cell (lat {glat[ia] if ia < len(glat) else None!r}, '
                             f'lon {glon[ib] if ib < len(glon) else None!r}) [index {ia},{ib}] with share {s!r} '
                             f'is not touched by the segment')
        if any(c[0] is None or c[1] is None for c in cells):
            continue
        if D == 0:
            continue              # zero-length segment: its share is C04's business, its cell was checked above
        for pc in pieces:
            pc['allow'] = sample_piece(case, pc)
            if not pc['allow'][0] or not pc['allow'][1]:
                raise RuntimeError(f'oracle: samples of one piece fall in different cells: {pc}')
        # cumulative intervals, in share units, of implementation pieces and oracle pieces
        acc = 0.0
        iv_impl = []
        for s in shares:
            iv_impl.append((acc, acc + s))
            acc += s
        tot_impl = acc
        acc = 0.0
        iv_or = []
        for pc in pieces:
            iv_or.append((acc, acc + pc['share']))
            acc += pc['share']
        tol = TOL_SHARE + c04.conditioning(case, j, bent) + c04.geo_slack(max(len(blk), len(pieces)) + 1, D)
        if abs(tot_impl - acc) > tol:
            probs.append(f'segment {j}: shares add up to {tot_impl!r}, the pieces of the map line measure {acc!r}')
            continue
        for (a0, a1), (ia, ib), p in zip(iv_impl, cells, blk):
            for (b0, b1), pc in zip(iv_or, pieces):
                ov = min(a1, b1) - max(a0, b0)
                if ov > tol and (ia not in pc['allow'][0] or ib not in pc['allow'][1]):
                    probs.append(
                        f'segment {j} piece at {p}: share [{a0:.9f},{a1:.9f}] of the segment is attributed to cell '
                        f'index ({ia},{ib}) but that part of the map line lies in lat cell(s) {sorted(pc["allow"][0])} '
                        f'lon cell(s) {sorted(pc["allow"][1])}')
                    break
            else:
                continue
            break
    return probs


def c05_oracle(case, out):
    """-> list of (description, signature).  Strict check first; on failure the two classification relaxations
    are tried (singly, then together), and the failure is attributed to known findings only if the output is
    entirely right under them; anything else is a fresh failure (signature None)."""
    strict = c05_check(case, out)
    if not strict:
        return []
    has_dl = any(abs(b - a) > PI for a, b in zip(case['lons'][:-1], case['lons'][1:]))
    more = f' (+{len(strict) - 1} more)' if len(strict) > 1 else ''
    for bent, unwrap in ((False, True), (True, False), (True, True)):
        if bent and not has_dl:
            continue
        if not c05_check(case, out, bent=bent, unwrap=unwrap):
            res = []
            if unwrap:
                why = strict if not bent else c05_check(case, out, bent=True)
                res.append(('[F20] ' + why[0], SIG_F20))
            if bent:
                why = strict if not unwrap else c05_check(case, out, unwrap=True)
                res.append(('[FC05a] ' + why[0], SIG_DL))
            return res
    if not c05_check(case, out, skip_ill=True):
        return [('[FC05c] ' + strict[0], c04.SIG_ILL)]
    return [(strict[0] + more, None)]


def ill_segment(case, j):
    d = [abs(case[k][j + 1] - case[k][j]) for k in ('lats', 'lons')]
    return any(0 < x <= 1e-10 for x in d) and c04.conditioning(case, j) >= 1e-3


# ----------------------------------------------------------------------------------------------
# correspondence (cells / altitude / time / state / shares)
# ----------------------------------------------------------------------------------------------

def compare_cells(r):
    out, geo = r['out'], r['geo']
    if geo['status'] == 2:
        if out['lat'] or out['lon']:
            return 'model: more than one antimeridian crossing gives empty output; implementation returned data'
        return None
    mo = c04.model_outputs(geo)
    for key in ('lat', 'lon', 'alt', 'time'):
        if mo[key] != out[key]:
            return f'{key} cell coordinates: model {summ(mo[key])} vs implementation {summ(out[key])}'
    if mo['states'] != out['states']:
        return 'state variable values per piece differ'
    return c04.compare_values(r)


def summ(x):
    return 'None' if x is None else (str(x) if len(x) <= 12 else f'{x[:12]}… ({len(x)} entries)')


# ----------------------------------------------------------------------------------------------
# history stream: several trajectories gridded one after another by ONE Gridder instance
# ----------------------------------------------------------------------------------------------

GRID_KEYS = ('glat', 'glon', 'galt', 'gtime')


def gen_traj(rng, grid, npts, cross, lat_centre, lons_from=None, lats_from=None):
    """One trajectory inside `grid` (same domain as c04.gen_case: latitudes within +-LAT_MAX, points clear of grid
    lines unless exactly on one).  cross = None (stays on one side, no longitude jump above pi) or (k, east):
    segment k crosses the antimeridian, eastward (+pi side first) or westward.  lons_from / lats_from: reuse the
    longitudes / latitudes of another trajectory (the crossing latitude then differs through the other coordinate
    only)."""
    glat, glon, galt, gtime = (grid[k_] for k_ in GRID_KEYS)
    span_lat = rng.choice([0.02, 0.1, 0.3, 0.8])
    span_lon = rng.choice([0.05, 0.3, 1.0])
    la_min, la_max = max(glat[0], -c04.LAT_MAX), min(glat[-1], c04.LAT_MAX)
    lats, lons = [], []
    centre_lon = rng.uniform(glon[0] + span_lon, glon[-1] - span_lon)
    for i in range(npts):
        if cross is not None:
            k, east = cross
            pos_side = (i <= k) == east
            lo_, hi_ = (max(PI - span_lon, 0.0), PI) if pos_side else (-PI, min(-PI + span_lon, 0.0))
        else:
            lo_, hi_ = centre_lon - span_lon, centre_lon + span_lon
        cl = lat_centre if i == 0 else lats[-1]
        la_lo, la_hi = max(cl - span_lat, la_min), min(cl + span_lat, la_max)
        if la_lo >= la_hi:
            la_lo, la_hi = la_min, la_max
        lats.append(c04.pick_coord(rng, glat, la_lo, la_hi, 0.15))
        lons.append(c04.pick_coord(rng, glon, lo_, hi_, 0.15))
    if lons_from is not None:
        lons = list(lons_from)
    if lats_from is not None:
        lats = list(lats_from)
    n = len(lats)
    alts = times = None
    if galt is not None and rng.random() < 0.85:
        alts = [c04.pick_coord(rng, galt, None, None, 0.2) for _ in range(n)]
    if gtime is not None and rng.random() < 0.85:
        times = sorted(c04.pick_coord(rng, gtime, None, None, 0.15) for _ in range(n))
    states = [[rng.uniform(-50, 900) for _ in range(n)] for _ in range(rng.randint(0, 2))]
    ints = [[rng.uniform(0.0, 500.0) for _ in range(n - 1)] for _ in range(rng.randint(0, 2))]
    return {'lats': lats, 'lons': lons, 'alts': alts, 'times': times, 'states': states, 'ints': ints}


def gen_history(rng):
    """-> {'grid', 'trajs', 'steps': [(trajectory number, entry point)], 'kind'}.

    One global degree grid (longitude lines from -pi to pi) and 2-3 different trajectories that one Gridder instance
    grids one after another, in orders such as A B, A B A, A B C, A B B A.  Main kind ('same-crossing'): all
    trajectories have the same number of points and cross the antimeridian in the SAME segment and the SAME
    direction, but at clearly different latitudes (independent routes in latitude bands at least two cells apart;
    the same longitudes at other latitudes; the same latitudes at other longitudes).  Other kinds mix directions,
    crossing segments and non-crossing routes."""
    glat, glon, galt, gtime = c04.gen_grid(rng, True)
    grid = dict(zip(GRID_KEYS, (glat, glon, galt, gtime)))
    la_min, la_max = max(glat[0], -c04.LAT_MAX), min(glat[-1], c04.LAT_MAX)
    ntraj = 2 if rng.random() < 0.6 else 3
    r = rng.random()
    kind = 'same-crossing' if r < 0.6 else 'mixed-crossings' if r < 0.85 else 'crossing-and-plain'
    npts = rng.randint(2, 7)
    k, east = rng.randint(0, npts - 2), rng.random() < 0.5
    # latitude bands clearly apart: centres spread over the grid's latitude range, in random order
    step = (la_max - la_min) / ntraj
    centres = [la_min + (i + rng.uniform(0.15, 0.85)) * step for i in range(ntraj)]
    rng.shuffle(centres)
    trajs, variants = [], []
    for t in range(ntraj):
        cross = (k, east)
        n_t = npts
        if kind == 'mixed-crossings' and t > 0:
            n_t = rng.randint(2, 7)
            cross = (rng.randint(0, n_t - 2), rng.random() < 0.5)
        elif kind == 'crossing-and-plain' and (t % 2 == 1):
            n_t, cross = rng.randint(2, 7), None
        lons_from = lats_from = None
        variant = 'independent'
        if kind == 'same-crossing' and t > 0:
            v = rng.random()
            if v < 0.25:
                lons_from, variant = trajs[0]['lons'], 'same-longitudes'
            elif v < 0.4:
                lats_from, variant = trajs[0]['lats'], 'same-latitudes'
        trajs.append(gen_traj(rng, grid, n_t, cross, centres[t], lons_from, lats_from))
        variants.append(variant)
    orders = {2: [[0, 1], [0, 1, 0], [0, 1, 1, 0], [0, 0, 1]],
              3: [[0, 1, 2], [0, 1, 2, 0], [0, 1, 0, 2], [2, 1, 0, 1]]}[ntraj]
    order = rng.choice(orders)
    steps = [[t, c04.TWIN if rng.random() < 0.2 else 'grid_trajectory'] for t in order]
    return {'grid': grid, 'trajs': trajs, 'steps': steps, 'kind': kind, 'variants': variants}


def crossing_of(traj):
    """(segment number, 'east' | 'west', latitude at which the straight map line meets +-pi) of the single crossing"""
    for j, (a, b) in enumerate(zip(traj['lons'][:-1], traj['lons'][1:])):
        if abs(b - a) > PI:
            b_ = b + 2 * PI if a > 0 else b - 2 * PI
            edge = PI if a > 0 else -PI
            t = (edge - a) / (b_ - a)
            return j, 'east' if a > 0 else 'west', traj['lats'][j] + t * (traj['lats'][j + 1] - traj['lats'][j])
    return None


def check_histories(chk: Check, hists):
    """Every call on the shared Gridder must give exactly what a fresh Gridder gives for the same trajectory (the
    result of gridding is a function of the grid and the trajectory, not of what the instance gridded before), and
    the shared instance's result goes through the per-trajectory C05 oracle."""
    for h in hists:
        grid, trajs = h['grid'], h['trajs']
        cases = [dict(grid, **t, kinds=['history']) for t in trajs]
        inst = [c04.instrumented(c) for c in cases]
        cr = [crossing_of(t) for t in trajs]
        chk.count('history:kind=' + h['kind'])
        chk.count(f"history:steps={len(h['steps'])},trajectories={len(trajs)}")
        # pairs of consecutive different trajectories with the same crossing segment and direction, and how far
        # apart (in latitude cells) they meet the antimeridian
        import bisect
        for (a, _), (b, _) in zip(h['steps'][:-1], h['steps'][1:]):
            if a != b and cr[a] and cr[b] and cr[a][:2] == cr[b][:2]:
                d = abs(bisect.bisect_left(grid['glat'], cr[a][2]) - bisect.bisect_left(grid['glat'], cr[b][2]))
                chk.count('history:consecutive-same-segment-same-direction-crossings:lat-cells-apart='
                          + ('0' if d == 0 else '1' if d == 1 else '2+'))
        chk.case(h, nontrivial=sum(1 for c in cr if c) >= 2)
        try:
            g = c04.gridder(cases[0])
        except Exception as e:  # noqa: BLE001
            chk.fail(f'history: Gridder(...) raised {type(e).__name__}: {e}', {'history': h}, None)
            continue
        fresh = {}
        ok = True
        for s, (t, entry) in enumerate(h['steps']):
            case, (st, iv) = cases[t], inst[t]
            where = (f'history step {s} of {len(h["steps"])} (trajectory {t}, {entry}; before it the same Gridder '
                     f'gridded trajectories {[x for x, _ in h["steps"][:s]]})')
            try:
                shared = c04.run_impl(case, st, iv, entry=entry, g=g)
                if (t, entry) not in fresh:
                    fresh[(t, entry)] = c04.run_impl(case, st, iv, entry=entry)
            except Exception as e:  # noqa: BLE001
                chk.fail(f'{where}: raised {type(e).__name__}: {e}', {'history': h, 'step': s}, None)
                ok = False
                break
            ref = fresh[(t, entry)]
            info = {'history': h, 'step': s, 'trajectory': case, 'crossings': cr,
                    'impl_shared_instance': {k: shared[k] for k in ('lat', 'lon', 'alt', 'time')},
                    'impl_shared_instance_share': None if shared['ints'] is None else shared['ints'][-1],
                    'impl_fresh_instance': {k: ref[k] for k in ('lat', 'lon', 'alt', 'time')},
                    'impl_fresh_instance_share': None if ref['ints'] is None else ref['ints'][-1]}
            if not c04.same_out(shared, ref):
                chk.fail(f'{where}: the result differs from what a fresh Gridder gives for the same trajectory '
                         f'(state is carried from one trajectory to the next)', info, None)
                ok = False
            if shared['lat'] is None:
                if not c04.any_multi_crossing(case):
                    chk.fail(f'{where}: returned None although the trajectory does not cross the antimeridian more '
                             f'than once', info, None)
                    ok = False
                continue
            if entry == 'grid_trajectory':      # (the twin's own per-trajectory oracle runs in the main stream)
                for desc, sig in c05_oracle(case, shared):
                    if chk.fail(f'{where}: {desc}', info, signature=sig) != 'known':
                        ok = False
        if ok:
            chk.traces_validated += 1


def describe_histories(chk: Check):
    chk.rule += ('. History stream: one Gridder instance grids 2-3 different trajectories one after another (orders A B, '
                 'A B A, A B B A, A A B, A B C, A B C A, A B A C, C B A B; each step through grid_trajectory or, 20 %, '
                 'its public twin) on a global degree grid; 60 % of the histories consist of antimeridian crossings '
                 'in the SAME segment number and SAME direction at latitudes in different bands of the grid '
                 '(independent routes / same longitudes at other latitudes / same latitudes at other longitudes), the '
                 'rest mixes directions, crossing segments and non-crossing routes. Every call must equal a fresh '
                 "Gridder's result for that trajectory exactly and passes the per-trajectory oracle")


def run(chk: Check):
    c04.describe(chk)
    describe_histories(chk)
    chk.assumptions += ['closed-cell reading: a piece running along a grid line may be attributed to either adjacent '
                        'cell; a point on the lowest line of an axis belongs to the first cell']
    c04.note_source(chk)
    chk.coq_props('props/C05_Props.v')
    c04.translator_tie(chk, 'C05_Link.v')
    cases = c04.load_corpus('C05') + [c04.gen_case(chk.rng) for _ in range(chk.n(1000, 8000))]
    # generated after the single-trajectory cases: those stay the same for a given seed
    hists = [gen_history(chk.rng) for _ in range(chk.n(400, 3000))]
    check_cases(chk, cases)
    check_histories(chk, hists)


def check_cases(chk: Check, cases):
    res, flags = c04.evaluate(chk, cases)
    for r in res:
        case = r['case']
        feats = c04.case_features(case)
        for f in feats:
            chk.count('kind:' + f)
        chk.count(f"grid:alt={'y' if case['galt'] else 'n'},time={'y' if case['gtime'] else 'n'}")
        chk.count(f"vars:state={len(case['states'])},integrated={len(case['ints'])}")
        chk.case(case, nontrivial=bool(feats & {'many-lines', 'both-families', 'antimeridian', 'on-line',
                                                'on-corner'}) or 'in-cell' not in feats)
        if 'error' in r:
            chk.fail(f"Gridder.grid_trajectory raised {r['error']}", {'case': case}, signature=None)
            continue
        if not r['plain_ok']:
            chk.fail('adding a state and an integrated variable changed the other outputs', {'case': case}, None)
            continue
        out = r['out']
        for desc, sig in c05_oracle(case, out):
            chk.fail(desc, {'case': case, 'impl': {k: out[k] for k in ('lat', 'lon', 'alt', 'time')},
                            'impl_segment_of_piece': out['states'][-1], 'impl_share': out['ints'][-1]},
                     signature=sig)
        for desc in r['probes']:
            chk.fail(desc, {'case': case}, signature=None)
        c04.check_twin(chk, r, flags, c05_oracle, compare_cells, 'C04_Model.geometry',
                       lambda o: {'impl': {k: o[k] for k in ('lat', 'lon', 'alt', 'time')},
                                  'impl_segment_of_piece': o['states'][-1], 'impl_share': o['ints'][-1]})
        if r.get('geo') is None:
            continue
        bad = compare_cells(r)
        if bad:
            chk.broken('correspondence:C04_Model.geometry', bad, case)
        else:
            chk.traces_validated += 1


def replay(chk: Check, rp):
    c04.note_source(chk)
    chk.coq_props('props/C05_Props.v')
    c04.translator_tie(chk, 'C05_Link.v')
    hist = (rp.get('case') or {}).get('history')
    case = (rp.get('case') or {}).get('case')
    if hist:
        check_histories(chk, [hist])
    elif case:
        check_cases(chk, [case])

"""C20 — trajectory stores are confined to one thread under every interleaving.

Tie:    translator/c20_extract.py regenerates the guard program (Gen.C20_Extracted.guard) from
        TrajectoryStore.__init__ on every run; link/C20_Link.v proves it is one of the two modelled programs and
        restates the property (or its refutation) on the extracted text.
        Correspondence: a deterministic statement-level scheduler (sys.settrace in each worker thread + per-thread
        events; the class-level lock, if the source has one, is swapped for a try-acquire lock that reports
        `blocked` to the scheduler) drives real constructor calls through EVERY interleaving word of two threads
        racing to create their first store, and the Coq model (`observe`) is run on the same schedules.
Oracle: plain Python on what the real constructors did: at most one thread ever passes the guard, the owner never
        changes once set, not every call is refused.
"""

from __future__ import annotations

import itertools
import json
import sys
import threading
from pathlib import Path

from harness.common import REPO, VERIF, Check, Raw
from translator import c20_extract
from translator.py2coq import Untranslatable

HEADER = ('From Coq Require Import List Arith.\nFrom AV Require Import model.C20_Model.\n'
          'From Gen Require Import C20_Extracted.\nImport ListNotations.\n')
DRAIN_ROUNDS = 40          # = fuel of C20_Model.drain inside `observe`
STEP_TIMEOUT = 6.0
MAX_STUCK = 3               # after this many stuck schedules the scheduler is of no use on this tree: stop trying


class SchedulerStuck(Exception):
    pass


CONTENDERS: dict = {}        # thread ident -> Worker whose body that thread is executing


def current_worker():
    return CONTENDERS.get(threading.get_ident())


class SchedLock:
    """Stand-in for the class-level threading.Lock while the scheduler is active: a worker that
    cannot get the lock reports `blocked` to the scheduler instead of sleeping inside the C library."""

    def __init__(self):
        self._l = threading.Lock()

    def acquire(self, blocking=True, timeout=-1):
        w = current_worker()
        waited = 0
        while not self._l.acquire(blocking=False):
            if not blocking:
                return False
            if isinstance(w, Worker) and not getattr(w, 'abandoned', False):
                if timeout is not None and timeout >= 0 and waited >= 1:
                    # a waiter with a finite timeout: the holder may stay parked for longer than any timeout, so
                    # the second time the scheduler picks a still-blocked waiter its timeout has run out — it
                    # goes on WITHOUT the lock, as threading.Lock.acquire(timeout=...) would (returns False)
                    return False
                waited += 1
                w.report_blocked()
            elif isinstance(w, Worker):
                return self._l.acquire(True, 5)
            else:                                   # not a scheduled thread: behave like a real lock
                return self._l.acquire(True, timeout)
        return True

    def release(self):
        self._l.release()

    def locked(self):
        return self._l.locked()

    def __enter__(self):
        self.acquire()
        return self

    def __exit__(self, *a):
        self.release()


class Worker(threading.Thread):
    def __init__(self, sch, wid: int, ncalls: int, close_after: bool, first_open_missing: bool = False,
                 via_subclass: bool = False):
        super().__init__(daemon=True, name=f'c20-worker-{wid}')
        self.sch, self.wid, self.ncalls, self.close_after = sch, wid, ncalls, close_after
        self.first_open_missing = first_open_missing
        self.via_subclass = via_subclass
        self.garbage_call = None          # index of a call that opens an existing file which is not a NetCDF file
        self.arrived, self.go = threading.Event(), threading.Event()
        self.pending = None
        self.finished = False
        self.blocked = False
        self.results: list[str] = []
        self.last = None
        self.entered: set = set()
        self.my_ident = None
        self.thread_obj = None
        self.kept = []
        self.in_guard = False

    # -- called in the worker thread ---------------------------------------------------------
    def _wait(self):
        if getattr(self, 'abandoned', False):
            return                                     # the scheduler gave up on this run: just finish
        self.arrived.set()
        if not self.go.wait(timeout=STEP_TIMEOUT * 6):
            raise SystemExit
        if not getattr(self, 'abandoned', False):
            self.go.clear()

    def pause(self, label):
        self.pending = label
        self._wait()

    def report_blocked(self):
        self.blocked = True
        self._wait()

    def local_trace(self, frame, event, arg):
        if event == 'line':
            ent = self.sch.entry(frame.f_lineno)
            if ent is None:
                self.last = None
            else:
                sid, kind = ent
                if sid != self.last:
                    label = kind
                    if kind == 'With':
                        label = 'Release' if sid in self.entered else 'Acquire'
                        self.entered.add(sid)
                    self.pause(label)
                    self.last = sid
        return self.local_trace

    def helper_trace(self, frame, event, arg):
        # raw mode only: a function of store.py called from inside the guard (e.g. a helper that hands out the
        # lock, or does the check) is stepped through line by line as well
        if event == 'line' and self.in_guard:
            key = (frame.f_code.co_name, frame.f_lineno)
            if key != self.last:
                self.pause(f'{frame.f_code.co_name}:{frame.f_lineno}')
                self.last = key
        return self.helper_trace

    def init_trace(self, frame, event, arg):
        # raw mode: the constructor itself; helpers are stepped through only while it is at or before the guard lines
        if event == 'line':
            rr = self.sch.raw_region
            self.in_guard = rr is not None and frame.f_lineno <= rr[1]
        elif event == 'return':
            self.in_guard = False
        self.local_trace(frame, event, arg)
        return self.init_trace

    def global_trace(self, frame, event, arg):
        if event == 'call' and frame.f_code is self.sch.code:
            self.last = None
            self.entered = set()
            self.in_guard = self.sch.guard is None and self.sch.raw_region is not None
            return self.init_trace if self.sch.guard is None else self.local_trace
        if (event == 'call' and self.sch.guard is None and self.in_guard and
                frame.f_code.co_filename == self.sch.code.co_filename):
            return self.helper_trace
        return None

    def cls(self):
        # the store class this worker uses: TrajectoryStore itself, or a trivial subclass of it (the single-thread
        # rule is about trajectory stores, whatever class they are made through)
        return self.sch.sub_cls() if self.via_subclass else self.sch.store_cls

    def run(self):
        self.body()

    def body(self):
        """The constructor calls of this contender; executed by the Worker thread itself or — when the contender is
        played by the MAIN thread — by the main thread while the scheduler runs in a helper thread."""
        self.my_ident = threading.get_ident()
        self.thread_obj = threading.current_thread()
        CONTENDERS[self.my_ident] = self
        sys.settrace(self.global_trace)
        try:
            for call in range(self.ncalls):
                try:
                    if call == 0 and self.first_open_missing:
                        # another entry point, and a constructor that fails AFTER the guard (the file does not
                        # exist): whether the guard lets the thread through must not depend on either
                        try:
                            self.cls().open(base_file='/nonexistent/c20_missing.nc')
                            self.results.append('error:open of a missing file succeeded')
                        except ValueError as e:
                            self.results.append('ok' if 'does not exist' in str(e) else f'error:ValueError:{e}')
                        continue
                    if call == self.garbage_call:
                        # a constructor that passes the guard and then fails while OPENING a file (the file exists but
                        # is not NetCDF): the thread stays the owner — a failed open must not hand the stores over
                        try:
                            self.cls().open(base_file=self.sch.garbage_file())
                            self.results.append('error:open of a non-NetCDF file succeeded')
                        except RuntimeError as e:
                            if 'different threads' in str(e):
                                raise
                            self.results.append('ok')
                        except Exception:  # noqa: BLE001
                            self.results.append('ok')
                        continue
                    ts = self.cls().create()
                    self.results.append('ok')
                    if self.close_after:
                        ts.close()
                    else:
                        self.kept.append(ts)
                except RuntimeError as e:
                    self.results.append('refused' if 'different threads' in str(e) else f'error:RuntimeError:{e}')
                except SystemExit:
                    raise
                except BaseException as e:  # noqa: BLE001
                    self.results.append(f'error:{type(e).__name__}:{e}')
        finally:
            sys.settrace(None)
            CONTENDERS.pop(self.my_ident, None)
            for ts in self.kept:
                try:
                    ts.close()
                except Exception:  # noqa: BLE001
                    pass
            self.finished = True
            self.arrived.set()


class Scheduler:
    """Runs real constructor calls in worker threads, one guard statement of one thread at a time."""

    def __init__(self, store_cls, guard, raw_region=None, tmp=None):
        self.store_cls = store_cls
        self.tmp = tmp
        self.code = store_cls.__init__.__code__
        self.guard = guard
        self.raw_region = raw_region
        self.lock_names = [k for k, v in vars(store_cls).items()
                           if isinstance(v, (type(threading.Lock()), type(threading.RLock()), SchedLock))]
        # class attributes that start as None and may become locks on first use: every run starts from None again
        self.lazy_names = [k for k, v in vars(store_cls).items() if v is None and 'lock' in k.lower()]

    def reset_lazy(self):
        for k in self.lazy_names:
            setattr(self.store_cls, k, None)
        sub = getattr(self, '_sub', None)
        if sub is not None:                       # nothing the code may have recorded on the subclass survives a run
            for k in [k for k in vars(sub) if not k.startswith('__')]:
                delattr(sub, k)

    def garbage_file(self):
        p = self.tmp / 'c20_not_netcdf.nc'
        if not p.exists():
            p.write_bytes(b'this is not a NetCDF file' * 40)
        return p

    def sub_cls(self):
        if getattr(self, '_sub', None) is None:
            self._sub = type('C20SubStore', (self.store_cls,), {})
        return self._sub

    def entry(self, lineno):
        if self.guard is not None:
            return self.guard.stmt_of_line.get(lineno)
        if self.raw_region and self.raw_region[0] <= lineno <= self.raw_region[1]:
            return (lineno, f'line{lineno}')               # raw mode: every physical line is a step
        return None

    def owner_wid(self, workers):
        o = self.store_cls.active_in_thread
        if o is None and getattr(self, '_sub', None) is not None:
            o = getattr(self._sub, 'active_in_thread', None)
        if o is None:
            return None
        for w in workers:
            if o is w or o is w.thread_obj or o == w.my_ident:
                return w.wid
        return 'other'

    def step(self, w: Worker):
        if w.finished:
            return 'Idle'
        label = w.pending
        w.blocked = False
        w.arrived.clear()
        w.go.set()
        if not w.arrived.wait(timeout=STEP_TIMEOUT):
            raise SchedulerStuck(f'worker {w.wid} did not come back from step {label}')
        return 'Blocked' if w.blocked else (label or 'Start')

    def run_interleaved(self, calls, close, sched, open_missing=None, via_subclass=None, garbage=None,
                        main_role=None):
        """calls[i] constructor calls in worker i (all workers alive for the whole run), scheduled by `sched`
        (list of worker indices), then drained round robin.  Returns dict(labels, results, owner, owners_seen)."""
        saved = {k: getattr(self.store_cls, k) for k in self.lock_names}
        # class attributes that start as None and may lazily become locks are put back afterwards as well
        self.reset_lazy()
        self.store_cls.active_in_thread = None
        for k in self.lock_names:
            setattr(self.store_cls, k, SchedLock())
        store_file = self.code.co_filename
        orig_lock, orig_rlock = threading.Lock, threading.RLock

        def lock_factory(*a, **k):
            # a lock made by store.py itself while the scheduler runs (e.g. one created on first use) must be a
            # try-acquire lock too, or a paused holder would block the other workers inside the C library
            if sys._getframe(1).f_code.co_filename == store_file:
                return SchedLock()
            return orig_lock(*a, **k)

        def rlock_factory(*a, **k):
            if sys._getframe(1).f_code.co_filename == store_file:
                return SchedLock()
            return orig_rlock(*a, **k)
        threading.Lock, threading.RLock = lock_factory, rlock_factory
        workers = [Worker(self, i, n, close[i], bool(open_missing and open_missing[i]),
                          bool(via_subclass and via_subclass[i])) for i, n in enumerate(calls)]
        for w in workers:
            if garbage and garbage[w.wid] is not None:
                w.garbage_call = garbage[w.wid]
        labels, owners = [], []
        if main_role is not None and threading.current_thread() is threading.main_thread():
            # contender `main_role` is played by the MAIN thread of the process: the scheduling loop below runs in a
            # helper thread, and this (main) thread executes that contender's constructor calls under the same tracer
            box = {}

            def drive():
                try:
                    box['out'] = self._drive(workers, sched, labels, owners, main_role)
                except BaseException as e:  # noqa: BLE001
                    box['err'] = e
                    for w in workers:
                        w.abandoned = True
                        w.go.set()
            drv = threading.Thread(target=drive, daemon=True, name='c20-driver')
            try:
                drv.start()
                try:
                    workers[main_role].body()
                except SystemExit:
                    pass
                drv.join(timeout=STEP_TIMEOUT * 20)
                if 'err' in box:
                    raise box['err']
                if 'out' not in box:
                    raise SchedulerStuck('the scheduling thread did not finish')
                return box['out']
            finally:
                self._restore(saved, orig_lock, orig_rlock, workers)
        try:
            return self._drive(workers, sched, labels, owners, None)
        finally:
            self._restore(saved, orig_lock, orig_rlock, workers)

    def _restore(self, saved, orig_lock, orig_rlock, workers):
        threading.Lock, threading.RLock = orig_lock, orig_rlock
        for k, v in saved.items():
            setattr(self.store_cls, k, v)
        self.reset_lazy()
        self.store_cls.active_in_thread = None
        for w in workers:                      # never leave a worker waiting for the scheduler
            if not w.finished:
                w.abandoned = True
                w.go.set()

    def _drive(self, workers, sched, labels, owners, main_role):
        if True:
            for w in workers:
                if w.wid != main_role:
                    w.start()
            for w in workers:
                if not w.arrived.wait(timeout=STEP_TIMEOUT):
                    raise SchedulerStuck(f'worker {w.wid} never reached the guard')
            trace = []
            for t in sched:
                labels.append(self.step(workers[t]))
                trace.append([t, labels[-1]])
                owners.append(self.owner_wid(workers))
            for _ in range(DRAIN_ROUNDS if self.guard is not None else 40 * DRAIN_ROUNDS):   # raw mode: steps per call unknown
                if all(w.finished for w in workers):
                    break
                for w in workers:
                    trace.append([w.wid, self.step(w)])
                    owners.append(self.owner_wid(workers))
            if not all(w.finished for w in workers):
                raise SchedulerStuck('workers still running after the drain rounds')
            owner = self.owner_wid(workers)
            for w in workers:
                if w.wid != main_role:
                    w.join(timeout=STEP_TIMEOUT)
            return {'labels': labels, 'results': [w.results for w in workers], 'owner': owner,
                    'owners_seen': owners, 'trace': trace}

    def run_sequential_exit(self, calls, close):
        """Thread i runs all its calls and EXITS before thread i+1 is started (no tracing)."""
        self.store_cls.active_in_thread = None
        results, idents, workers = [], [], []
        try:
            for i, n in enumerate(calls):
                w = Worker(self, i, n, close[i])
                w.sch = _NoTrace(self)
                w.go.set()
                w.start()
                w.join(timeout=STEP_TIMEOUT)
                results.append(w.results)
                idents.append(w.my_ident)
                workers.append(w)
            return {'results': results, 'idents_distinct': len(set(idents)) == len(idents),
                    'owner': self.owner_wid(workers)}
        finally:
            self.reset_lazy()
            self.store_cls.active_in_thread = None


    def run_main_first(self, calls, close):
        """The repository's own scenario: the calling (main) thread creates stores first, untraced and to the end;
        then one worker thread tries.  Thread 0 of the case is the calling thread."""
        self.store_cls.active_in_thread = None
        me = threading.current_thread()
        results = [[]]
        try:
            for _ in range(calls[0]):
                try:
                    ts = self.store_cls.create()
                    results[0].append('ok')
                    if close[0]:
                        ts.close()
                except RuntimeError as e:
                    results[0].append('refused' if 'different threads' in str(e) else f'error:{e}')
            w = Worker(self, 1, calls[1], close[1])
            w.sch = _NoTrace(self)
            w.go.set()
            w.start()
            w.join(timeout=STEP_TIMEOUT)
            results.append(w.results)
            o = self.store_cls.active_in_thread
            owner = None if o is None else 0 if (o is me or o == threading.get_ident()) else \
                1 if (o is w or o == w.my_ident) else 'other'
            return {'results': results, 'idents_distinct': True, 'owner': owner}
        finally:
            self.reset_lazy()
            self.store_cls.active_in_thread = None


class _NoTrace:
    def __init__(self, sch):
        self.store_cls = sch.store_cls
        self.code = None
        self.guard = sch.guard if sch.guard is not None else False     # (never None: no raw-mode stepping here)
        self.raw_region = None

    def entry(self, lineno):
        return None


# ---- independent oracle ---------------------------------------------------------------------------

def oracle(calls, out):
    """The property, on what the real constructors did.  Returns (ok, description)."""
    winners = [i for i, r in enumerate(out['results']) if 'ok' in r]
    bad = [r for rs in out['results'] for r in rs if r not in ('ok', 'refused')]
    if bad:
        return False, f'constructor failed otherwise than by the documented refusal: {bad[0]}'
    if any(len(r) != n for r, n in zip(out['results'], calls)):
        return False, 'a constructor call did not finish'
    if len(winners) > 1:
        return False, f'threads {winners} all created stores'
    seen = [o for o in out.get('owners_seen', []) if o is not None]
    if any(a != b for a, b in zip(seen, seen[1:])):
        return False, f'the owning thread changed: {seen}'
    if sum(calls) > 0 and not winners:
        return False, 'every constructor call was refused'
    if winners and out['owner'] != winners[0]:
        return False, f'thread {winners[0]} created stores but the recorded owner is {out["owner"]}'
    return True, ''


def race_signature(guard, case, out):
    """F19, narrowly: no lock in the source, and two different threads executed the `is None` test before the
    first assignment — both then passed the guard."""
    if guard is None or guard.variant != 'as_coded':
        return None
    testers_before_set = set()
    first_set = None
    for t, lb in out['trace']:
        if lb == 'Set':
            first_set = t
            break
        if lb == 'TestNone':
            testers_before_set.add(t)
    if first_set is not None and len(testers_before_set) >= 2:
        return 'guard-check-then-set-race'
    return None


# ---- Coq side ---------------------------------------------------------------------------------------

def coq_observe(case):
    calls = '[' + '; '.join(f'({i}, {n})' for i, n in enumerate(case['calls'])) + ']'
    sched = '[' + '; '.join(str(t) for t in case['sched']) + ']'
    return f'observe guard {calls} {sched}'


def model_view(v):
    labels, res, owner = v
    return {'labels': [str(x)[2:] for x in labels], 'counts': [list(p) for p in res], 'owner': owner}


def impl_view(out):
    return {'labels': out['labels'],
            'counts': [[r.count('ok'), r.count('refused')] for r in out['results']],
            'owner': out['owner']}


# ---- the run --------------------------------------------------------------------------------------------

def extract(chk: Check):
    store_py = REPO / 'src/AEIC/trajectories/store.py'
    name = 'extract:trajectories/store.py:TrajectoryStore.__init__ thread guard'
    try:
        g = c20_extract.extract_guard(store_py)
    except Untranslatable as e:
        chk.obligations.append({'name': name, 'ok': False})
        chk.broken(name, str(e))
        return None
    if g.variant == 'other':
        chk.obligations.append({'name': name, 'ok': False})
        chk.broken(name, f'guard program {g.coq_term} is none of the modelled programs')
        return None
    chk.obligations.append({'name': name, 'ok': True})
    if chk.coq_compile_gen('C20_Extracted', c20_extract.coq_text(g)) is None:
        return None
    if not chk.coq_link('C20_Link.v'):
        return None
    return g


def raw_region():
    """Fallback when the guard cannot be translated: lines of TrajectoryStore.__init__ that mention the owner."""
    import ast
    src = (REPO / 'src/AEIC/trajectories/store.py').read_text()
    cls = next((c for c in ast.parse(src).body if isinstance(c, ast.ClassDef) and c.name == 'TrajectoryStore'), None)
    for n in (cls.body if cls is not None else []):
        if isinstance(n, ast.FunctionDef) and n.name == '__init__':
            lines = [m.lineno for s in n.body for m in ast.walk(s)
                     if isinstance(m, ast.Attribute) and m.attr == 'active_in_thread']
            stmts = [s for s in n.body if any(isinstance(m, ast.Attribute) and m.attr == 'active_in_thread'
                                              for m in ast.walk(s))]
            if stmts:
                return (min(s.lineno for s in stmts), max(s.end_lineno for s in stmts))
            if not lines:
                # the check-and-record was moved into a helper (method, static method, decorated function) of the
                # module: the guard region is the constructor statement(s) calling a function that mentions the owner;
                # helper_trace then steps through the helper (and its decorators' wrappers) line by line
                helpers = {f.name for f in ast.walk(ast.parse(src)) if isinstance(f, (ast.FunctionDef,)) and
                           f.name != '__init__' and any(isinstance(m, ast.Attribute) and m.attr == 'active_in_thread'
                                                        for m in ast.walk(f))}
                calls = [s for s in n.body if any(
                    isinstance(m, ast.Call) and ((isinstance(m.func, ast.Attribute) and m.func.attr in helpers) or
                                                 (isinstance(m.func, ast.Name) and m.func.id in helpers))
                    for m in ast.walk(s))]
                if calls:
                    return (min(s.lineno for s in calls), max(s.end_lineno for s in calls))
            return None if not lines else (min(lines), max(lines))
    return None


def words(n_threads, length):
    return [list(w) for w in itertools.product(range(n_threads), repeat=length)]


def gen_cases(chk: Check, guard):
    rng = chk.rng
    per_call = 5 if (guard is not None and guard.variant == 'locked') else 3
    if guard is None:
        per_call = 5          # raw mode (untranslatable guard): physical lines are the steps; only used to find a failing input
    cases = []
    if guard is None:
        # raw mode (the guard could not be translated; helper functions of store.py are stepped through as well, so
        # the number of steps per call is unknown): a family of structured schedules for the first two constructor
        # calls of the process — alternate j steps, let one thread run k steps, the other m steps, alternate again —
        # and random words.  Only there to FIND failing schedules.
        for a, b in ((0, 1), (1, 0)):
            for j in range(5):
                for k in range(5):
                    for m in range(5):
                        w = [a, b] * j
                        w = w[:2 * j] + [a] * k + [b] * m
                        w += [a, b] * ((28 - len(w)) // 2)
                        cases.append({'kind': 'interleave', 'calls': [1, 1], 'close': [True, True], 'sched': w})
        for _ in range(200):
            cases.append({'kind': 'interleave', 'calls': [1, 1], 'close': [True, True],
                          'sched': [rng.randrange(2) for _ in range(24)]})
    # E1: exhaustive — two threads racing to create their first store, every schedule word
    for w in (words(2, 2 * per_call) if guard is not None else []):
        cases.append({'kind': 'interleave', 'calls': [1, 1], 'close': [True, True], 'sched': w, 'exhaustive': True})
    # sequential orders, before / after close, second and third calls
    for calls in ([2, 1], [1, 2], [2, 2], [3, 1]):
        for close in ([True, True], [False, False], [True, False]):
            for order in ([0, 1], [1, 0]):
                sched = [t for t in order for _ in range((per_call + 1) * calls[t])]
                cases.append({'kind': 'interleave', 'calls': calls, 'close': close, 'sched': sched})
    # E2: more calls per thread, random words
    for _ in range(chk.n(150, 1500)):
        calls = rng.choice([[2, 1], [1, 2], [2, 2], [3, 1]])
        L = rng.randint(0, (per_call + 1) * sum(calls))
        cases.append({'kind': 'interleave', 'calls': calls, 'close': [rng.random() < 0.5 for _ in calls],
                      'sched': [rng.randrange(2) for _ in range(L)],
                      'open_missing': [rng.random() < 0.3 for _ in calls]})
    # E3: three threads
    for _ in range(chk.n(120, 1500)):
        calls = rng.choice([[1, 1, 1], [1, 1, 1], [2, 1, 1], [1, 0, 2]])
        L = rng.randint(0, (per_call + 1) * sum(calls))
        cases.append({'kind': 'interleave', 'calls': calls, 'close': [rng.random() < 0.5 for _ in calls],
                      'sched': [rng.randrange(3) for _ in range(L)]})
    if chk.tier == 'thorough':
        for w in words(2, 12):
            cases.append({'kind': 'interleave', 'calls': [2, 1], 'close': [True, True], 'sched': w,
                          'exhaustive': True})
    # the MAIN thread of the process as one of the two racing contenders (its identity is just another thread id for the
    # model; code that treats the main thread specially shows here): every schedule word with the main thread as
    # contender 0, sampled words with it as contender 1, and more calls
    if guard is not None:
        for w in words(2, 2 * per_call):
            cases.append({'kind': 'interleave', 'calls': [1, 1], 'close': [True, True], 'sched': w, 'main_role': 0,
                          'exhaustive': True})
    for _ in range(chk.n(100, 1000)):
        calls = rng.choice([[1, 1], [1, 1], [2, 1], [1, 2]])
        cases.append({'kind': 'interleave', 'calls': calls, 'close': [rng.random() < 0.5 for _ in calls],
                      'sched': [rng.randrange(2) for _ in range(rng.randint(0, (per_call + 1) * sum(calls)))],
                      'main_role': rng.randrange(2)})
    # stores made through a (trivial) subclass of TrajectoryStore, by one thread, the other, or both: the first store
    # of the process through the subclass then a plain one from another thread, and the reverse; also interleaved
    for via in ([True, False], [False, True], [True, True]):
        for order in ([0, 1], [1, 0]):
            cases.append({'kind': 'interleave', 'calls': [1, 1], 'close': [True, False], 'via_subclass': via,
                          'sched': [t for t in order for _ in range(per_call + 1)]})
            cases.append({'kind': 'interleave', 'calls': [2, 1], 'close': [False, True], 'via_subclass': via,
                          'sched': [t for t in order for _ in range(2 * (per_call + 1))]})
        for _ in range(chk.n(12, 200)):
            cases.append({'kind': 'interleave', 'calls': [1, 1], 'close': [True, True], 'via_subclass': via,
                          'sched': [rng.randrange(2) for _ in range(2 * per_call)]})
    # the owner's constructor fails while opening a file (after the guard): strictly sequential schedules only, so that
    # the NetCDF library is never entered by two threads at once
    for calls, garbage in (([2, 1], [1, None]), ([1, 1], [0, None]), ([3, 1], [1, None])):
        cases.append({'kind': 'interleave', 'calls': calls, 'close': [True, True], 'garbage': garbage,
                      'sched': [0] * ((per_call + 2) * calls[0] * (1 if guard is not None else 40)) +
                               [1] * ((per_call + 2) * calls[1])})
    # S: one thread after the other, each exiting before the next starts
    for calls in ([1, 1], [2, 1], [1, 1, 1], [1, 2, 1]):
        for close in (True, False):
            cases.append({'kind': 'sequential_exit', 'calls': calls, 'close': [close] * len(calls),
                          'sched': [t for t in range(len(calls)) for _ in range(6 * calls[t])]})
    # M: the calling thread first (as in tests/test_storage.py::test_multi_threading), then a worker thread
    for calls in ([1, 1], [2, 2], [0, 2]):
        for close in (True, False):
            cases.append({'kind': 'main_first', 'calls': calls, 'close': [close, close],
                          'sched': [t for t in range(2) for _ in range(6 * calls[t])]})
    return cases


def load_corpus(chk):
    d = VERIF / 'corpus' / chk.pid
    return [json.loads(f.read_text())['case'] for f in sorted(d.glob('*.json'))]


def check_cases(chk: Check, cases, guard):
    from AEIC.trajectories import TrajectoryStore
    sch = Scheduler(TrajectoryStore, guard, None if guard is not None else raw_region(), chk.tmp)
    if guard is not None and guard.variant == 'locked' and not sch.lock_names:
        chk.broken('scheduler:lock-not-found', 'the source takes a class-level lock but no threading lock is a class '
                                               'attribute of TrajectoryStore')
    outs = []
    stuck = 0
    raw_failures = 0
    for c in cases:
        if stuck >= MAX_STUCK or (guard is None and raw_failures >= 25):
            outs.append(None)        # (raw mode is only there to find failing schedules: enough is enough)
            continue
        try:
            if c['kind'] == 'interleave':
                outs.append(sch.run_interleaved(c['calls'], c['close'], c['sched'], c.get('open_missing'), c.get('via_subclass'), c.get('garbage'), c.get('main_role')))
            elif c['kind'] == 'main_first':
                outs.append(sch.run_main_first(c['calls'], c['close']))
            else:
                outs.append(sch.run_sequential_exit(c['calls'], c['close']))
            if guard is None and not oracle(c['calls'], outs[-1])[0]:
                raw_failures += 1
        except SchedulerStuck as e:
            stuck += 1
            chk.broken('scheduler-stuck', str(e) + (' — giving up on scheduled runs' if stuck >= MAX_STUCK else ''), c)
            outs.append(None)
    model = [None] * len(cases)
    if guard is not None:
        model = chk.coq_eval(HEADER, [coq_observe(c) for c in cases])
    for c, out, mo in zip(cases, outs, model):
        if out is None:
            continue
        distinct_threads_step = len({t for t in c['sched'][:4]}) > 1
        chk.case({k: c.get(k) for k in ('kind', 'calls', 'close', 'sched', 'open_missing', 'via_subclass', 'garbage', 'main_role')},
                 nontrivial=(c['kind'] == 'interleave' and distinct_threads_step) or c['kind'] != 'interleave')
        chk.count('kind:' + c['kind'] + (':exhaustive' if c.get('exhaustive') else ''))
        chk.count(f'threads:{len(c["calls"])}')
        for lb in out.get('labels', []):
            chk.count('step:' + lb)
        ok, why = oracle(c['calls'], out)
        if not ok:
            sig = None
            if c['kind'] == 'interleave':
                sig = race_signature(guard, c, out)
            elif not out.get('idents_distinct', True):
                sig = 'thread-ident-reused-after-thread-exit'
            chk.fail(f'{c["kind"]} calls={c["calls"]} sched={c["sched"]}: {why}',
                     {'case': c, 'impl': out}, signature=sig)
            if sig is None:
                continue
        if mo is None:
            continue
        mv = model_view(mo)
        if c['kind'] == 'interleave':
            iv = impl_view(out)
        else:
            iv = {'labels': mv['labels'], 'counts': [[r.count('ok'), r.count('refused')] for r in out['results']],
                  'owner': out['owner']}
            if not ok:
                continue          # F-C20a: the model's thread ids are distinct by construction; the oracle reported it
        if iv != mv:
            chk.broken('correspondence:C20_Model.observe', f'implementation {iv} vs model {mv}', c)
        else:
            chk.traces_validated += 1


def run(chk: Check):
    chk.rule = ('E1: every word over {0,1} of length 2*(statements per guard) as schedule of two threads each '
                'constructing a first store, at statement granularity, then round-robin drain (exhaustive); '
                'sequential orders with second/third calls before and after close; random words for 2 threads with '
                '2-3 calls and for 3 threads; threads that exit before the next starts. '
                'non-trivial = the first four scheduled steps involve more than one thread, or a thread exits before '
                'the next starts')
    chk.trusted += ['translator/c20_extract.py (guard statements -> gstmt)',
                    'harness/c20.py: sys.settrace scheduler (one guard statement of one thread per step), try-acquire '
                    'stand-in for the class-level lock, Python oracle',
                    'CPython: thread switches inside one statement of the guard are not modelled; each guard statement '
                    'reads or writes the shared attribute at most once']
    chk.assumptions += ['threads are identified by threading.get_ident(): distinct for threads alive at the same time; '
                        'CPython may reuse the value after a thread has exited (checked by the sequential_exit cases)',
                        'close() does not touch active_in_thread (checked by the extractor: the constructor guard is '
                        'the only writer)']
    chk.coq_props('props/C20_Props.v')
    guard = extract(chk)
    chk.notes['guard_variant'] = guard.variant if guard else 'untranslatable'
    chk.notes['thread_identity'] = guard.identity if guard else None
    if guard is not None:
        print(f'[C20] guard in the tree: {guard.variant} (threads identified by {guard.identity}), '
              f'lines {guard.first_line}-{guard.last_line}', file=sys.stderr)
    cases = load_corpus(chk) + gen_cases(chk, guard)
    check_cases(chk, cases, guard)
    chk.exhaustive = guard is not None


def replay(chk: Check, rp):
    chk.coq_props('props/C20_Props.v')
    guard = extract(chk)
    case = (rp.get('case') or {}).get('case')
    if case:
        check_cases(chk, [case], guard)

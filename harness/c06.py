"""C06 — the table-based performance model reproduces its table and never extrapolates.

Tie:    translator (units.py constants, ZERO_ROCD_TOL, the altitude->FL conversion of PerformanceTable.interpolate)
        -> Gen.C06_Extracted, link/C06_Link*.v;
        correspondence: generated tables / malformed tables / generated PTF files through the real
        PerformanceModel.from_data / load, LegacyPerformanceModel.evaluate, Interpolator, PTFData.load,
        build_performance_table  vs  C06_Model.run_case / build_table evaluated in Coq (binary64).
Oracle: exact multilinear interpolation over fractions.Fraction written from the property statement
        (nested form, bisect search; shares nothing with the code or the Coq model), node values compared
        bit-for-bit, envelope edges probed at +-1 ulp, PTF text re-parsed by a separate small reader.
"""

from __future__ import annotations

import bisect
import json
import math
import os
import re
from fractions import Fraction as Fr
from pathlib import Path

from harness.common import REPO, VERIF, Check, close
from translator import py2coq
from translator.c06_extract import extract_c06

PHASES = ('Climb', 'Cruise', 'Descent')
RULE = {'Climb': 'CLIMB', 'Cruise': 'CRUISE', 'Descent': 'DESCEND'}
FILT = {'Climb': 'POSITIVE', 'Cruise': 'ZERO', 'Descent': 'NEGATIVE'}
LABEL = {'positive': 'Climb', 'zero': 'Cruise', 'negative': 'Descent'}
VARS = {'tas': 'VTas', 'fuel_flow': 'VFf', 'rocd': 'VRocd'}
COLS = ['fl', 'mass', 'tas', 'rocd', 'fuel_flow']
TOL = 1.0e-6                      # "ROCD ~ 0" of the table format (docstring of PerformanceTable)
SHIPPED_METERS_TO_FL = 3.28084 / 100   # the constant finding F4 is about
SIG_F4 = 'altitude-to-FL-multiplies-by-METERS_TO_FL-which-is-not-the-inverse-of-FL_TO_METERS'
SIG_SORT = 'single-mass-interpolator-takes-values-in-row-order-not-flight-level-order'
SIG_SET = 'coverage-count-test-accepts-duplicate-node-plus-missing-node'
SIG_ULP = 'tabulated-level-in-metres-does-not-survive-the-binary64-round-trip-through-FL_TO_METERS'
SIG_PTF0 = 'ptf-climb-entry-of-0-fpm-becomes-a-cruise-row-and-the-generated-table-is-refused'

HEADER = ('From Coq Require Import ZArith List Bool PrimFloat.\n'
          'From AV Require Import lib.Num lib.FloatMath model.C06_Model.\n'
          'From Gen Require Import C06_Extracted.\n'
          'Import ListNotations.\nOpen Scope float_scope.\n'
          'Notation R := (@mkRow FNum).\nNotation QQ := (@Q FNum).\nNotation MV := (@MVal FNum).\n'
          'Notation MLO := (@MMin FNum).\nNotation MHI := (@MMax FNum).\n'
          'Notation PC := (@mkPC FNum).\nNotation PR := (@mkPR FNum).\nNotation PD := (@mkPD FNum).\n'
          'Definition conv := @alt_to_fl FNum.\n'
          'Definition tup (r : row FNum) := (r_fl r, r_mass r, r_tas r, r_rocd r, r_ff r).\n'
          'Definition ptf_case sw lo nom hi cl cr de qs :=\n'
          '  let rows := @build_table FNum (@KNOTS_TO_MPS FNum) (@FPM_TO_MPS FNum) (@MINUTES_TO_SECONDS FNum)\n'
          '                (@mkPTF FNum lo nom hi cl cr de) in\n'
          '  (map tup rows, run_case sw conv rows qs).\n')


def fh(x) -> str:
    x = float(x)
    h = x.hex()
    return f'(-{h[1:]})' if h.startswith('-') else f'({h})'


# ----------------------------------------------------------------------------------------------
# independent oracle (exact rationals)
# ----------------------------------------------------------------------------------------------

def phase_of(rocd: float) -> str:
    if rocd > TOL:
        return 'Climb'
    if rocd < -TOL:
        return 'Descent'
    return 'Cruise'


def phase_rows(rows, phase):
    return [r for r in rows if phase_of(r[3]) == phase]


def grid_facts(prows):
    """(FL set sorted, mass set sorted, {(fl,mass): [rows]}, complete?)"""
    F = sorted({r[0] for r in prows})
    M = sorted({r[1] for r in prows})
    nodes: dict = {}
    for r in prows:
        nodes.setdefault((r[0], r[1]), []).append(r)
    complete = all(len(nodes.get((f, m), [])) == 1 for f in F for m in M) and len(prows) == len(F) * len(M)
    return F, M, nodes, complete


def table_is_valid(rows) -> bool:
    """Valid table in the sense of the property's quantifier: three masses; climb and cruise are complete
    FL x 3-mass grids, descent a complete FL x 1-mass grid; airspeed depends on FL only in every phase,
    climb fuel flow on FL only."""
    if not all_finite(rows) or len({r[1] for r in rows}) != 3:
        return False
    for p in PHASES:
        pr = phase_rows(rows, p)
        if not pr:
            return False
        F, M, nodes, complete = grid_facts(pr)
        if not complete or len(M) != (1 if p == 'Descent' else 3):
            return False
        for f in F:
            rs = [nodes[(f, m)][0] for m in M]
            if len({r[2] for r in rs}) != 1:
                return False
            if p == 'Climb' and len({r[4] for r in rs}) != 1:
                return False
    return True


def all_finite(rows) -> bool:
    return all(math.isfinite(v) for r in rows for v in r)


def every_phase_complete(rows) -> bool:
    if not all_finite(rows):          # NaN cells: outside the property's domain; correspondence only
        return True
    return all(grid_facts(phase_rows(rows, p))[3] for p in PHASES)


def lerp(a: Fr, b: Fr, t: Fr) -> Fr:
    return a + (b - a) * t


def cell(xs, q: Fr):
    """indices (i, j) of the bracketing grid values and the parameter t in [0,1]; xs floats sorted, q inside."""
    if len(xs) == 1:
        return 0, 0, Fr(0)
    k = bisect.bisect_right([Fr(x) for x in xs], q) - 1
    k = min(max(k, 0), len(xs) - 2)
    a, b = Fr(xs[k]), Fr(xs[k + 1])
    return k, k + 1, (q - a) / (b - a)


def ref_eval(prows, q: Fr, mass: Fr, positional: bool = False):
    """Exact reference for one complete phase table.  ('rej','fl'|'mass') or ('ok', (tas, rocd, ff), corners).
    positional=True is the defect hypothesis of FC06b (values taken in row order)."""
    F, M, nodes, _ = grid_facts(prows)
    if not (Fr(F[0]) <= q <= Fr(F[-1])):
        return ('rej', 'fl')
    if len(M) > 1 and not (Fr(M[0]) <= mass <= Fr(M[-1])):
        return ('rej', 'mass')
    i0, i1, t = cell(F, q)
    if len(M) > 1:
        j0, j1, s = cell(M, mass)
    else:
        j0 = j1 = 0
        s = Fr(0)

    def val(i, j, c):
        if positional and len(M) == 1:
            return Fr(prows[i][c])
        return Fr(nodes[(F[i], M[j])][0][c])
    out = []
    corners = []
    for c in (2, 3, 4):
        v00, v01, v10, v11 = val(i0, j0, c), val(i0, j1, c), val(i1, j0, c), val(i1, j1, c)
        out.append(lerp(lerp(v00, v01, s), lerp(v10, v11, s), t))
        corners.append((v00, v01, v10, v11))
    return ('ok', tuple(out), corners)


def nxt(x: float, up: bool) -> float:
    return math.nextafter(x, math.inf if up else -math.inf)


# ----------------------------------------------------------------------------------------------
# generation
# ----------------------------------------------------------------------------------------------

def gen_fls(rng, allow_single=True):
    n = rng.choice([2, 2, 3, 3, 4, 5, 6, 8] + ([1] if allow_single else []))
    style = rng.random()
    out: set = set()
    while len(out) < n:
        if style < 0.45:
            v = float(rng.choice([5, 10, 20]) * rng.randint(0, 45))
        elif style < 0.75:
            v = float(rng.randint(0, 450))
        else:
            v = rng.uniform(0.0, 500.0)
        if all(abs(v - o) >= 0.5 for o in out):
            out.add(v)
    if style < 0.75 and rng.random() < 0.35:
        out = set(sorted(out)[1:]) | {0.0}
        while len(out) < n:
            out.add(float(rng.randint(1, 450)))
    return sorted(out)


def gen_val(rng, lo, hi):
    r = rng.random()
    if r < 0.1:
        return float(round(rng.uniform(lo, hi)))
    if r < 0.2:
        return round(rng.uniform(lo, hi), 2)
    return rng.uniform(lo, hi)


def gen_valid_rows(rng):
    scale = rng.choice([1.0, 1.0, 1.0, 1e-3, 1e3])
    if rng.random() < 0.5:
        masses = sorted(rng.sample(range(20000, 400000), 3))
        masses = [float(m) for m in masses]
    else:
        masses = sorted(rng.uniform(1e3, 5e5) for _ in range(3))
    rows = []
    flat = rng.random() < 0.1
    for p in PHASES:
        F = gen_fls(rng)
        tas0 = gen_val(rng, 50, 300)
        ff0 = gen_val(rng, 0.05, 3)
        if p == 'Descent':
            m = rng.choice(masses)
            for f in F:
                rocd = -gen_val(rng, 0.5, 30) if rng.random() > 0.1 else -rng.choice([1.5e-6, 2e-6, 1e-5])
                rows.append([f, m, tas0 if flat else gen_val(rng, 50, 300) * scale, rocd,
                             ff0 if flat else gen_val(rng, 0.05, 3) * scale])
            continue
        for f in F:
            tas = tas0 if flat else gen_val(rng, 50, 300) * scale
            ffc = ff0 if flat else gen_val(rng, 0.05, 3) * scale
            for m in masses:
                if p == 'Climb':
                    rocd = gen_val(rng, 0.5, 40) if rng.random() > 0.1 else rng.choice([1.5e-6, 2e-6, 1e-5])
                    rows.append([f, m, tas, rocd, ffc])
                else:
                    rr = rng.random()
                    rocd = 0.0 if rr < 0.8 else rng.choice([5e-7, -5e-7, 1e-6, -1e-6, -0.0])
                    rows.append([f, m, tas, rocd, gen_val(rng, 0.05, 3) * scale])
    return rows, masses


def order_rows(rng, rows):
    k = rng.random()
    if k < 0.4:
        return sorted(rows, key=lambda x: (x[1], x[0], -x[3])), 'as-generated-by-the-PTF-converter'
    if k < 0.55:
        return sorted(rows, key=lambda x: (x[0], x[1])), 'by-fl'
    if k < 0.7:
        return sorted(rows, key=lambda x: (-x[0], x[1])), 'fl-descending'
    r2 = list(rows)
    rng.shuffle(r2)
    return r2, 'shuffled'


MALFORMED = ['missing', 'duplicate', 'duplicate_other_values', 'dup_missing', 'masses2', 'masses4', 'descent3',
             'climb2', 'tas_mass', 'ff_mass_climb', 'descent_varies', 'no_descent', 'only_descent',
             'nan_value', 'nan_rocd', 'nan_fl', 'nan_mass']


def gen_malformed(rng, kind):
    rows, masses = gen_valid_rows(rng)
    multi = [p for p in ('Climb', 'Cruise') if len({r[0] for r in phase_rows(rows, p)}) >= 1]
    p = rng.choice(multi)
    idx = [i for i, r in enumerate(rows) if phase_of(r[3]) == p]
    if kind == 'missing':
        del rows[rng.choice(idx)]
    elif kind == 'duplicate':
        rows.append(list(rows[rng.choice(idx)]))
    elif kind == 'duplicate_other_values':
        r = list(rows[rng.choice(idx)])
        if p == 'Cruise':
            r[4] = r[4] * 1.5
        else:
            r[3] = r[3] * 1.5
        rows.append(r)
    elif kind == 'dup_missing':
        i = rng.choice(idx)
        same_fl = [j for j in idx if rows[j][0] == rows[i][0] and j != i]
        others = same_fl if rng.random() < 0.6 else [j for j in idx if j != i]
        j = rng.choice(others)
        rows[i] = list(rows[j])
    elif kind == 'masses2':
        drop = rng.choice(masses)
        rows = [r for r in rows if r[1] != drop]
        if not phase_rows(rows, 'Descent'):
            rows.append([100.0, [m for m in masses if m != drop][0], 100.0, -5.0, 0.5])
    elif kind == 'masses4':
        extra = masses[-1] + 1000.0
        for r in [r for r in rows if phase_of(r[3]) == p and r[1] == masses[0]]:
            rows.append([r[0], extra, r[2], r[3], r[4]])
    elif kind == 'descent3':
        d = phase_rows(rows, 'Descent')
        for r in d:
            for m in masses:
                if m != r[1]:
                    rows.append([r[0], m, r[2], r[3], r[4]])
    elif kind == 'climb2':
        drop = rng.choice(masses)
        rows = [r for r in rows if not (phase_of(r[3]) == 'Climb' and r[1] == drop)]
    elif kind == 'tas_mass':
        i = rng.choice(idx)
        rows[i][2] = rows[i][2] * 1.25 + 1.0
    elif kind == 'ff_mass_climb':
        idx = [i for i, r in enumerate(rows) if phase_of(r[3]) == 'Climb']
        i = rng.choice(idx)
        rows[i][4] = rows[i][4] * 1.25 + 0.01
    elif kind == 'descent_varies':
        d = phase_rows(rows, 'Descent')
        for r in d:
            for m in masses:
                if m != r[1]:
                    rows.append([r[0], m, r[2], r[3] * (1.0 + 0.1 * (m > r[1])) - 0.1, r[4]])
    elif kind.startswith('nan_'):
        col = {'nan_value': rng.choice([2, 4]), 'nan_rocd': 3, 'nan_fl': 0, 'nan_mass': 1}[kind]
        rows[rng.choice(idx)][col] = math.nan
    elif kind == 'no_descent':
        rows = [r for r in rows if phase_of(r[3]) != 'Descent']
    elif kind == 'only_descent':
        rows = phase_rows(rows, 'Descent')
    return rows


def gen_queries(rng, rows, flm: float, dense: bool):
    """Queries derived from the table alone.  Each: d(irect FL) / p(hase) / alt (metres, or FL when direct) /
    m (kg or 'min'/'max') / tag / g (continuity group id or None)."""
    qs = []
    allm = sorted({r[1] for r in rows})
    gid = [0]

    def add(d, p, alt, m, tag, g=None):
        qs.append({'d': bool(d), 'p': p, 'alt': float(alt), 'm': m if isinstance(m, str) else float(m),
                   'tag': tag, 'g': g})

    for p in PHASES:
        pr = phase_rows(rows, p)
        if not pr:
            add(False, p, 1000.0, allm[0] if allm else 1.0, 'empty-phase')
            continue
        F = sorted({r[0] for r in pr})
        M = sorted({r[1] for r in pr})
        nodes = [(f, m) for f in F for m in M]
        pick = nodes if len(nodes) <= (12 if dense else 6) else rng.sample(nodes, 12 if dense else 6)
        for f, m in pick:
            add(True, p, f, m, 'node-direct')
        mp = rng.sample(nodes, min(len(nodes), 5 if dense else 3))
        mp += [(F[-1], rng.choice(M)), (F[0], rng.choice(M))]
        for f, m in mp:
            add(False, p, f * flm, m, 'node-metres')
        mlo, mhi = M[0], M[-1]
        for _ in range(4 if dense else 2):
            q = rng.uniform(F[0], F[-1])
            m = rng.uniform(mlo, mhi)
            add(False, p, q * flm, m, 'interior')
            add(True, p, q, m, 'interior-direct')
        # edges: FL node x interior mass, interior FL x mass node
        add(True, p, rng.choice(F), rng.uniform(mlo, mhi), 'edge-fl')
        add(True, p, rng.uniform(F[0], F[-1]), rng.choice(M), 'edge-mass')
        add(False, p, rng.choice(F) * flm, rng.uniform(mlo, mhi), 'edge-fl-metres')
        # continuity probes across a grid line
        f = rng.choice(F)
        m = rng.uniform(mlo, mhi)
        gid[0] += 1
        for x in (nxt(f, False), f, nxt(f, True)):
            add(True, p, x, m, 'cont-fl', gid[0])
        gid[0] += 1
        a0 = f * flm
        for x in (nxt(a0, False), a0, nxt(a0, True)):
            add(False, p, x, m, 'cont-alt', gid[0])
        if len(M) > 1:
            mm = rng.choice(M)
            q = rng.uniform(F[0], F[-1])
            gid[0] += 1
            for x in (nxt(mm, False), mm, nxt(mm, True)):
                add(True, p, q, x, 'cont-mass', gid[0])
        # outside the envelope
        add(True, p, nxt(F[-1], True), rng.choice(M), 'out-fl-ulp')
        add(True, p, nxt(F[0], False), rng.choice(M), 'out-fl-ulp')
        add(False, p, (F[-1] + rng.uniform(0.01, 50.0)) * flm, rng.choice(M), 'out-fl')
        add(False, p, (F[0] - rng.uniform(0.01, 50.0)) * flm, rng.choice(M), 'out-fl')
        # inside the flight-level range of the whole table but outside this phase's own range
        allF = sorted({r[0] for r in rows if math.isfinite(r[0])})
        other = [f for f in allF if f < F[0] or f > F[-1]]
        if other:
            fo = rng.choice(other)
            add(False, p, fo * flm, rng.choice(M), 'out-phase-in-table')
            add(True, p, fo, rng.choice(M), 'out-phase-in-table')
        qin = rng.uniform(F[0], F[-1])
        add(True, p, qin, nxt(mhi, True), 'out-mass-ulp')
        add(True, p, qin, nxt(mlo, False), 'out-mass-ulp')
        add(False, p, qin * flm, mhi * rng.uniform(1.001, 2.0), 'out-mass')
        add(False, p, qin * flm, mlo * rng.uniform(0.1, 0.999), 'out-mass')
        if rng.random() < 0.3:
            add(True, p, nxt(F[-1], True), nxt(mhi, True), 'out-both')
        # symbolic masses, each paired with the explicit extreme
        qin = rng.uniform(F[0], F[-1])
        gid[0] += 1
        add(False, p, qin * flm, 'min', 'sym-min', gid[0])
        add(False, p, qin * flm, allm[0], 'sym-min-explicit', gid[0])
        gid[0] += 1
        fn = rng.choice(F)
        add(True, p, fn, 'max', 'sym-max', gid[0])
        add(True, p, fn, allm[-1], 'sym-max-explicit', gid[0])
    return qs


def gen_layout(rng):
    order = list(range(5))
    rng.shuffle(order)
    return {'order': order, 'upper': rng.random() < 0.3, 'extra': rng.random() < 0.3,
            'ints': rng.random() < 0.3}


def gen_table_case(rng, flm, malformed_p=0.3):
    if rng.random() < malformed_p:
        kind = rng.choice(MALFORMED)
        rows = gen_malformed(rng, kind)
    else:
        kind = 'valid'
        rows, _ = gen_valid_rows(rng)
    rows, oname = order_rows(rng, rows)
    return {'kind': 'table', 'tkind': kind, 'order': oname, 'rows': rows, 'layout': gen_layout(rng),
            'queries': gen_queries(rng, rows, flm, dense=(kind == 'valid'))}


# ---- PTF files -------------------------------------------------------------------------------

def gen_ptf_case(rng, flm):
    lo = rng.randint(20000, 150000)
    nom = lo + rng.randint(1000, 80000)
    hi = nom + rng.randint(1000, 80000)
    fls = sorted({rng.choice([0, 5, 10, 15, 20, 30, 40]) for _ in range(rng.randint(1, 5))}
                 | {10 * rng.randint(5, 45) for _ in range(rng.randint(1, 9))}
                 | ({0} if rng.random() < 0.6 else set()))
    cruise_from = rng.choice(fls)
    has_cruise = [f for f in fls if f >= cruise_from]
    if len(has_cruise) == 0:
        has_cruise = fls[-1:]
    dec = rng.choice([1, 2])
    lines = []
    for f in fls:
        climb = (rng.randint(100, 500), rng.randint(200, 9000), rng.randint(100, 7000), rng.randint(1, 6000),
                 round(rng.uniform(5, 300), dec))
        desc = (rng.randint(100, 500), rng.randint(1, 4000), round(rng.uniform(1, 60), dec))
        cru = None
        if f in has_cruise:
            cru = (rng.randint(100, 520), round(rng.uniform(5, 200), dec), round(rng.uniform(5, 200), dec),
                   round(rng.uniform(5, 200), dec))
        lines.append((f, cru, climb, desc))
    if rng.random() < 0.2 and len(lines) >= 2:
        # BADA PTF files give a rate of climb of 0 where the aircraft cannot climb (heavy, near the ceiling)
        for k in range(len(lines) - rng.randint(1, 2), len(lines)):
            f, cru, cl, de = lines[k]
            lines[k] = (f, cru, (cl[0], cl[1], cl[2] if rng.random() < 0.7 else 0, 0, cl[4]), de)
    style = {'blank_rows': rng.random() < 0.7, 'wide': rng.random() < 0.5, 'payload': rng.randint(500, 60000),
             'maxalt': rng.randint(200, 510) * 100, 'name': rng.choice(['B738__', 'A320__', 'XX1___', 'E190__'])}
    case = {'kind': 'ptf', 'low': lo, 'nom': nom, 'high': hi, 'lines': lines, 'style': style}
    case['text'] = ptf_text(case)
    return case


def ptf_text(case) -> str:
    st = case['style']
    w = 2 if st['wide'] else 1
    sp = ' ' * w
    out = ['BADA PERFORMANCE FILE                                        Mar 09 2025', '',
           f"AC/Type: {st['name']}",
           '                              Source OPF File:               Mar 09 2025',
           '                              Source APF file:               Mar 09 2025', '',
           ' Speeds:   CAS(LO/HI)  Mach   Mass Levels [kg]         Temperature:  ISA',
           f" climb   - 250/300     0.80   low     -   {case['low']}",
           f" cruise  - 250/280     0.80   nominal -   {case['nom']}        Max Alt. [ft]:  {st['maxalt']}",
           f" descent - 250/290     0.80   high    -   {case['high']}        Max Payload [kg]:  {st['payload']}",
           '=' * 90,
           ' FL |          CRUISE           |               CLIMB               |       DESCENT',
           '    |  TAS          fuel        |  TAS          ROCD         fuel   |  TAS  ROCD    fuel',
           '    | [kts]       [kg/min]      | [kts]        [fpm]       [kg/min] | [kts] [fpm] [kg/min]',
           '    |          lo   nom    hi   |         lo    nom    hi    nom    |        nom    nom',
           '=' * 90]
    for f, cru, cl, de in case['lines']:
        c = ' ' * 27 if cru is None else f"  {cru[0]}{sp}   {cru[1]}{sp}{cru[2]}{sp}{cru[3]} "
        k = f"  {cl[0]}    {cl[1]}{sp} {cl[2]}{sp} {cl[3]}   {cl[4]}  "
        d = f"  {de[0]}   {de[1]}{sp}  {de[2]}"
        out.append(f'{f:3d} |{c}|{k}|{d}')
        if st['blank_rows']:
            out.append('    |                           |                                   |')
    out.append('=' * 90)
    return '\n'.join(out) + '\n'


def small_ptf_reader(text: str):
    """Independent reader of the BADA PTF layout: header masses and the table lines (numbers by column group)."""
    masses = {}
    rows = []
    in_table = False
    for ln in text.splitlines():
        for tag in ('low', 'nominal', 'high'):
            mm = re.search(tag + r'\s+-\s+([0-9]+)', ln)
            if mm and not in_table:
                masses[tag] = int(mm.group(1))
        cells = ln.split('|')
        if len(cells) == 4 and cells[0].strip() == 'FL':
            in_table = True
            continue
        if in_table and len(cells) == 4 and cells[0].strip().isdigit():
            nums = [[float(t) for t in c.split()] for c in cells[1:]]
            rows.append((int(cells[0]), nums[0], nums[1], nums[2]))
    return masses, rows


# ----------------------------------------------------------------------------------------------
# implementation side
# ----------------------------------------------------------------------------------------------

def classify_exc(e: BaseException):
    s = str(e)
    if 'wrong number of mass values' in s:
        return 'EMassCount'
    mm = re.search(r'Performance data at (\w+) ROC does not have full coverage', s)
    if mm:
        return ('ECoverage', LABEL.get(mm.group(1), mm.group(1)))
    mm = re.search(r'(\w+) at (\w+) ROC depends on variables other than FL', s)
    if mm:
        return ('EFlOnly', VARS.get(mm.group(1), mm.group(1)), LABEL.get(mm.group(2), mm.group(2)))
    mm = re.search(r'out of bounds in dimension (\d+)', s)
    if mm:
        return ('EBounds', int(mm.group(1)))
    return f'Other:{type(e).__name__}:{s[:160]}'


def model_data(case):
    lay = case['layout']
    cols = [COLS[i] for i in lay['order']]
    if lay['upper']:
        cols = [c.upper() for c in cols]
    data = []
    for r in case['rows']:
        row = [r[i] for i in lay['order']]
        if lay['ints']:
            row = [int(v) if float(v).is_integer() and abs(v) < 1e15 and not (v == 0 and math.copysign(1, v) < 0)
                   else v for v in row]
        if lay['extra']:
            row = row + [123.456]
        data.append(row)
    return dict(model_type='Legacy' if lay['upper'] else 'legacy', aircraft_name='X', aircraft_class='narrow',
                maximum_altitude_ft=41000, maximum_payload_kg=1000, number_of_engines=2, speeds=None,
                lto_performance=None, flight_performance=dict(cols=cols, data=data))


_DIRECT: dict = {}


def impl_query(model, q, state=None):
    from AEIC.performance.models.legacy import Interpolator, ROCDFilter
    from AEIC.performance.types import AircraftState, SimpleFlightRules
    try:
        if q['d']:
            # flight level handed to the phase interpolator directly (the glue of PerformanceTable.interpolate
            # without the unit conversion); the Interpolator of a phase is built once per model instance
            tbl = model.performance_table
            m = q['m']
            if m == 'min':
                m = min(tbl.mass)
            elif m == 'max':
                m = max(tbl.mass)
            key = (id(model), q['p'])
            if key not in _DIRECT:
                if len(_DIRECT) > 64:
                    _DIRECT.clear()
                try:
                    _DIRECT[key] = (model, Interpolator(tbl.subset(ROCDFilter[FILT[q['p']]]).df))
                except Exception as e:  # noqa: BLE001
                    _DIRECT[key] = (model, e)
            it = _DIRECT[key][1]
            if isinstance(it, Exception):
                raise it
            perf = it(q['alt'], m)
        else:
            st = state if state is not None else AircraftState(q['alt'], q['m'])
            perf = model.evaluate(st, SimpleFlightRules[RULE[q['p']]])
        return ['Ok', float(perf.true_airspeed), float(perf.rate_of_climb), float(perf.fuel_flow)]
    except Exception as e:  # noqa: BLE001
        return ['Rej', classify_exc(e)]


# ---- optional state fields: AircraftState.true_airspeed / rate_of_climb are not inputs of a table model ----
OPT_ROC = (None, 0.0, 2.5, -4.0, 1e-3)
OPT_TAS = (None, 200.0)
OPT_MAX = 24        # queries per table re-evaluated with the optional fields set (x 9 field combinations)


def impl_optional(model, queries):
    """Re-evaluate a deterministic sample of the metre-altitude queries (every phase) with the OPTIONAL state fields
    set; entries [query index, rate_of_climb, true_airspeed, result, state-after].  A single query (replay) is
    always in the sample."""
    from AEIC.performance.types import AircraftState
    idx = [k for k, q in enumerate(queries) if not q['d']]
    if len(idx) > OPT_MAX:
        # spread over phases and tags: the out-of-envelope and symbolic-mass queries first, then a stride
        pri = [k for k in idx if queries[k]['tag'] in ('out-mass', 'out-fl', 'sym-min', 'out-phase-in-table')]
        rest = [k for k in idx if k not in pri]
        room = max(OPT_MAX - len(pri), 6)
        step = max(1, len(rest) // room)
        idx = sorted(pri + rest[::step][:room])
    out = []
    for k in idx:
        q = queries[k]
        for roc in OPT_ROC:
            for tas in OPT_TAS:
                if roc is None and tas is None:
                    continue
                st = AircraftState(q['alt'], q['m'], true_airspeed=tas, rate_of_climb=roc)
                r = impl_query(model, q, state=st)
                after = [st.altitude, st.aircraft_mass, st.true_airspeed, st.rate_of_climb]
                out.append([k, roc, tas, r, None if after == [q['alt'], q['m'], tas, roc] else repr(st)])
    return out


def impl_table(case):
    from AEIC.performance.models import PerformanceModel
    try:
        model = PerformanceModel.from_data(model_data(case))
    except Exception as e:  # noqa: BLE001
        return {'load': classify_exc(e), 'results': []}
    res = [impl_query(model, q) for q in case['queries']]
    opt = impl_optional(model, case['queries']) if table_is_valid(case['rows']) else []
    # dependence on (altitude, mass, phase) only: a fresh instance, other order
    model2 = PerformanceModel.from_data(model_data(case))
    again = {}
    for k in list(range(len(case['queries'])))[::-7]:
        again[k] = impl_query(model2, case['queries'][k])
    return {'load': None, 'results': res, 'again': again, 'optional': opt,
            'min_mass': float(min(model.performance_table.mass)), 'max_mass': float(max(model.performance_table.mass)),
            'maximum_mass': float(model.maximum_mass)}


def impl_ptf(chk: Check, case, idx):
    """PTF text -> PTFData.load -> build_performance_table -> model file (TOML) -> PerformanceModel.load."""
    import tomllib

    import tomli_w

    from AEIC.config import Config
    from AEIC.parsers.ptf_reader import PTFData
    from AEIC.performance.models import PerformanceModel
    Config.reset()
    import AEIC.commands.make_performance_model as mpm       # runs Config.load() at import (first time only)
    Config.reset()
    pf = chk.tmp / f'case_{idx}.PTF'
    pf.write_text(case['text'])
    try:
        ptf = PTFData.load(pf)
        table = mpm.build_performance_table(ptf)
    except Exception as e:  # noqa: BLE001
        return {'load': f'Other:convert:{type(e).__name__}:{e}', 'results': [], 'rows': None}
    with open(REPO / 'src/AEIC/data/performance/sample_performance_model.toml', 'rb') as fp:
        sample = tomllib.load(fp)
    toml_data = {'model_type': 'legacy', 'aircraft_name': ptf.aircraft_type, 'aircraft_class': 'narrow',
                 'ISA_offset': ptf.isa_offset, 'maximum_altitude_ft': ptf.maximum_altitude_ft,
                 'maximum_payload_kg': ptf.maximum_payload, 'number_of_engines': 2,
                 'LTO_performance': sample['LTO_performance'], 'speeds': ptf.speeds.model_dump(),
                 'flight_performance': table}
    mf = chk.tmp / f'case_{idx}.toml'
    with open(mf, 'wb') as fp:
        tomli_w.dump(toml_data, fp)
    rows = [[float(v) for v in r] for r in table['data']]
    if [c.lower() for c in table['cols']] != COLS:
        return {'load': f"Other:cols:{table['cols']}", 'results': [], 'rows': rows}
    try:
        model = PerformanceModel.load(mf)
    except Exception as e:  # noqa: BLE001
        return {'load': classify_exc(e), 'results': [], 'rows': rows}
    hdr = {'low': ptf.low_mass, 'nom': ptf.nominal_mass, 'high': ptf.high_mass,
           'maxalt': ptf.maximum_altitude_ft, 'payload': ptf.maximum_payload}
    return {'load': None, 'rows': rows, 'model': model, 'hdr': hdr}


# ----------------------------------------------------------------------------------------------
# Coq side
# ----------------------------------------------------------------------------------------------

def coq_rows(rows) -> str:
    return '[' + '; '.join('R ' + ' '.join(fh(v) for v in r) for r in rows) + ']'


def coq_mass(m) -> str:
    return 'MLO' if m == 'min' else 'MHI' if m == 'max' else f'(MV {fh(m)})'


def coq_queries(qs) -> str:
    return '[' + '; '.join(f"QQ {'true' if q['d'] else 'false'} {q['p']} {fh(q['alt'])} {coq_mass(q['m'])}"
                           for q in qs) + ']'


def coq_sw(sw) -> str:
    return f"(mkSw {'true' if sw['sort'] else 'false'} {'true' if sw['set'] else 'false'})"


def coq_table_expr(case, sw) -> str:
    return f"run_case {coq_sw(sw)} conv {coq_rows(case['rows'])} {coq_queries(case['queries'])}"


def coq_ptf_expr(case, qs, sw) -> str:
    cl = '[' + '; '.join(f'PC {fh(f)} ' + ' '.join(fh(v) for v in c) for f, _, c, _ in case['lines']) + ']'
    cr = '[' + '; '.join(f'PR {fh(f)} ' + ' '.join(fh(v) for v in c) for f, c, _, _ in case['lines']
                         if c is not None) + ']'
    de = '[' + '; '.join(f'PD {fh(f)} ' + ' '.join(fh(v) for v in d) for f, _, _, d in case['lines']) + ']'
    return (f"ptf_case {coq_sw(sw)} {fh(case['low'])} {fh(case['nom'])} {fh(case['high'])} {cl} {cr} {de} "
            f"{coq_queries(qs)}")


def norm_model_result(v):
    """parsed Coq `result` -> ['Ok', a, b, c] | ['Rej', kind]"""
    if isinstance(v, tuple) and v[0] == 'Ok':
        return ['Ok', float(v[1]), float(v[2]), float(v[3])]
    if isinstance(v, tuple) and v[0] == 'Rej':
        return ['Rej', norm_err(v[1])]
    return ['?', repr(v)]


def norm_err(e):
    if e is None:
        return None
    if isinstance(e, tuple):
        return tuple(str(x) if isinstance(x, str) else x for x in e)
    return str(e)


def same_result(a, b, exact=False):
    if a[0] != b[0]:
        return False
    if a[0] == 'Rej':
        return norm_err(a[1]) == norm_err(b[1])
    if exact:
        return all(x == y or (math.isnan(x) and math.isnan(y)) for x, y in zip(a[1:], b[1:]))
    sc = max(abs(x) for x in list(a[1:]) + list(b[1:]))
    return all(close(x, y, rel=1e-9, scale=sc) for x, y in zip(a[1:], b[1:]))


# ----------------------------------------------------------------------------------------------
# the property oracle
# ----------------------------------------------------------------------------------------------

class Units:
    """conversion factors of the library under test, read once (the property speaks about the library's own
    factor for expressing a flight level in metres)."""

    def __init__(self):
        from AEIC import units as U
        self.FL_TO_METERS = float(U.FL_TO_METERS)
        self.METERS_TO_FL = float(U.METERS_TO_FL)


def scale_of(corners):
    return max([abs(float(v)) for c in corners for v in c] + [1e-300])


def judge_query(rows, q, res, units: Units):
    """Property verdict for one query on a *valid* table.  Returns None (fine) or (description, signatures).

    Levels given directly: the exact reference at that level, bit-equality at tabulated points.
    Altitudes in metres: if the altitude is `f * FL_TO_METERS` (binary64, the library's factor) for a tabulated level f
    of the phase, the answer must be the one for level f -- exactly the tabulated values at a tabulated mass.  Where the
    binary64 round trip (f * C) / C differs from f, an answer that is right for the level (f * C) / C instead is
    attributed to finding FC06e (and to nothing else).  Any other altitude: the answer must be right for the exact
    quotient alt / C or for its binary64 value."""
    pr = phase_rows(rows, q['p'])
    F, M, nodes, _ = grid_facts(pr)
    allm = sorted({r[1] for r in rows})
    mass = q['m']
    if mass == 'min':
        mass = allm[0]
    elif mass == 'max':
        mass = allm[-1]
    mass = Fr(mass)
    C = units.FL_TO_METERS

    def verdict(qfl: Fr, positional: bool = False):
        """None if `res` is what the exact reference demands at flight level qfl, else a description."""
        ref = ref_eval(pr, qfl, mass, positional)
        if ref[0] == 'rej':
            if res[0] == 'Rej':
                return None
            return f'outside the table ({ref[1]}) but a value was returned: {res}'
        if res[0] != 'Ok':
            return f'inside the table but rejected: {res}'
        vals, corners = ref[1], ref[2]
        sc = scale_of(corners)
        got = res[1:]
        on_node = any(Fr(f) == qfl for f in F) and (len(M) == 1 or any(Fr(m) == mass for m in M))
        for name, g, want, cs in zip(('true_airspeed', 'rate_of_climb', 'fuel_flow'), got, vals, corners):
            if not math.isfinite(g):
                return f'{name} not finite: {g}'
            if on_node:
                if g != float(want):
                    return f'{name} at a tabulated point is {g!r}, table has {float(want)!r}'
                continue
            lo = float(min(cs)) - 1e-10 * sc
            hi = float(max(cs)) + 1e-10 * sc
            if not (lo <= g <= hi):
                return f'{name}={g!r} outside the surrounding table values [{float(min(cs))!r}, {float(max(cs))!r}]'
            if abs(Fr(g) - want) > Fr(1e-11) * Fr(sc):
                if q['tag'].startswith(('node', 'cont', 'edge', 'sym', 'shared')):
                    return (f'{name}={g!r} but the table gives {float(want)!r} at flight level '
                            f'{float(qfl)!r}, mass {float(mass)!r}')
        return None

    sigs = []
    if q['d']:
        levels = [Fr(q['alt'])]
        plain = verdict(levels[0])
    else:
        alt = q['alt']
        rt = alt / C                                              # the library's factor, binary64
        node = next((f for f in F if f * C == alt), None)
        if node is not None:
            levels = [Fr(node)]
            plain = verdict(Fr(node))
            if plain is not None and rt != node and verdict(Fr(rt)) is None:
                plain = (f'tabulated level {node!r} expressed in metres ({alt!r}) comes back as '
                         f'{rt!r} in binary64: ' + plain)
                sigs = [SIG_ULP]
        else:
            levels = [Fr(alt) / Fr(C), Fr(rt)]
            plain = verdict(levels[0])
            if plain is not None and verdict(levels[1]) is None:
                plain = None
    if plain is None:
        return None
    if sigs:
        return plain, sigs
    # which other known defect hypotheses explain the observed answer exactly?
    hyps = []
    if not q['d'] and units.METERS_TO_FL == SHIPPED_METERS_TO_FL:
        hyps.append(('F4', [Fr(q['alt']) * Fr(SHIPPED_METERS_TO_FL), Fr(q['alt'] * SHIPPED_METERS_TO_FL)], False))
    if q['p'] == 'Descent' and len(M) == 1:
        hyps.append(('SORT', levels, True))
        if not q['d'] and units.METERS_TO_FL == SHIPPED_METERS_TO_FL:
            hyps.append(('F4+SORT', [Fr(q['alt']) * Fr(SHIPPED_METERS_TO_FL), Fr(q['alt'] * SHIPPED_METERS_TO_FL)], True))
    for name, lvls, pos in hyps:
        if any(verdict(lv, pos) is None for lv in lvls):
            sigs = {'F4': [SIG_F4], 'SORT': [SIG_SORT], 'F4+SORT': [SIG_F4, SIG_SORT]}[name]
            break
    return plain, sigs


def judge_groups(case, results):
    """continuity across grid lines and symbolic masses, by query group."""
    out = []
    groups: dict = {}
    for k, q in enumerate(case['queries']):
        if q.get('g') is not None:
            groups.setdefault(q['g'], []).append(k)
    for ks in groups.values():
        tag = case['queries'][ks[0]]['tag']
        rs = [results[k] for k in ks]
        if tag.startswith('sym'):
            if rs[0] != rs[1]:
                out.append((ks[0], f"symbolic mass {case['queries'][ks[0]]['m']!r} gives {rs[0]} but the table's "
                                   f"extreme mass {case['queries'][ks[1]]['m']!r} gives {rs[1]}"))
            continue
        oks = [(k, r) for k, r in zip(ks, rs) if r[0] == 'Ok']
        for (k1, r1), (k2, r2) in zip(oks, oks[1:]):
            sc = max(abs(x) for x in r1[1:] + r2[1:]) + 1e-300
            x1, x2 = case['queries'][k1], case['queries'][k2]
            pr = phase_rows(case['rows'], x1['p'])
            spread = max(max(abs(r[c]) for r in pr) for c in (2, 3, 4))
            # two arguments one ulp apart: the answers may differ by (largest slope) * ulp, far below this bound
            if any(abs(a - b) > 1e-8 * max(sc, spread) for a, b in zip(r1[1:], r2[1:])):
                out.append((k1, f'jump across a grid line: {x1["alt"]!r},{x1["m"]!r} -> {r1}; '
                                f'{x2["alt"]!r},{x2["m"]!r} -> {r2}'))
    return out


# ----------------------------------------------------------------------------------------------
# running cases
# ----------------------------------------------------------------------------------------------

def detect_tree_state(chk: Check, units: Units):
    """Which of the repaired behaviours does this tree have?  (Only selects the switches of the model the
    correspondence runs against; a wrong guess shows up as a broken correspondence.)"""
    from AEIC.performance.models import PerformanceModel
    st = {'sort': True, 'set': True}
    lay = {'order': [0, 1, 2, 3, 4], 'upper': False, 'extra': False, 'ints': False}
    base = []
    for f in (0.0, 100.0):
        for m in (1.0, 2.0, 3.0):
            base.append([f, m, 100.0 + f, 5.0 + m, 1.0])
            base.append([f, m, 120.0 + f, 0.0, 0.5 + m])
    desc = [[100.0, 2.0, 300.0, -7.0, 0.3], [0.0, 2.0, 200.0, -5.0, 0.2]]
    try:
        mdl = PerformanceModel.from_data(model_data({'rows': base + desc, 'layout': lay}))
        r = impl_query(mdl, {'d': True, 'p': 'Descent', 'alt': 0.0, 'm': 2.0})
        st['sort'] = (r == ['Ok', 200.0, -5.0, 0.2])
    except Exception:  # noqa: BLE001
        pass
    dm = [list(r) for r in base] + [desc[1], desc[0]]
    i = next(k for k, r in enumerate(dm) if r[0] == 100.0 and r[1] == 3.0 and r[3] == 0.0)
    j = next(k for k, r in enumerate(dm) if r[0] == 100.0 and r[1] == 2.0 and r[3] == 0.0)
    dm[i] = list(dm[j])
    try:
        PerformanceModel.from_data(model_data({'rows': dm, 'layout': lay}))
        st['set'] = False
    except Exception:  # noqa: BLE001
        st['set'] = True
    return st


def extract_and_link(chk: Check):
    """Regenerate Gen.C06_Extracted from the working tree and check the link lemmas.  The F4 state of the tree is
    decided by Coq: the `fixed` link file (round trip FL -> metres -> FL is the identity) is tried first, then the
    `open` one (the round trip is refuted for the shipped constants)."""
    name = 'extract:units.py+legacy.py:PerformanceTable.interpolate'
    try:
        text, meta = extract_c06(REPO)
    except py2coq.Untranslatable as e:
        chk.obligations.append({'name': name, 'ok': False})
        chk.broken(name, str(e))
        return None
    chk.obligations.append({'name': name, 'ok': True})
    if chk.coq_compile_gen('C06_Extracted', text) is None:
        return None
    chk.coq_link('C06_Link.v')
    chk.coq_link('C06_Link_Rules.v')
    import shutil
    probe = chk.gen / 'C06_Link_F4fixed.v'
    shutil.copy(VERIF / 'coq/link/C06_Link_F4fixed.v', probe)
    r = chk._coqc(probe, ['-R', str(chk.gen), 'Gen'])
    state = 'fixed' if r.returncode == 0 else 'open'
    chk.coq_link('C06_Link_F4fixed.v' if state == 'fixed' else 'C06_Link_F4open.v')
    chk.notes['altitude_conversion_in_tree'] = meta['conversion']
    chk.notes['F4_state_decided_by_coq'] = state
    return state


def load_corpus(chk: Check):
    out = []
    for f in sorted((VERIF / 'corpus' / chk.pid).glob('*.json')):
        c = json.loads(f.read_text())
        c['corpus'] = f.name
        out.append(c)
    return out


def check_tables(chk: Check, cases, sw, units: Units):
    impl = [impl_table(c) for c in cases]
    model = chk.coq_eval(HEADER, [coq_table_expr(c, sw) for c in cases], shard=25, label='tables')
    for c, io, mo in zip(cases, impl, model):
        rows = c['rows']
        valid = table_is_valid(rows)
        complete = every_phase_complete(rows)
        n_multi = sum(1 for p in PHASES if len({r[0] for r in phase_rows(rows, p)}) >= 2)
        chk.case({'tkind': c['tkind'], 'rows': rows, 'layout': c['layout'], 'n_queries': len(c['queries'])},
                 nontrivial=(valid and n_multi >= 1) or (not complete))
        chk.count('table:' + c['tkind'])
        chk.count('order:' + c.get('order', 'corpus'))
        failed = False
        slim = {k: v for k, v in c.items() if k != 'queries'}
        # ---- refusal of incomplete grids at load time
        if not complete and io['load'] is None:
            ph = [p for p in PHASES if not grid_facts(phase_rows(rows, p))[3]]
            sig = None
            for p in ph:
                pr = phase_rows(rows, p)
                F, M, nodes, _ = grid_facts(pr)
                if len(pr) == len(F) * len(M) and len(ph) == 1:
                    sig = SIG_SET       # duplicate + missing with the right row count: the count test is blind
            chk.fail(f'{p} rows are not a complete flight-level x mass grid, yet the table was accepted at load',
                     {**slim, 'queries': [], 'impl_load': io['load']}, signature=sig)
            failed = True
        if valid and io['load'] is not None:
            chk.fail(f"valid table refused at load: {io['load']}", {**slim, 'queries': [], 'impl_load': io['load']})
            failed = True
        # ---- per query
        if io['load'] is None:
            for k, (q, r) in enumerate(zip(c['queries'], io['results'])):
                chk.count('query:' + q['tag'])
                if r[0] == 'Rej' and isinstance(r[1], str) and r[1].startswith('Other:'):
                    chk.fail(f'unexpected exception on query {q}: {r[1]}', {**slim, 'queries': [q], 'impl': [r]})
                    failed = True
                    continue
                if not valid:
                    continue
                j = judge_query(rows, q, r, units)
                if j is not None:
                    desc, sigs = j
                    for s in (sigs or [None]):
                        chk.fail(f"{q['tag']} {q['p']}: {desc}", {**slim, 'queries': [q], 'impl': [r]}, signature=s)
                    failed = True
            if valid:
                for k, desc in judge_groups(c, io['results']):
                    q = c['queries'][k]
                    qg = [x for x in c['queries'] if x.get('g') == q['g']]
                    # a jump / mismatch produced by a defect already attributed on a member of the group
                    js = [judge_query(rows, x, io['results'][c['queries'].index(x)], units) for x in qg]
                    sigs = sorted({s for j in js if j for s in j[1]})
                    for s in (sigs or [None]):
                        chk.fail(f"{q['tag']} {q['p']}: {desc}", {**slim, 'queries': qg}, signature=s)
                    failed = True
                for k, r2 in io['again'].items():
                    if r2 != io['results'][k]:
                        chk.fail(f"same (altitude, mass, phase) gave {io['results'][k]} then {r2} on a fresh instance",
                                 {**slim, 'queries': [c['queries'][k]]})
                        failed = True
                # the values (or the refusal) depend only on altitude, mass and phase: the optional state fields
                # (true_airspeed, rate_of_climb) are not inputs of a table model, whatever their value or sign
                seen_opt = set()
                for k, roc, tas, r2, mutated in io.get('optional', []):
                    q = c['queries'][k]
                    chk.count('optional-fields:' + q['p'])
                    if mutated is not None and (k, 'mut') not in seen_opt:
                        seen_opt.add((k, 'mut'))
                        chk.fail(f"evaluate wrote to its argument: AircraftState({q['alt']!r}, {q['m']!r}, "
                                 f"true_airspeed={tas!r}, rate_of_climb={roc!r}) is now {mutated}",
                                 {**slim, 'queries': [q], 'optional': [roc, tas]})
                        failed = True
                    if r2 != io['results'][k] and (k, 'val') not in seen_opt:
                        seen_opt.add((k, 'val'))
                        chk.fail(f"{q['tag']} {q['p']}: altitude {q['alt']!r} m, mass {q['m']!r} gives "
                                 f"{io['results'][k]} with the optional state fields unset but {r2} with "
                                 f"rate_of_climb={roc!r}, true_airspeed={tas!r} (same altitude, mass and phase)",
                                 {**slim, 'queries': [q], 'impl': [io['results'][k]], 'optional': [roc, tas],
                                  'impl_optional': [r2]})
                        failed = True
                allm = sorted({r[1] for r in rows})
                if (io['min_mass'], io['max_mass'], io['maximum_mass']) != (allm[0], allm[-1], allm[-1]):
                    chk.fail(f"table mass extremes {allm[0]}, {allm[-1]} but model reports {io['min_mass']}, "
                             f"{io['max_mass']} (maximum_mass {io['maximum_mass']})", {**slim, 'queries': []})
                    failed = True
        # ---- correspondence with the Coq model
        if mo is None:
            continue
        m_load, m_res = norm_err(mo[0]), [norm_model_result(v) for v in mo[1]]
        if norm_err(io['load']) != m_load:
            chk.broken('correspondence:C06_Model.load', f"implementation {io['load']!r} vs model {m_load!r}", slim)
            continue
        bad = None
        if io['load'] is None:
            for q, r, m in zip(c['queries'], io['results'], m_res):
                if not same_result(r, m, exact=(q['tag'] == 'node-direct')):
                    bad = (q, r, m)
                    break
        if bad:
            chk.broken('correspondence:C06_Model.evaluate',
                       f'query {bad[0]}: implementation {bad[1]} vs model {bad[2]}', {**slim, 'queries': [bad[0]]})
        elif not failed:
            chk.traces_validated += 1


# ---- sessions: several models in one process (state must not leak between model instances) ----

def gen_session_case(rng, flm):
    """2-3 valid tables with the SAME flight-level / mass grid in every phase and different tabulated values (one of
    them may be an exact copy), their queries, and an operation list: create all; every query asked of the models
    in turn (so the models alternate inside each phase); re-create model 0 and ask again; ask, re-create, ask."""
    base, _ = gen_valid_rows(rng)
    base, oname = order_rows(rng, base)
    n = rng.choice([2, 2, 3])
    tables = [base]
    for j in range(1, n):
        if rng.random() < 0.15:
            tables.append([list(r) for r in base])
            continue
        s_t, s_r, s_f = rng.uniform(1.1, 3.0), rng.uniform(1.1, 3.0), rng.uniform(1.1, 3.0)
        var = []
        for r in base:
            cruise = phase_of(r[3]) == 'Cruise'
            var.append([r[0], r[1], r[2] * s_t + j, r[3] if cruise else r[3] * s_r, r[4] * s_f + 0.01 * j])
        if rng.random() < 0.5:
            rng.shuffle(var)
        tables.append(var)
    qs = gen_queries(rng, base, flm, dense=False)
    qs = [q for q in qs if not q['d'] or rng.random() < 0.3]        # mostly through evaluate()
    tabs = [{'rows': t, 'layout': gen_layout(rng), 'queries': [dict(q) for q in qs]} for t in tables]
    ops = [['new', i] for i in range(n)]
    for k in range(len(qs)):
        for i in range(n):
            ops.append(['q', i, k])
    # a table with another grid and other masses, and ONE state object per (altitude, symbolic mass) handed to every
    # model in every phase: a call must not write to its argument, and each model must use its own extreme mass
    other, _ = gen_valid_rows(rng)
    oq = gen_queries(rng, other, flm, dense=False)
    tabs.append({'rows': other, 'layout': gen_layout(rng), 'queries': rng.sample(oq, min(10, len(oq)))})
    ops.append(['new', n])
    for k in range(len(tabs[n]['queries'])):
        ops.append(['q', n, k])
    shared = []
    for sid in range(3):
        pr = phase_rows(base, rng.choice(PHASES))
        fs = [r[0] for r in pr]
        shared.append((rng.uniform(min(fs), max(fs)) * flm, rng.choice(['min', 'max'])))
    for sid, (a, sym) in enumerate(shared):
        for p in PHASES:
            for i in (list(range(n + 1)) if sid % 2 == 0 else list(range(n, -1, -1))):
                tabs[i]['queries'].append({'d': False, 'p': p, 'alt': float(a), 'm': sym, 'tag': 'shared-state',
                                           'g': None, 'sid': sid})
                ops.append(['q', i, len(tabs[i]['queries']) - 1])
    ops.append(['new', 0])
    for k in rng.sample(range(len(qs)), min(12, len(qs))):
        ops.append(['q', 0, k])
        ops.append(['q', n - 1, k])
    for k in rng.sample(range(len(qs)), min(6, len(qs))):
        i = rng.randrange(n)
        ops += [['q', i, k], ['new', i], ['q', i, k]]
    return {'kind': 'session', 'order': oname, 'tables': tabs, 'ops': ops}


def impl_session(case):
    from AEIC.performance.models import PerformanceModel
    from AEIC.performance.types import AircraftState
    inst: dict = {}
    states: dict = {}
    out, muts = [], []
    for op in case['ops']:
        mut = None
        if op[0] == 'new':
            try:
                inst[op[1]] = PerformanceModel.from_data(model_data(case['tables'][op[1]]))
                out.append(None)
            except Exception as e:  # noqa: BLE001
                inst[op[1]] = None
                out.append(classify_exc(e))
        else:
            m = inst.get(op[1])
            q = case['tables'][op[1]]['queries'][op[2]]
            st = None
            if q.get('sid') is not None:
                st = states.setdefault(q['sid'], AircraftState(q['alt'], q['m']))
            out.append(['Rej', 'NotLoaded'] if m is None else impl_query(m, q, state=st))
            if st is not None and (st.altitude, st.aircraft_mass, st.true_airspeed, st.rate_of_climb) != \
                    (q['alt'], q['m'], None, None):
                mut = f'AircraftState({q["alt"]!r}, {q["m"]!r}) is now {st!r}'
        muts.append(mut)
    return out, muts


def check_sessions(chk: Check, cases, sw, units: Units):
    impls = [impl_session(c) for c in cases]
    exprs, where = [], []
    for ci, c in enumerate(cases):
        for ti, t in enumerate(c['tables']):
            exprs.append(coq_table_expr({'rows': t['rows'], 'queries': t['queries']}, sw))
            where.append((ci, ti))
    model = dict(zip(where, chk.coq_eval(HEADER, exprs, shard=25, label='sessions')))
    for ci, (c, (outs, muts)) in enumerate(zip(cases, impls)):
        chk.case({'kind': 'session', 'n_tables': len(c['tables']), 'n_ops': len(c['ops']),
                  'rows0': c['tables'][0]['rows']}, nontrivial=True)
        chk.count('session:cases')
        chk.count('session:ops', len(c['ops']))
        failed = False
        pending_mut = None
        first: dict = {}
        for oi, (op, r) in enumerate(zip(c['ops'], outs)):
            if op[0] == 'new':
                if r is not None:
                    chk.fail(f'valid table refused at load inside a session (op {oi}): {r}',
                             {**c, 'first_bad_op': oi}, signature=None)
                    failed = True
                continue
            t = c['tables'][op[1]]
            q = t['queries'][op[2]]
            chk.count('session:query:' + q['tag'])
            if muts[oi] is not None and pending_mut is None:
                pending_mut = (oi, f'session op {oi} (model {op[1]}, {q["p"]}): evaluate wrote to the state it was '
                                   f'given: {muts[oi]}')
            j = judge_query(t['rows'], q, r, units)
            if j is not None:
                desc, sigs = j
                if sigs:           # a known-finding pattern on this call: record it and go on with the session
                    for sg in sigs:
                        chk.fail(f"session op {oi} (model {op[1]}, {q['tag']} {q['p']}): {desc}",
                                 {**c, 'first_bad_op': oi, 'impl': r}, signature=sg)
                    failed = True
                    first.setdefault((op[1], op[2]), r)
                    continue
                for sg in (sigs or [None]):
                    chk.fail(f"session op {oi} (model {op[1]}, {q['tag']} {q['p']}): {desc}"
                             + (f' [earlier: {pending_mut[1]}]' if pending_mut else ''),
                             {**c, 'first_bad_op': oi, 'impl': r}, signature=sg)
                failed = True
                break
            key = (op[1], op[2])
            if key in first and first[key] != r:
                chk.fail(f'session op {oi}: model {op[1]} answered {first[key]} before and {r} now for the same '
                         f'(altitude, mass, phase)', {**c, 'first_bad_op': oi})
                failed = True
                break
            first.setdefault(key, r)
        if pending_mut is not None:
            # reported after any wrong answer it caused, so that the replay shows the consequence first
            chk.fail(pending_mut[1], {**c, 'first_bad_op': pending_mut[0]})
            failed = True
        bad = None
        for oi, (op, r) in enumerate(zip(c['ops'], outs)):
            mo = model.get((ci, op[1]))
            if pending_mut is not None and oi >= pending_mut[0]:
                break
            if op[0] != 'q' or mo is None:
                continue
            if norm_err(mo[0]) is not None:
                bad = (oi, 'load', norm_err(mo[0]))
                break
            m = norm_model_result(mo[1][op[2]])
            q = c['tables'][op[1]]['queries'][op[2]]
            if not same_result(r, m, exact=(q['tag'] == 'node-direct')):
                bad = (oi, r, m)
                break
        if bad:
            chk.broken('correspondence:C06_Model.evaluate(session)',
                       f'op {bad[0]}: implementation {bad[1]} vs model {bad[2]}', {**c, 'first_bad_op': bad[0]})
        elif not failed:
            chk.traces_validated += 1


def ptf_queries(case, flm):
    qs = []
    for f, cru, cl, de in case['lines']:
        for m in (case['low'], case['nom'], case['high']):
            qs.append({'d': True, 'p': 'Climb', 'alt': float(f), 'm': float(m), 'tag': 'ptf-climb', 'g': None})
            if cru is not None:
                qs.append({'d': True, 'p': 'Cruise', 'alt': float(f), 'm': float(m), 'tag': 'ptf-cruise', 'g': None})
        qs.append({'d': True, 'p': 'Descent', 'alt': float(f), 'm': float(case['nom']), 'tag': 'ptf-descent',
                   'g': None})
        qs.append({'d': False, 'p': 'Descent', 'alt': float(f) * flm, 'm': float(case['low']),
                   'tag': 'node-metres', 'g': None})
        qs.append({'d': False, 'p': 'Climb', 'alt': float(f) * flm, 'm': float(case['high']),
                   'tag': 'node-metres', 'g': None})
    return qs


def check_ptfs(chk: Check, cases, sw, units: Units):
    KN, FPM = Fr(1852, 3600), Fr(3048, 10000) / 60
    exprs = []
    impls = []
    for i, c in enumerate(cases):
        qs = ptf_queries(c, units.FL_TO_METERS)
        c['queries'] = qs
        io = impl_ptf(chk, c, i)
        if io['load'] is None:
            io['results'] = [impl_query(io['model'], q) for q in qs]
        impls.append(io)
        exprs.append(coq_ptf_expr(c, qs, sw))
    model = chk.coq_eval(HEADER, exprs, shard=10, label='ptf')
    for c, io, mo in zip(cases, impls, model):
        chk.case({'kind': 'ptf', 'text': c['text']}, nontrivial=len(c['lines']) >= 2)
        chk.count('ptf:files')
        chk.count('ptf:rows', len(c['lines']))
        slim = {k: v for k, v in c.items() if k not in ('queries',)}
        failed = False
        zero_rate = any(v == 0 for _, _, cl, _ in c['lines'] for v in cl[1:4])
        chk.count('ptf:with-0-fpm-climb-entry' if zero_rate else 'ptf:all-rates-positive')
        if io['load'] is not None:
            sig = None
            if zero_rate and isinstance(io['load'], tuple) and io['load'][0] == 'ECoverage':
                sig = SIG_PTF0
            chk.fail(f"model file generated from a well-formed PTF file is refused / not produced: {io['load']}",
                     {**slim, 'impl_load': str(io['load'])}, signature=sig)
            if mo is not None and io['rows'] is not None:
                m_rows = [[float(x) for x in r] for r in mo[0]]
                if m_rows != io['rows']:
                    chk.broken('correspondence:C06_Model.build_table', 'refused PTF table: rows differ', slim)
                elif norm_err(mo[1][0]) != norm_err(io['load']):
                    chk.broken('correspondence:C06_Model.load',
                               f"refused PTF table: implementation {io['load']!r} vs model {norm_err(mo[1][0])!r}", slim)
                else:
                    chk.traces_validated += 1
            continue
        # ---- oracle: every PTF row, re-read independently, is reproduced after unit conversion
        masses, prow = small_ptf_reader(c['text'])
        mm = {'low': io['hdr']['low'], 'nominal': io['hdr']['nom'], 'high': io['hdr']['high']}
        if masses != mm or (io['hdr']['maxalt'], io['hdr']['payload']) != (c['style']['maxalt'], c['style']['payload']):
            chk.fail(f"PTF header read as {io['hdr']}, file says {masses}, {c['style']}", slim)
            failed = True
        res = {(q['tag'], q['alt'], q['m']): r for q, r in zip(c['queries'], io['results']) if q['d']}

        def expect(tag, f, m, tas_kt, rocd_fpm, ff_kgmin):
            nonlocal failed
            r = res.get((tag, float(f), float(m)))
            want = (Fr(tas_kt) * KN, Fr(rocd_fpm) * FPM, Fr(ff_kgmin) / 60)
            ok = r is not None and r[0] == 'Ok' and abs(Fr(r[1]) - want[0]) <= Fr(2, 10**6) * abs(want[0]) \
                and abs(Fr(r[2]) - want[1]) <= Fr(1, 10**12) * abs(want[1]) \
                and abs(Fr(r[3]) - want[2]) <= Fr(1, 10**12) * abs(want[2])
            if not ok:
                chk.fail(f'PTF row FL{f} mass {m} ({tag}): file gives TAS {tas_kt} kt, ROCD {rocd_fpm} fpm, fuel '
                         f'{ff_kgmin} kg/min = {tuple(float(w) for w in want)}; model returns {r}',
                         {**slim, 'row': [tag, f, m]})
                failed = True
        for f, cr, cl, de in prow:
            if cr:
                for m, ff in zip((masses['low'], masses['nominal'], masses['high']), cr[1:4]):
                    expect('ptf-cruise', f, m, cr[0], 0, ff)
            for m, rc in zip((masses['low'], masses['nominal'], masses['high']), cl[1:4]):
                expect('ptf-climb', f, m, cl[0], rc, cl[4])
            expect('ptf-descent', f, masses['nominal'], de[0], -de[1], de[2])
        # ---- node queries in metres + node exactness against the generated table itself
        for q, r in zip(c['queries'], io['results']):
            chk.count('query:' + q['tag'])
            j = judge_query(io['rows'], q, r, units)
            if j is not None:
                desc, sigs = j
                for s in (sigs or [None]):
                    chk.fail(f"{q['tag']} {q['p']}: {desc}", {**slim, 'queries': [q], 'impl': [r]}, signature=s)
                failed = True
        # ---- correspondence
        if mo is None:
            continue
        m_rows, (m_load, m_res) = mo[0], mo[1]
        m_rows = [[float(x) for x in r] for r in m_rows]
        if m_rows != io['rows']:
            d = next((k for k, (a, b) in enumerate(zip(m_rows, io['rows'])) if a != b), min(len(m_rows), len(io['rows'])))
            chk.broken('correspondence:C06_Model.build_table',
                       f'row {d}: implementation {io["rows"][d:d+1]} vs model {m_rows[d:d+1]} '
                       f'(lengths {len(io["rows"])}/{len(m_rows)})', slim)
            continue
        if norm_err(m_load) is not None:
            chk.broken('correspondence:C06_Model.load', f'PTF table: implementation loads, model {m_load!r}', slim)
            continue
        bad = [(q, r, m) for q, r, m in zip(c['queries'], io['results'], [norm_model_result(v) for v in m_res])
               if not same_result(r, m, exact=q['d'])]
        if bad:
            chk.broken('correspondence:C06_Model.evaluate', f'PTF query {bad[0][0]}: implementation {bad[0][1]} '
                                                            f'vs model {bad[0][2]}', slim)
        elif not failed:
            chk.traces_validated += 1


def setup(chk: Check):
    os.environ['AEIC_PATH'] = str(REPO / 'tests/data')
    chk.rule = ('tables: per phase a random flight-level set (1-8 levels; multiples of 5/10/20, integers, or arbitrary '
                'floats; FL0 often included), three masses, arbitrary values respecting the FL-only columns, rows in '
                'converter order / by FL / FL-descending / shuffled, columns permuted, upper-case names, int cells, an '
                'extra data column; 30% malformed (missing node, duplicate, duplicate+missing, 2 or 4 masses, descent with '
                '3 masses, climb with 2, mass-dependent TAS / climb fuel / descent values, no descent, only descent); '
                '~45-75 queries per table: every kind of node (FL given directly and in metres via FL_TO_METERS), interior, '
                'cell edges, +-1 ulp probes across grid lines and around the envelope, outside in FL / mass / both, '
                'symbolic min/max; on valid tables up to 24 metre-altitude queries per table (all phases; every out-of-mass, '
                'out-of-altitude and symbolic-mass query) are repeated with AircraftState.rate_of_climb in {None, 0, 2.5, -4, '
                '1e-3} x true_airspeed in {None, 200} and must give the same values or the same refusal; PTF files in the BADA layout with 2-14 levels, cruise block absent at low levels. '
                'non-trivial = valid table with a phase of >= 2 levels, or an incomplete grid, or a PTF file with >= 2 levels')
    chk.trusted += ['translator/py2coq.py:NumModule + translator/c06_extract.py (constants, conversion expression)',
                    'harness/c06.py: correspondence, exact-rational oracle, PTF writer and the small independent reader',
                    'scipy.interpolate.interpn, pandas, pydantic, tomllib/tomli_w: exercised for real, modelled by hand '
                    '(interval search + multilinear weights in scipy\'s order of operations)']
    chk.assumptions += ['theorems are over the reals; on the binary64 side a tabulated level f given in metres must be answered '
                        'exactly wherever (f*FL_TO_METERS)/FL_TO_METERS == f; the levels that do not survive that round trip '
                        'are finding FC06e (matched only when the answer is the one for the round-tripped level); other '
                        'altitudes must be right for the exact quotient or its binary64 value; bit-equality is demanded where '
                        'the flight level is given directly',
                        'well-formed PTF (wf_ptf): climb and descent rates >= 1 fpm, distinct levels, low < nominal < high mass; '
                        'files with a 0 fpm climb entry are generated too and are finding FC06d',
                        'table cells are finite binary64 numbers (no NaN / inf)']


def run(chk: Check):
    setup(chk)
    chk.coq_props('props/C06_Props.v')
    f4 = extract_and_link(chk)
    units = Units()
    sw = detect_tree_state(chk, units)
    chk.notes['tree_state'] = {'F4': f4, 'FC06b_single_mass_values_by_flight_level': sw['sort'],
                               'FC06c_coverage_detects_duplicates': sw['set']}
    corpus = load_corpus(chk)
    flm = units.FL_TO_METERS
    tables = [c for c in corpus if c['kind'] == 'table']
    tables += [gen_table_case(chk.rng, flm) for _ in range(chk.n(220, 3500))]
    sessions = [c for c in corpus if c['kind'] == 'session']
    sessions += [gen_session_case(chk.rng, flm) for _ in range(chk.n(25, 300))]
    ptfs = [c for c in corpus if c['kind'] == 'ptf']
    ptfs += [gen_ptf_case(chk.rng, flm) for _ in range(chk.n(40, 500))]
    check_tables(chk, tables, sw, units)
    check_sessions(chk, sessions, sw, units)
    check_ptfs(chk, ptfs, sw, units)
    from AEIC.config import Config
    Config.reset()


def replay(chk: Check, rp):
    setup(chk)
    chk.coq_props('props/C06_Props.v')
    extract_and_link(chk)
    units = Units()
    sw = detect_tree_state(chk, units)
    case = rp.get('case') or {}
    if case.get('kind') == 'table':
        case.setdefault('queries', [])
        check_tables(chk, [case], sw, units)
    elif case.get('kind') == 'ptf':
        check_ptfs(chk, [case], sw, units)
    elif case.get('kind') == 'session':
        check_sessions(chk, [case], sw, units)
    from AEIC.config import Config
    Config.reset()

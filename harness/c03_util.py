"""C03 helpers: case generation, running a case on the real TrajectoryStore, canonical values, the
independent field-by-field comparer, and the Coq encoding of a case.

A case is a JSON value (replayable):
  {'uid': str, 'sets': [{'fields': [{'shape','dtype','req'}]}],          # extra field sets; id k+1 (0 = base)
   'layout': 'single'|'assoc'|'mapped', 'apart': [ids],                 # ids stored in / mapped into the 2nd file
   'trajs': [{'n': int, 'base': {...}, 'vals': {id: [value per field]}}]}
Array values are {'a': seed}; they are regenerated from (seed, n, dtype).
"""

from __future__ import annotations

import math
import struct
from pathlib import Path

SHAPES = ['T', 'TP', 'TS', 'TSP', 'TM', 'TSM']
INTS = ['int8', 'int16', 'int32', 'int64', 'uint8', 'uint16', 'uint32', 'uint64']
NUMERIC = INTS + ['float32', 'float64']
DTYPES = NUMERIC + ['str']
COQ_SHAPE = {'T': 'ShT', 'TP': 'ShTP', 'TS': 'ShTS', 'TSP': 'ShTSP', 'TM': 'ShTM', 'TSM': 'ShTSM'}
COQ_DTYPE = {'int8': 'I8', 'int16': 'I16', 'int32': 'I32', 'int64': 'I64', 'uint8': 'U8', 'uint16': 'U16',
             'uint32': 'U32', 'uint64': 'U64', 'float32': 'F32', 'float64': 'F64', 'str': 'Str'}
NC_CODE = {'int8': 'i1', 'int16': 'i2', 'int32': 'i4', 'int64': 'i8', 'uint8': 'u1', 'uint16': 'u2', 'uint32': 'u4',
           'uint64': 'u8', 'float32': 'f4', 'float64': 'f8'}
NSPECIES = 16
ERR = {'EIndexBound', 'EValue', 'EType', 'EAssert', 'EAttr', 'EStopIter', 'EHdf'}


def np_dtype(name):
    import numpy as np
    return str if name == 'str' else getattr(np, name)


def fill_value(dtype):
    import netCDF4
    return '' if dtype == 'str' else netCDF4.default_fillvals[NC_CODE[dtype]]


# ---------------------------------------------------------------------------------------------------
# generation
# ---------------------------------------------------------------------------------------------------

def int_range(dtype):
    """representable values, keeping clear of the NetCDF fill sentinel (min + 1 for signed, max or max - 1 for
    unsigned types)"""
    bits = int(dtype.lstrip('uint'))
    if dtype.startswith('u'):
        return 0, 2 ** bits - 4
    return -(2 ** (bits - 1)) + 3, 2 ** (bits - 1) - 1


def gen_scalar(rng, dtype, nonempty=False):
    if dtype in INTS:
        lo, hi = int_range(dtype)
        r = rng.random()
        if r < 0.15:
            return rng.choice([v for v in (0, 1, -1, hi, lo, 7) if lo <= v <= hi])
        if r < 0.6:
            return rng.randint(max(lo, -100), min(hi, 100))
        return rng.randint(lo, hi)
    if dtype in ('float32', 'float64'):
        r = rng.random()
        if r < 0.12:
            return rng.choice([0.0, -0.0, math.inf, -math.inf, math.nan, 1e-300, 1.5, -2.25, 3.0e30])
        x = rng.gauss(0, 1) * 10 ** rng.randint(-3, 6)
        if dtype == 'float32':
            x = struct.unpack('<f', struct.pack('<f', x))[0]
        return x
    alphabet = 'abcXYZ019 _-/é✓'
    k = rng.randint(1 if nonempty else 0, 8)
    if not nonempty and rng.random() < 0.1:
        k = 0
    return ''.join(rng.choice(alphabet) for _ in range(k))


def gen_field_value(rng, fld, species_pool, unset_ok=True):
    """species_pool: species (enum positions) this field may use."""
    sh, dt, req = fld['shape'], fld['dtype'], fld['req']
    if not req and unset_ok and rng.random() < 0.35:
        return None
    if sh == 'T':
        return gen_scalar(rng, dt)
    if sh == 'TP':
        return {'a': rng.randrange(1 << 30)}
    if sh in ('TS', 'TSP', 'TSM'):
        r = rng.random()
        pool = list(species_pool)
        if r < 0.12 or not pool:
            chosen = []
        elif r < 0.5:
            chosen = pool
        else:
            chosen = [s for s in pool if rng.random() < 0.6]
        if sh == 'TS':
            return {str(s): gen_scalar(rng, dt, nonempty=True) for s in chosen}
        if sh == 'TSP':
            return {str(s): {'a': rng.randrange(1 << 30)} for s in chosen}
        return {str(s): gen_modes(rng, dt) for s in chosen}
    if sh == 'TM':
        return gen_modes(rng, dt)
    raise ValueError(sh)


def gen_modes(rng, dt):
    full = [gen_scalar(rng, dt) for _ in range(4)]
    if rng.random() < 0.2:                       # a partial ThrustModeValues: missing modes read as 0
        return {'partial': {str(i): full[i] for i in range(4) if rng.random() < 0.5}}
    return full


def gen_length(rng):
    r = rng.random()
    if r < 0.04:
        return 0
    if r < 0.12:
        return 1
    if r < 0.72:
        return rng.randint(2, 20)
    return rng.randint(21, 300)


def species_group(layout, apart, ids, i):
    """the field sets whose first-trajectory species make up the species dimension of the file that holds field set i,
    as the property's data model has it: one species list per store (create / save with any number of files), except
    that create_associated makes a file of its own from the first MAPPED result"""
    if layout == 'mapped':
        return [x for x in ids if (x in apart) == (i in apart)]
    return list(ids)


def file_groups(case):
    """the field sets of a case, grouped by the file they are stored in (base file first)"""
    ids = list(range(1, len(case['sets']) + 1))
    if case['layout'] == 'assocn':
        parts = [list(p) for p in case.get('parts') or []]
    else:
        parts = [list(case['apart'])] if case['apart'] else []
    placed = {x for p in parts for x in p}
    return [[x for x in ids if x not in placed]] + parts


def cross_species(case):
    """[(trajectory k > 0, set i, field j, species)] where the field holds a species that the first trajectory has in
    the store's species list (species_group) but in no species-indexed field of the FILE that holds set i; and the
    same relative to the field SET i.  Returns (across_files, across_sets)."""
    ids = list(range(1, len(case['sets']) + 1))
    sp_shapes = ('TS', 'TSP', 'TSM')

    def first(i):
        return {int(s) for j, f in enumerate(case['sets'][i - 1]['fields']) if f['shape'] in sp_shapes
                for v in [case['trajs'][0]['vals'][str(i)][j]] if isinstance(v, dict) for s in v}
    groups = file_groups(case)
    file_of = {x: g for g in groups for x in g}
    across_files, across_sets = [], []
    for k in range(1, len(case['trajs'])):
        for i in ids:
            store = set().union(*(first(x) for x in species_group(case['layout'], case['apart'], ids, i)))
            infile = set().union(*(first(x) for x in file_of[i]))
            for j, f in enumerate(case['sets'][i - 1]['fields']):
                v = case['trajs'][k]['vals'][str(i)][j]
                if f['shape'] in sp_shapes and isinstance(v, dict):
                    for s in sorted(int(s) for s in v):
                        if s in store and s not in infile:
                            across_files.append((k, i, j, s))
                        if s in store and s not in first(i):
                            across_sets.append((k, i, j, s))
    return across_files, across_sets


def gen_case(rng, uid, force=None):
    force = force or {}
    layout = force.get('layout') or rng.choice(['single', 'single', 'assoc', 'mapped', 'mapped', 'saved',
                                                'assocn', 'assocn'])
    nsets = rng.randint(2, 4) if layout == 'assocn' else rng.randint(1, 3)
    sets = []
    if 'sets' in force:                      # a second store over field sets that are already registered
        sets = force['sets']
        nsets = len(sets)
    for _ in range(0 if 'sets' in force else nsets):
        fields = []
        for _ in range(rng.randint(1, 5)):
            sh = rng.choice(SHAPES)
            if sh in ('T', 'TS'):
                dt = rng.choice(DTYPES) if rng.random() < 0.75 else rng.choice(['str', 'float64', 'int32'])
            else:
                dt = rng.choice(NUMERIC)
            fields.append({'shape': sh, 'dtype': dt, 'req': rng.random() < 0.55})
        sets.append({'fields': fields})
    if 'sets' not in force and (force.get('tp_str') or rng.random() < 0.03):   # F-C03c stream: a per-point string field
        sets[0]['fields'].append({'shape': 'TP', 'dtype': 'str', 'req': True})
    if layout == 'assocn' and nsets < 2:
        layout = 'assoc'
    ids = list(range(1, nsets + 1))
    apart = sorted(rng.sample(ids, rng.randint(1, nsets))) if layout in ('assoc', 'mapped') else []
    if layout == 'saved' and rng.random() < 0.5:         # save() of an in-memory store, with or without associated file
        apart = sorted(rng.sample(ids, rng.randint(1, nsets)))
    parts, quiet_sets, quiet_from = [], [], None
    if layout == 'assocn':
        # base file + 2-3 associated files, the field sets distributed over them in any way (the base file may keep
        # some or none of the extra field sets)
        k = rng.randint(2, min(3, nsets))
        chosen = rng.sample(ids, rng.randint(k, nsets))
        cuts = sorted(rng.sample(range(1, len(chosen)), k - 1))
        parts = [sorted(chosen[a:b]) for a, b in zip([0] + cuts, cuts + [len(chosen)])]
        apart = sorted(chosen)
        if 'sets' not in force and rng.random() < 0.7:
            # a NON-LAST associated file that holds only optional (non-string) fields, all of them unset in the
            # trailing records of the store (or in the middle): nothing but the trajectory coordinate is written
            # to that file for those records
            quiet_sets = parts[rng.randrange(len(parts) - 1)]
            for i in quiet_sets:
                for fld in sets[i - 1]['fields']:
                    fld['req'] = False
                    if fld['dtype'] == 'str':
                        fld['dtype'] = 'float64'
    # species: a pool with gaps for the whole store, then per field set a sub-pool for the first trajectory
    pool = sorted(rng.sample(range(NSPECIES), rng.choice([0, 1, 2, 2, 3, 3, 4, 5, 8])))
    if rng.random() < 0.3:
        pool = list(range(rng.randint(1, 4)))                # an initial segment of the enum: the case the tests use
    ntraj = rng.randint(2, 4) if layout == 'assocn' else rng.randint(1, 3)
    if quiet_sets:
        quiet_from = rng.choice([0, 1, ntraj - 1, ntraj - 1, ntraj - 2 if ntraj > 2 else 1])
        quiet_to = ntraj if rng.random() < 0.75 else max(quiet_from + 1, ntraj - 1)     # trailing, or in the middle
    indexable = rng.random() < 0.5
    trajs = []
    used = {i: set() for i in ids}                           # species used by the first trajectory, per field set
    out_of_dim = force.get('out_of_dim', rng.random() < 0.05) and ntraj > 1 and len(pool) < NSPECIES
    tp_str = any(f['shape'] == 'TP' and f['dtype'] == 'str' for fs in sets for f in fs['fields'])
    for j in range(ntraj):
        n = gen_length(rng) if 'n' not in force else force['n']
        if tp_str:
            n = max(n, 1)          # (an empty string array fails differently; F-C03c is about non-empty ones)
        base = {'seed': rng.randrange(1 << 30),
                'flight_id': (1000 + 7 * j + rng.randrange(5)) if indexable else None,
                'name': None if rng.random() < 0.4 else gen_scalar(rng, 'str'),
                'unset_phases': rng.random() < 0.3,
                'scal': [gen_scalar(rng, 'float64'), gen_scalar(rng, 'float64')],
                'phases': [rng.randint(0, 50) for _ in range(9)]}
        vals = {}
        for i in ids:
            sp_pool = pool if j == 0 else sorted(used[i])
            if j > 0 and force.get('wide_species'):
                # every species the first trajectory gave a place in the species dimension of the FILE(S) this field
                # set is written to - also the ones it carried only in fields of ANOTHER field set (possibly stored in
                # another file of the same store): a store has one species list
                sp_pool = sorted(set().union(*(used[x] for x in species_group(layout, apart, ids, i))))
            row = []
            quiet = i in quiet_sets and quiet_from <= j < quiet_to
            for fld in sets[i - 1]['fields']:
                v = gen_field_value(rng, fld, sp_pool)
                if quiet:
                    v = None           # (before the species of the first record are noted: an unset field has none)
                if j == 0 and isinstance(v, dict) and fld['shape'] in ('TS', 'TSP', 'TSM'):
                    used[i] |= {int(s) for s in v}
                row.append(v)
            vals[str(i)] = row
        trajs.append({'n': n, 'base': base, 'vals': vals})
    if out_of_dim:
        # a later trajectory carries a species that has no place in the store's species dimension
        extra = rng.choice([s for s in range(NSPECIES) if s not in pool])
        # (for a mapped store preferably in a field set that create_associated writes: trajectory k > 0 of the mapping
        #  then has a species the first mapped result lacked)
        for i in sorted(ids, key=lambda x: (not (layout == 'mapped' and x in apart), x)):
            for k, fld in enumerate(sets[i - 1]['fields']):
                if fld['shape'] in ('TS', 'TSP', 'TSM') and used[i]:
                    # (only where the first trajectory gave the file a species dimension at all: with an empty one
                    #  netCDF4 makes the dimension unlimited and the code before the repair grows it with unnamed
                    #  species, after which the file cannot be reopened — outside the modelled domain)
                    v = trajs[-1]['vals'][str(i)][k]
                    if v is None:
                        v = {}
                    one = gen_field_value(rng, {**fld, 'req': True}, [extra])
                    while not one:
                        one = gen_field_value(rng, {**fld, 'req': True}, [extra])
                    v = {**v, **one}
                    trajs[-1]['vals'][str(i)][k] = v
                    return {'uid': uid, 'fs_uid': force.get('fs_uid', uid), 'sets': sets, 'layout': layout,
                            'apart': apart, 'parts': parts, 'trajs': trajs, 'out_of_dim': True, 'ood_set': i}
    append_at = None
    if layout in ('single', 'assoc', 'assocn') and ntraj >= 2 and (force.get('append') or rng.random() < 0.2):
        append_at = rng.randint(1, ntraj - 1)          # trajectories from this index on are added in an APPEND session
    return {'uid': uid, 'fs_uid': force.get('fs_uid', uid), 'sets': sets, 'layout': layout, 'apart': apart,
            'parts': parts, 'trajs': trajs, 'out_of_dim': False, 'append_at': append_at}


# ---------------------------------------------------------------------------------------------------
# building real values
# ---------------------------------------------------------------------------------------------------

def make_array(seed, n, dtype):
    import numpy as np
    g = np.random.default_rng(seed)
    if dtype in ('float32', 'float64'):
        a = g.standard_normal(n) * 10.0 ** g.integers(-3, 6)
        if n and seed % 7 == 0:
            a[g.integers(0, n)] = [np.nan, np.inf, -np.inf, -0.0][seed % 4]
        return a.astype(np_dtype(dtype))
    if dtype == 'str':
        return np.array([f's{seed % 97}_{k}' for k in range(n)], dtype=str)
    lo, hi = int_range(dtype)
    return g.integers(lo, hi, size=n, dtype=np_dtype(dtype), endpoint=True)


MEMORY_LAYOUTS = ['contiguous', 'strided', 'reversed', 'column', 'read-only', 'other-dtype', 'fortran-row']
_WIDER = {'int8': 'int16', 'int16': 'int32', 'int32': 'int64', 'uint8': 'uint16', 'uint16': 'uint32',
          'uint32': 'uint64', 'float32': 'float64'}
_NARROWER = {v: k for k, v in _WIDER.items()}


def memory_layout(seed, n):
    return MEMORY_LAYOUTS[(seed // 3 + n) % len(MEMORY_LAYOUTS)]


def handed_array(seed, n, dtype):
    """The array with the values of make_array(seed, n, dtype), as it is HANDED to the trajectory: in one of several
    memory layouts (how an array lies in memory must not matter for what is stored).  The values are the same in
    every layout; what reaches the store is whatever the Container made of the array."""
    import numpy as np
    kind = memory_layout(seed, n)
    if dtype == 'str':
        return make_array(seed, n, dtype)
    if kind == 'other-dtype':
        # same values in another dtype of the same kind (the field casts on assignment): generated in the narrower of
        # the two types so that the cast is exact either way
        if dtype in _NARROWER:
            return make_array(seed, n, _NARROWER[dtype])                 # handed over narrower, cast up
        return make_array(seed, n, dtype).astype(np_dtype(_WIDER[dtype]))    # handed over wider, cast down exactly
    a = make_array(seed, n, dtype)
    if kind == 'contiguous':
        return a
    if kind == 'strided':                       # every second element of a longer buffer
        big = np.zeros(2 * n + 1, dtype=a.dtype)
        big[:2 * n:2] = a
        big[1::2] = a[::-1][:len(big[1::2])] if n else 0     # (neighbours that must NOT be stored)
        return big[:2 * n:2]
    if kind == 'reversed':                      # negative stride
        return a[::-1].copy()[::-1]
    if kind == 'column':                        # a column of a C-ordered 2-D table
        table = np.zeros((n, 3), dtype=a.dtype)
        table[:, 0] = a[::-1]
        table[:, 1] = a
        return table[:, 1]
    if kind == 'fortran-row':                   # a row of a Fortran-ordered 2-D table
        table = np.zeros((2, n), dtype=a.dtype, order='F')
        table[1, :] = a[::-1]
        table[0, :] = a
        return table[0, :]
    ro = a.copy()
    ro.setflags(write=False)
    return ro


def build_value(v, fld, n):
    """JSON value -> the Python object handed to the Trajectory / returned by the mapping function."""
    import numpy as np  # noqa: F401

    from AEIC.performance.types import ThrustMode, ThrustModeValues
    from AEIC.types import Species, SpeciesValues
    species = list(Species)
    modes = list(ThrustMode)

    sh, dt = fld['shape'], fld['dtype']

    def sc(x):
        # integers are handed over in the field's own type (numpy will not cast a signed value to an unsigned field)
        return np_dtype(dt)(x) if dt in INTS else x

    def tmv(x):
        if isinstance(x, dict):
            return ThrustModeValues({modes[int(k)]: sc(val) for k, val in x['partial'].items()})
        return ThrustModeValues({modes[k]: sc(x[k]) for k in range(4)})
    if v is None:
        return None
    if sh == 'T':
        return sc(v)
    if sh == 'TP':
        return handed_array(v['a'], n, dt)
    if sh == 'TS':
        return SpeciesValues({species[int(s)]: sc(x) for s, x in v.items()})
    if sh == 'TSP':
        return SpeciesValues({species[int(s)]: handed_array(x['a'], n, dt) for s, x in v.items()})
    if sh == 'TM':
        return tmv(v)
    if sh == 'TSM':
        return SpeciesValues({species[int(s)]: tmv(x) for s, x in v.items()})
    raise ValueError(sh)


# ---------------------------------------------------------------------------------------------------
# canonical values (tokens for the model) and the independent comparer (real contents)
# ---------------------------------------------------------------------------------------------------

class Interner:
    def __init__(self):
        self.table = {}

    def token(self, a):
        import numpy as np
        a = np.asarray(a)
        if a.size == 0:
            return ['Arr', 0, 0]
        key = (str(a.dtype), a.tobytes())
        if key not in self.table:
            self.table[key] = len(self.table) + 1
        return ['Arr', int(a.shape[0]), self.table[key]]


def canon_scalar(x, dtype):
    if dtype in INTS:
        bits = int(dtype.lstrip('uint'))
        lo, hi = (0, 2 ** bits - 1) if dtype.startswith('u') else (-(2 ** (bits - 1)), 2 ** (bits - 1) - 1)
        assert lo <= int(x) <= hi, f'{x} is not a {dtype}'       # = C03_Typed.scalar_ok: the theorems' domain
        return ['VInt', int(x)]
    if dtype == 'float32':
        return ['VFlt', struct.unpack('<I', struct.pack('<f', float(x)))[0]]
    if dtype == 'float64':
        return ['VFlt', struct.unpack('<Q', struct.pack('<d', float(x)))[0]]
    return ['VStr', str(x)]


def canon_value(val, fld, interner):
    """A field value of a real Container -> canonical JSON (None | [ctor, ...])."""
    from AEIC.performance.types import ThrustMode
    from AEIC.types import Species
    sh, dt = fld['shape'], fld['dtype']
    if val is None:
        return None
    sp_index = {s: k for k, s in enumerate(Species)}
    modes = list(ThrustMode)
    if sh == 'T':
        return ['FScal', canon_scalar(val, dt)]
    if sh == 'TP':
        return ['FArr', interner.token(val)]
    if sh == 'TS':
        return ['FSp', sorted([sp_index[s], canon_scalar(x, dt)] for s, x in val.items())]
    if sh == 'TSP':
        return ['FSpArr', sorted([sp_index[s], interner.token(x)] for s, x in val.items())]
    if sh == 'TM':
        return ['FTm', [canon_scalar(val[m], dt) for m in modes]]
    if sh == 'TSM':
        return ['FSpTm', sorted([sp_index[s], [canon_scalar(x[m], dt) for m in modes]] for s, x in val.items())]
    raise ValueError(sh)


def same_scalar(a, b, dtype):
    """Independent equality of two stored scalars: same kind, same value (NaN equals NaN bit for bit)."""
    import numpy as np
    if dtype == 'str':
        return isinstance(a, str) and isinstance(b, str) and a == b
    if dtype in INTS:
        def integral(x):       # ThrustModeValues hands out 0.0 for a mode that was never given
            return (isinstance(x, (int, np.integer)) and not isinstance(x, bool)) or \
                   (isinstance(x, (float, np.floating)) and float(x).is_integer())
        return integral(a) and integral(b) and int(a) == int(b)
    if not isinstance(a, (float, np.floating, int, np.integer)) or not isinstance(b, (float, np.floating, int, np.integer)):
        return False
    t = np.float32 if dtype == 'float32' else np.float64
    return np.array(a, dtype=t).tobytes() == np.array(b, dtype=t).tobytes()


def same_array(a, b, dtype):
    import numpy as np
    if not isinstance(a, np.ndarray) or not isinstance(b, np.ndarray):
        return False
    if dtype == 'str':
        return a.shape == b.shape and list(a) == list(b)
    return a.dtype == b.dtype == np.dtype(np_dtype(dtype)) and a.shape == b.shape and a.tobytes() == b.tobytes()


def is_unset(v, sh):
    """None, or — for species-indexed shapes — no species at all (the state of a field never assigned)."""
    if v is None:
        return True
    return sh in ('TS', 'TSP', 'TSM') and len(v) == 0


def compare_field(w, r, fld):
    """Independent comparison of the value that was added (w) with the value read back (r).
    Returns a list of difference kinds (empty = equal)."""
    from AEIC.performance.types import ThrustMode, ThrustModeValues
    from AEIC.types import SpeciesValues
    sh, dt = fld['shape'], fld['dtype']
    if is_unset(w, sh) or is_unset(r, sh):
        if is_unset(w, sh) and is_unset(r, sh):
            return []
        return ['unset-became-value' if is_unset(w, sh) else 'value-became-unset']
    if sh == 'T':
        return [] if same_scalar(w, r, dt) else ['value-differs']
    if sh == 'TP':
        return [] if same_array(w, r, dt) else ['value-differs']
    if sh == 'TM':
        if not isinstance(r, ThrustModeValues):
            return ['type-differs']
        return [] if all(same_scalar(w[m], r[m], dt) for m in ThrustMode) else ['value-differs']
    if not isinstance(r, SpeciesValues):
        return ['type-differs']
    out = []
    wk, rk = set(w.keys()), set(r.keys())
    if wk - rk:
        out.append('species-lost')
    if rk - wk:
        out.append('species-invented')
    for s in wk & rk:
        if sh == 'TS':
            ok = same_scalar(w[s], r[s], dt)
        elif sh == 'TSP':
            ok = same_array(w[s], r[s], dt)
        else:
            ok = isinstance(r[s], ThrustModeValues) and all(same_scalar(w[s][m], r[s][m], dt) for m in ThrustMode)
        if not ok:
            out.append('value-differs')
            break
    return out


# ---------------------------------------------------------------------------------------------------
# running a case on the implementation
# ---------------------------------------------------------------------------------------------------

def err_class(e: BaseException) -> str:
    if isinstance(e, RuntimeError) and 'Index exceeds dimension bound' in str(e):
        return 'EIndexBound'
    if isinstance(e, RuntimeError) and 'HDF error' in str(e):
        return 'EHdf'
    if isinstance(e, IndexError):
        return 'EIndex'
    return {'ValueError': 'EValue', 'TypeError': 'EType', 'AssertionError': 'EAssert',
            'AttributeError': 'EAttr', 'StopIteration': 'EStopIter'}.get(type(e).__name__,
                                                                         f'EOther:{type(e).__name__}:{e}'[:200])


def base_fields():
    """Metadata of the base field set, read from the code's registry: [(name, fld)]."""
    from AEIC.trajectories.trajectory import BASE_FIELDS
    out = []
    for name, f in BASE_FIELDS.items():
        dt = 'str' if f.field_type is str else f.field_type.__name__
        out.append((name, {'shape': f.dimensions.abbrev, 'dtype': dt, 'req': bool(f.required)}))
    return out


def base_values(tj, bf):
    """JSON trajectory -> {base field name: python value}"""
    import numpy as np
    b, n = tj['base'], tj['n']
    vals = {}
    k = 0
    ph = 0
    sc = 0
    for name, fld in bf:
        if fld['shape'] == 'TP':
            vals[name] = handed_array(b['seed'] + k, n, 'float64')
            k += 1
        elif name == 'flight_id':
            vals[name] = b['flight_id']
        elif name == 'name':
            vals[name] = b['name']
        elif name.startswith('n_'):
            v = b['phases'][ph % 9]
            ph += 1
            vals[name] = None if (b['unset_phases'] and not fld['req']) else np.int32(v)
        else:
            vals[name] = b['scal'][sc % 2] if fld['dtype'].startswith('float') else 1
            sc += 1
    return vals


class CaseRun:
    """Everything observed when a case is run on the real TrajectoryStore."""

    def __init__(self):
        self.outcome = None            # ['Added', [['ok', {id: [canon]}] | ['err', cls, msg]]] | ['Refused', phase, idx, cls, msg]
        self.worder = []
        self.rorder1 = []
        self.morder = []
        self.rorder = []
        self.written = []              # per trajectory {id: [canon]}
        self.diffs = []                # per trajectory [(id, field index, [kinds])]
        self.file_species = {}         # id -> species dimension (enum positions) of the file holding the set
        self.session_reads = None      # append sessions: what was read INSIDE the session, per index
        self.session_diffs = None
        self.session_rorder = []


def run_case_impl(case, tmp: Path) -> CaseRun:
    from AEIC.storage import Dimensions, FieldMetadata, FieldSet
    from AEIC.trajectories import TrajectoryStore
    from AEIC.trajectories.trajectory import Trajectory
    from AEIC.types import Species

    run = CaseRun()
    interner = Interner()
    uid = case['uid']
    fs_uid = case.get('fs_uid', uid)          # field sets may be shared with an earlier store of the same process
    bf = base_fields()
    names = {0: 'base'}
    metas = {0: [f for _, f in bf]}
    fnames = {0: [n for n, _ in bf]}
    for k, fs in enumerate(case['sets']):
        i = k + 1
        names[i] = f'{fs_uid}_{i}'
        fnames[i] = [f'{fs_uid}_{i}_f{j}' for j in range(len(fs['fields']))]
        metas[i] = fs['fields']
        if not FieldSet.known(names[i]):
            try:
                fmd = {fnames[i][j]: FieldMetadata(dimensions=Dimensions.from_abbrev(f['shape']),
                                                   field_type=np_dtype(f['dtype']),
                                                   description=f'C03 {f["shape"]} {f["dtype"]}',
                                                   units='u', required=f['req'])
                       for j, f in enumerate(fs['fields'])}
            except ValueError as e:          # a field definition the storage layer refuses by name (phase 0)
                run.outcome = ['Refused', 0, 0, err_class(e), f'{type(e).__name__}: {e}'[:300]]
                return run
            FieldSet(names[i], **fmd)
    ids = sorted(names)
    id_of = {v: k for k, v in names.items()}
    extra = [i for i in ids if i != 0]
    apart = list(case['apart'])
    layout = case['layout']
    first_ids = [i for i in extra if not (layout == 'mapped' and i in apart)]

    # the objects that are added / mapped
    trajs, mapped = [], []
    for tj in case['trajs']:
        n = tj['n']
        t = Trajectory(n, fieldsets=[names[i] for i in first_ids] or None)
        for name, v in base_values(tj, bf).items():
            if v is not None or name in ('flight_id', 'name') or name.startswith('n_'):
                setattr(t, name, v)
        for i in first_ids:
            for j, fld in enumerate(metas[i]):
                setattr(t, fnames[i][j], build_value(tj['vals'][str(i)][j], fld, n))
        trajs.append(t)
        md = None
        if layout == 'mapped':
            scratch = Trajectory(n, fieldsets=[names[i] for i in apart])     # casts values like a container would
            for i in apart:
                for j, fld in enumerate(metas[i]):
                    setattr(scratch, fnames[i][j], build_value(tj['vals'][str(i)][j], fld, n))
            md = type('Mapped_' + uid, (), {})()
            type(md).FIELD_SETS = [FieldSet.from_registry(names[i]) for i in apart]
            for i in apart:
                for nm in fnames[i]:
                    setattr(md, nm, scratch._data[nm])
        mapped.append(md)

    expected_objs = []
    for t, md in zip(trajs, mapped):
        row = {}
        for i in ids:
            src = md if (layout == 'mapped' and i in apart) else t
            row[i] = [getattr(src, nm) for nm in fnames[i]]
        expected_objs.append(row)
        run.written.append({str(i): [canon_value(row[i][j], metas[i][j], interner) for j in range(len(metas[i]))]
                            for i in ids})

    base_path = tmp / f'{uid}.nc'
    apart_path = tmp / f'{uid}_apart.nc'
    parts = case.get('parts') or []
    part_paths = [tmp / f'{uid}_part{k}.nc' for k in range(len(parts))]
    for p in (base_path, apart_path, *part_paths):
        if p.exists():
            p.unlink()

    def order(ts):
        return [id_of[k] for k in ts._nc]

    def read_back(ts, idxs):
        """ask the open store for the trajectories idxs (in that order); per index the canonical values and the
        differences the independent comparer finds against what was ADDED at that index"""
        reads, alldiffs = [None] * len(trajs), [None] * len(trajs)
        for k in idxs:
            try:
                r = ts[k]
            except BaseException as e:  # noqa: BLE001
                reads[k] = ['err', err_class(e), f'{type(e).__name__}: {e}'[:300]]
                alldiffs[k] = [['read-error', err_class(e)]]
                continue
            vals, diffs = {}, []
            if len(r) != len(trajs[k]):
                diffs.append([0, -1, ['length-differs']])
            for i in ids:
                row = []
                for j, nm in enumerate(fnames[i]):
                    got = r._data[nm] if nm in r._data else None
                    if hasattr(got, 'shape') and got.ndim == 1:
                        got = got[:len(r)]
                    row.append(canon_value(got, metas[i][j], interner))
                    d = compare_field(expected_objs[k][i][j], got, metas[i][j])
                    if d:
                        diffs.append([i, j, d])
                vals[str(i)] = row
            reads[k] = ['ok', vals]
            alldiffs[k] = diffs
        return reads, alldiffs

    def assoc_paths():
        return list(part_paths) if layout == 'assocn' else [apart_path]

    # ---- phase 1: create + add -------------------------------------------------------------
    kwargs = {'base_file': base_path}
    if layout == 'assoc':
        kwargs['associated_files'] = [(apart_path, [names[i] for i in apart])]
    if layout == 'assocn':
        kwargs['associated_files'] = [(pp, [names[i] for i in part]) for pp, part in zip(part_paths, parts)]
    if layout == 'saved':
        kwargs = {}                          # an in-memory store, persisted afterwards with save()
    append_at = case.get('append_at')
    ts = TrajectoryStore.create(**kwargs)
    try:
        for k, t in enumerate(trajs):
            if append_at is not None and k == append_at:
                # the rest is added in ONE APPEND session on the closed store
                ts.close()
                akw = {'base_file': base_path}
                if apart:
                    akw['associated_files'] = assoc_paths()
                ts = TrajectoryStore.append(**akw)
            try:
                ts.add(t)
            except BaseException as e:  # noqa: BLE001
                run.worder = order(ts)
                run.outcome = ['Refused', 1, k, err_class(e), f'{type(e).__name__}: {e}'[:300]]
                return run
            if k == 0:
                run.worder = order(ts)
        if layout == 'saved':
            try:
                ts.save(base_path, [(apart_path, [names[i] for i in apart])] if apart else None)
            except BaseException as e:  # noqa: BLE001
                import re
                m = re.search(r'at index (\d+)', str(e))
                run.worder = order(ts)
                run.outcome = ['Refused', 1, int(m.group(1)) if m else 0, err_class(e),
                               f'save: {type(e).__name__}: {e}'[:300]]
                return run
            run.worder = order(ts)
        if append_at is not None and append_at < len(trajs):
            # still inside the append session: read EVERY index, the ones that were in the file before the
            # session first (they are not in the cache), then the new ones, then an old one again
            run.session_rorder = order(ts)
            old_idx, new_idx = list(range(append_at)), list(range(append_at, len(trajs)))
            idxs = old_idx[::-1] + new_idx + old_idx[:1]
            run.session_reads, run.session_diffs = read_back(ts, idxs)
    finally:
        try:
            ts.close()
        except Exception:  # noqa: BLE001
            pass

    # ---- phase 2: create_associated ----------------------------------------------------------
    if layout == 'mapped':
        run.morder = list(apart)
        try:
            ts = TrajectoryStore.open(base_file=base_path)
        except BaseException as e:  # noqa: BLE001
            run.outcome = ['Refused', 3, 0, err_class(e), f'reopening failed: {type(e).__name__}: {e}'[:300]]
            return run
        try:
            run.rorder1 = order(ts)
            seen = {'k': -1}

            def fn(traj):
                seen['k'] += 1
                return mapped[seen['k']]

            # create_associated reads trajectory k, maps it, writes the result; an exception tells us where
            orig_getitem = TrajectoryStore.__getitem__
            reading = {'k': -1}

            def counting_getitem(self, idx):
                reading['k'] = idx
                return orig_getitem(self, idx)
            TrajectoryStore.__getitem__ = counting_getitem
            try:
                ts.create_associated(apart_path, [names[i] for i in apart], fn)
            except BaseException as e:  # noqa: BLE001
                run.outcome = ['Refused', 2, max(reading['k'], 0), err_class(e), f'{type(e).__name__}: {e}'[:300]]
                return run
            finally:
                TrajectoryStore.__getitem__ = orig_getitem
        finally:
            try:
                ts.close()
            except Exception:  # noqa: BLE001
                pass

    # ---- reopen and read everything back ----------------------------------------------------------
    kwargs = {'base_file': base_path}
    if apart:
        kwargs['associated_files'] = assoc_paths()
    try:
        ts = TrajectoryStore.open(**kwargs)
    except BaseException as e:  # noqa: BLE001
        run.outcome = ['Refused', 3, 0, err_class(e), f'reopening failed: {type(e).__name__}: {e}'[:300]]
        return run
    try:
        run.rorder = order(ts)
        sp_index = {s: k for k, s in enumerate(Species)}
        for i in ids:
            sp = ts._nc[names[i]].species
            run.file_species[str(i)] = None if sp is None else [sp_index[s] for s in sp]
        import zlib
        how = zlib.crc32(uid.encode()) % 3          # the order in which trajectories are asked for must not matter
        idxs = list(range(len(trajs)))
        idxs = idxs if how == 0 else idxs[::-1] if how == 1 else idxs[1:] + idxs[:1]
        reads, run.diffs = read_back(ts, idxs)
        run.outcome = ['Added', reads]
    finally:
        try:
            ts.close()
        except Exception:  # noqa: BLE001
            pass
        for p in (base_path, apart_path, *part_paths):
            if p.exists():
                p.unlink()
    return run


# ---------------------------------------------------------------------------------------------------
# Coq encoding
# ---------------------------------------------------------------------------------------------------

def coq_scalar(c):
    if c[0] == 'VStr':
        s = c[1].replace('"', '""')
        return f'(VStr "{s}"%string)'
    return f'({c[0]} ({c[1]})%Z)'


def coq_arr(t):
    return f'(Arr ({t[1]})%Z ({t[2]})%Z)'


def coq_fval(c):
    if c is None:
        return 'FNone'
    k, v = c
    if k == 'FScal':
        return f'(FScal {coq_scalar(v)})'
    if k == 'FArr':
        return f'(FArr {coq_arr(v)})'
    if k == 'FSp':
        return '(FSp [' + '; '.join(f'({s}%nat, {coq_scalar(x)})' for s, x in v) + '])'
    if k == 'FSpArr':
        return '(FSpArr [' + '; '.join(f'({s}%nat, {coq_arr(x)})' for s, x in v) + '])'
    if k == 'FTm':
        return '(FTm [' + '; '.join(coq_scalar(x) for x in v) + '])'
    if k == 'FSpTm':
        return '(FSpTm [' + '; '.join(f'({s}%nat, [' + '; '.join(coq_scalar(y) for y in x) + '])' for s, x in v) + '])'
    raise ValueError(k)


def coq_meta(f):
    return (f'{{| fm_shape := {COQ_SHAPE[f["shape"]]}; fm_dtype := {COQ_DTYPE[f["dtype"]]}; '
            f'fm_req := {"true" if f["req"] else "false"} |}}')


def coq_natlist(l):
    return '[' + '; '.join(f'{x}%nat' for x in l) + ']'


def coq_case(case, run: CaseRun, fixed: bool) -> str:
    bf = base_fields()
    sc = [[f for _, f in bf]] + [fs['fields'] for fs in case['sets']]
    schema = '[' + '; '.join('[' + '; '.join(coq_meta(f) for f in fs) + ']' for fs in sc) + ']'
    # save() of an in-memory store creates the files from the first trajectory and writes every trajectory through
    # the same _write_trajectory / _write_to_nc_var as add(): in the model it IS the single-file / base+associated case
    ly = {'single': 'Single', 'assoc': f'(Assoc {coq_natlist(case["apart"])})',
          'mapped': f'(Mapped {coq_natlist(case["apart"])})',
          'saved': f'(Assoc {coq_natlist(case["apart"])})' if case['apart'] else 'Single',
          'assocn': '(AssocMany [' + '; '.join(coq_natlist(p) for p in (case.get('parts') or [])) + '])'}[case['layout']]
    ts = '[' + '; '.join('[' + '; '.join('[' + '; '.join(coq_fval(c) for c in w[str(i)]) + ']'
                                           for i in range(len(sc))) + ']' for w in run.written) + ']'
    return (f'run_case {"true" if fixed else "false"} {schema} {ly} {coq_natlist(run.worder)} '
            f'{coq_natlist(run.rorder1)} {coq_natlist(run.morder)} {coq_natlist(run.rorder)} {ts}')


def model_fval(v):
    """parsed Coq fval -> canonical JSON as produced by canon_value"""
    if v == 'FNone':
        return None
    k = v[0]
    a = v[1]

    def sc(x):
        return [x[0], x[1]]

    def ar(x):
        return ['Arr', x[1], x[2]]
    if k == 'FScal':
        return ['FScal', sc(a)]
    if k == 'FArr':
        return ['FArr', ar(a)]
    if k == 'FSp':
        return ['FSp', [[p[0], sc(p[1])] for p in a]]
    if k == 'FSpArr':
        return ['FSpArr', [[p[0], ar(p[1])] for p in a]]
    if k == 'FTm':
        return ['FTm', [sc(x) for x in a]]
    if k == 'FSpTm':
        return ['FSpTm', [[p[0], [sc(x) for x in p[1]]] for p in a]]
    raise ValueError(f'model value {v!r}')


def model_outcome(v, nfields_per_set):
    """parsed Coq outcome -> same structure as CaseRun.outcome (without messages); reads as flat lists."""
    if isinstance(v, tuple) and v[0] == 'Refused':
        return ['Refused', v[1], v[2], v[3]]
    if v == 'Added':
        return ['Added', []]
    reads = []
    for r in v[1]:
        if r[0] == 'inr':
            reads.append(['err', r[1]])
        else:
            reads.append(['ok', [model_fval(x) for x in r[1]]])
    return ['Added', reads]

"""C12 — emission-index and atmosphere functions follow their cited methods.

Tie:    translator/c12_extract.py regenerates Gen.C12_Extracted from /repo on every run; link/C12_Link.v
        re-proves the laws on that text and `Extracted = Model`;
        correspondence: coq/model/C12_Model.v (hand model from the cited equations) AND the extracted text,
        both executed at binary64 inside Coq (vm_compute), against the real Python functions on the same inputs.
Oracle: a third transcription of the cited equations in plain Python (`math` only, natural-log / power-law
        formulations) + structural predicates (finite, >= 0, linear scaling by a random k, exactly-one and
        monotone thrust category, p->h->p and h->p->h round trips, sulfur conservation).
"""

from __future__ import annotations

import bisect
import contextlib
import json
import math
import os
import sys
import warnings
from pathlib import Path

from harness.common import REPO, VERIF, Check, Raw, close, to_coq

MODES = ['Idle', 'Approach', 'Climb', 'Takeoff']
MODE_OF_VALUE = {'idle': 'Idle', 'approach': 'Approach', 'climb': 'Climb', 'takeoff': 'Takeoff'}
FC12A = 'bffm2-nox-all-calibration-flows-equal-not-linear-in-cert-EI'
FC12B = 'meem-nan-at-climb-point-below-3000m-when-compressor-pressure-coefficient-negative'

HEADER_MODEL = ('From Coq Require Import ZArith PrimFloat List Bool String.\n'
                'From AV Require Import lib.Num lib.FloatMath model.C12_Base model.C12_Model.\n'
                'Import ListNotations.\nOpen Scope string_scope.\n'
                'Notation F := FNum.\n')
HEADER_EXT = HEADER_MODEL + '''From Gen Require C12_Extracted.
Module X := C12_Extracted.
(* PMnvol_MEEM recomposed from the statements regenerated from /repo (grids and np.interp from C12_Base/Model) *)
Definition x_meem_point (e : @edb F) (hmax hp h Ta P M : float) : float * float * float :=
  let rate := (h - hp)%float in
  let eta := @X.meem_eta F rate in
  let pc := @X.meem_pc F rate (@X.meem_lin F h hmax) in
  let Pt := @X.meem_Pt F P M in
  let P3 := @X.meem_P3 F Pt pc (@e_pr F e) in
  let T3 := @X.meem_T3 F (@X.meem_Tt F Ta M) eta P3 Pt in
  let P3r := @X.meem_P3ref F T3 eta in
  let Fr := @X.meem_F F P3r (@e_pr F e) in
  let fm (m : mode) := @X.meem_recon_mass F (@tget F (@e_SN F e) m) (@afr F m) (@e_bpr F e) (@e_type F e) in
  let mass := if (@tmin F (@e_mass F e) <? 0)%float then (fm Idle, fm Approach, fm Climb, fm Takeoff) else @e_mass F e in
  let fn (m : mode) := @X.meem_recon_num F (@tget F mass m) (@gmd_mode F m) in
  let num := if (@tmin F (@e_num F e) <? 0)%float then (fn Idle, fn Approach, fn Climb, fn Takeoff) else @e_num F e in
  let ref_mass := @ninterp F Fr (@meem_grid F mass (@e_mass_max F e) (@e_mass_kind F e)) in
  let ref_num := @ninterp F Fr (@meem_grid F num (@e_num_max F e) (@e_num_kind F e)) in
  let gmd := @ninterp F Fr (@meem_grid F (@gmd_modes F) 0%float NoMax) in
  let ei_mass := @X.meem_EI_mass F ref_mass P3 P3r in
  let ei_num := @X.meem_EI_num F ref_num ei_mass ref_mass in
  if (@tmax F (@e_SN F e) <? 0)%float then (0, 0, 0)%float
  else (gmd, (if (ei_mass <? 0)%float then 0%float else ei_mass), ei_num).
Fixpoint x_meem_from (e : @edb F) (hmax hp : float) (pts : list (float * float * float * float)) :=
  match pts with
  | [] => []
  | (h, Ta, P, M) :: r => x_meem_point e hmax hp h Ta P M :: x_meem_from e hmax h r
  end.
Definition x_meem (e : @edb F) (pts : list (float * float * float * float)) :=
  match pts with
  | [] => []
  | (h0, _, _, _) :: r => x_meem_from e (@list_max F (map (fun p => let '(h, _, _, _) := p in h) r) h0) h0 pts
  end.
'''


# =============================================================================
# the independent oracle: cited equations, plain Python
# =============================================================================

O_T0, O_P0, O_G, O_R, O_L, O_H11 = 288.15, 101325.0, 9.80665, 287.05287, 0.0065, 11000.0
O_T11 = 216.65
O_EXP = O_G / (O_L * O_R)


def o_isa_T(h):
    return O_T0 - O_L * h if h <= O_H11 else O_T11


def o_isa_p(h):
    if h <= O_H11:
        return O_P0 * math.pow(1.0 - O_L * h / O_T0, O_EXP)
    p11 = O_P0 * math.pow(O_T11 / O_T0, O_EXP)
    return p11 * math.exp(-O_G * (h - O_H11) / (O_R * O_T11))


def o_isa_h(p):
    p11 = O_P0 * math.pow(O_T11 / O_T0, O_EXP)
    if p >= p11:
        return (O_T0 / O_L) * (1.0 - math.pow(p / O_P0, 1.0 / O_EXP))
    return O_H11 + (O_R * O_T11 / O_G) * math.log(p11 / p)


def o_ffm2(wf, P, T, M, n_eng):
    """DuBois & Paynter Eq. 40 (per engine)."""
    return (wf / n_eng) * math.pow(T / 288.15, 3.8) * (101325.0 / P) * math.exp(0.2 * M * M)


def o_cat(ff, cal):
    """documented partition: idle <= (F_idle+F_app)/2 ; climb > (F_app+F_climb)/2 ; approach otherwise"""
    if ff <= 0.5 * (cal[0] + cal[1]):
        return 'Idle'
    if ff > 0.5 * (cal[1] + cal[2]):
        return 'Climb'
    return 'Approach'


# NOx speciation (fractions of NOx by mass): nominal values of the cited AEIC v2 tables
O_SPEC = {'Idle': (0.128925, 0.826075, 0.045), 'Approach': (0.8022, 0.1528, 0.045),
          'Climb': (0.9180625, 0.0744375, 0.0075), 'Takeoff': (0.9180625, 0.0744375, 0.0075)}


def o_humidity_factor(T, P):
    """Eq. 44-45 with 60 % relative humidity: exp(H) * sqrt(delta^1.02 / theta^3.3)."""
    tC = T - 273.15
    tk = tC + 273.16
    beta = (7.90298 * (1.0 - 373.16 / tk) + 3.00571 + 5.02808 * math.log10(373.16 / tk)
            + 1.3816e-7 * (1.0 - math.pow(10.0, 11.344 * (1.0 - tk / 373.16)))
            + 8.1328e-3 * (math.pow(10.0, 3.49149 * (1.0 - 373.16 / tk)) - 1.0))
    pv = 0.014504 * math.pow(10.0, beta)
    p_psia = P / 101325.0 * 14.696
    omega = 0.62198 * 0.6 * pv / (p_psia - 0.6 * pv)
    H = -19.0 * (omega - 0.0063)
    theta = T / 288.15
    delta = P / 101325.0
    return math.exp(H) * math.sqrt(math.pow(delta, 1.02) / math.pow(theta, 3.3))


def o_humidity_defined(T, P):
    """hypothesis [humidity_defined] of the NOx theorems: 0.6 Pv(T) < P (psia)"""
    tk = T + 0.01
    beta = (7.90298 * (1.0 - 373.16 / tk) + 3.00571 + 5.02808 * math.log10(373.16 / tk)
            + 1.3816e-7 * (1.0 - math.pow(10.0, 11.344 * (1.0 - tk / 373.16)))
            + 8.1328e-3 * (math.pow(10.0, 3.49149 * (1.0 - 373.16 / tk)) - 1.0))
    return T > 0 and P > 0 and 0.6 * 0.014504 * math.pow(10.0, beta) < P / 101325.0 * 14.696


def o_nox(ff, ei, cal, T, P, flat_when_degenerate=True):
    """log-log least-squares line through the four certification points (natural logs), ambient correction."""
    fc = [f if f > 0 else 0.01 for f in cal]
    fe = ff if ff > 0 else 0.01
    X = [math.log(f) for f in fc]
    Y = [math.log(e) for e in ei]
    xb = math.fsum(X) / 4.0
    yb = math.fsum(Y) / 4.0
    sxx = math.fsum((x - xb) ** 2 for x in X)
    sxy = math.fsum((x - xb) * (y - yb) for x, y in zip(X, Y))
    if max(fc) == min(fc):
        if not flat_when_degenerate:
            return None
        b, a = 0.0, yb
    else:
        b = sxy / sxx
        a = yb - b * xb
    return math.exp(a + b * math.log(fe)) * o_humidity_factor(T, P)


def o_hcco(ff, ei, cal, T, P):
    """Bilinear log-log fit in power-law form.  Returns (value, margin, log10 magnitude) ;
    margin = smallest relative distance to a decision boundary (the oracle abstains below 1e-7)."""
    eI, eA, eC, eT = ei
    fI, fA, fC, fT = cal
    horiz = math.sqrt(eC * eT)
    margin = 1.0
    dl = math.log10(fA) - math.log10(fI)
    if abs(dl) <= 1e-8:
        s = 0.0
    else:
        s = math.log(eA / eI) / math.log(fA / fI)
    if abs(s) <= 1e-8:
        s_zero = True
        lbrk = math.log(fA)
    else:
        s_zero = False
        margin = min(margin, abs(abs(s) - 1e-8) / 1e-8 if abs(s) < 1e-6 else 1.0)
        lbrk = math.log(fI) + math.log(horiz / eI) / s          # intersection of slanted and horizontal line
    lI, lA, lC = math.log(fI), math.log(fA), math.log(fC)
    slanted = None    # (slope, through fI/eI) or None for horizontal everywhere
    brk_exact = None  # the breakpoint as an exact fuel flow when a rule clamps it to a calibration flow
    if lbrk > lC:
        margin = min(margin, abs(lbrk - lC))
        lbrk, brk_exact = lC, fC
        slanted = s
    elif lbrk < lA and s < 0:
        margin = min(margin, abs(lbrk - lC), abs(lbrk - lA))
        horiz = eA
        lbrk, brk_exact = lA, fA
        slanted = s
    elif s >= 0:
        margin = min(margin, abs(lbrk - lC))
        lbrk, brk_exact = lA, fA
        slanted = None
    else:
        margin = min(margin, abs(lbrk - lC), abs(lbrk - lA))
        slanted = s
    if ff <= 0:
        return None, margin, 0.0
    lf = math.log(ff)
    # upper segment iff log ff >= breakpoint; a flow within rounding of the breakpoint (but not equal to it)
    # may legitimately fall on either side once logarithms are rounded: the oracle abstains there
    upper = (ff >= brk_exact) if brk_exact is not None else (lf >= lbrk)
    if not (brk_exact is not None and ff == brk_exact) and slanted is not None:
        margin = min(margin, abs(lf - lbrk))
    if upper or slanted is None:
        lv = math.log10(horiz)
    else:
        lv = math.log10(eI) + slanted * (lf - lI) / math.log(10.0)
    acrp = 1.0 + 52.0 * (fI - ff) if ff < fI else 1.0
    cruise = math.pow(T / 288.15, 3.3) / math.pow(P / 101325.0, 1.02)
    lmag = lv + math.log10(acrp * cruise)
    if abs(lmag) > 250:
        return None, margin, lmag
    return math.pow(10.0, lv) * acrp * cruise, margin, lmag


def o_sox(fsc, eps):
    s = fsc / 1000.0                       # g S per kg fuel
    so2 = s * (1.0 - eps) * 64.0 / 32.0
    so4 = s * eps * 96.0 / 32.0
    return so2 + so4, so2, so4


O_FOA3 = [(7.0, 6.17), (30.0, 56.25), (85.0, 76.0), (100.0, 115.0)]


def o_foa3(thrust, hc):
    xs = [a for a, _ in O_FOA3]
    if thrust <= xs[0]:
        d = O_FOA3[0][1]
    elif thrust >= xs[-1]:
        d = O_FOA3[-1][1]
    else:
        j = bisect.bisect_right(xs, thrust) - 1
        (x0, y0), (x1, y1) = O_FOA3[j], O_FOA3[j + 1]
        d = y0 + (y1 - y0) * (thrust - x0) / (x1 - x0)
    return d * hc / 1000.0


O_AFR = [106.0, 83.0, 51.0, 45.0]


def o_scope11(sn, i, bpr, etype):
    if sn == -1 or sn == 0:
        return 0.0
    sn = min(sn, 40.0)
    cbc = 0.6484 * math.exp(0.0766 * sn) / (1.0 + math.exp(-1.098 * (sn - 3.064)))
    b = bpr if etype == 'MTF' else 0.0
    kslm = math.log((3.219 * cbc * (1 + b) * 1000 + 312.5) / (cbc * (1 + b) * 1000 + 42.6))
    if etype == 'MTF':
        Q = 0.776 * O_AFR[i] * (1 + bpr) + 0.767
    elif etype == 'TF':
        Q = 0.776 * O_AFR[i] + 0.767
    else:
        Q = 0.0
    return kslm * cbc * Q / 1000.0


# MEEM (Ahrens et al. 2022), written from the published steps with plain floats: per-mode reference indices (given, or
# smoke number -> mass concentration -> mass index -> number index of a lognormal mode), combustor inlet state along the
# trajectory, sea-level reference state at the same T3, thrust setting F/Foo, piecewise-linear reference indices over
# the four certification thrust points PLUS the engine's own peak point of EACH index, altitude adjustment.
O_THRUST = (0.07, 0.30, 0.85, 1.00)
O_GMD = (20.0, 20.0, 40.0, 40.0)
O_PEAK = {'NoMax': None, 'NoMaxNeg': None, 'Max575': 0.575, 'Max925': 0.925}


def o_pwl(x, xs, ys):
    """piecewise-linear through (xs, ys), constant outside"""
    if x <= xs[0]:
        return ys[0]
    if x >= xs[-1]:
        return ys[-1]
    for i in range(len(xs) - 1):
        if xs[i] <= x <= xs[i + 1]:
            return ys[i] + (ys[i + 1] - ys[i]) * (x - xs[i]) / (xs[i + 1] - xs[i])
    raise AssertionError


def o_meem_curve(modes, peak, peak_thrust):
    pts = list(zip(O_THRUST, modes))
    if peak_thrust is not None:
        pts.append((peak_thrust, peak))
        pts.sort()
    return [a for a, _ in pts], [b for _, b in pts]


def o_meem(e, pts):
    """[(GMD, EI mass, EI number) or None where the published steps leave the reals (non-positive pressure)]"""
    if max(e['sn']) < 0:
        return [(0.0, 0.0, 0.0)] * len(pts)
    mass = list(e['mass'])
    if min(mass) < 0:
        b = e['bpr'] if e['etype'] == 'MTF' else 0.0
        mass = []
        for sn, afr in zip(e['sn'], O_AFR):
            ci = 0.6484 * math.exp(0.0766 * sn) / (1.0 + math.exp(-1.098 * (sn - 3.064)))
            q = 0.776 * afr * (1.0 + b) + 0.767
            cb = ci * (1.0 + b) * 1000.0
            mass.append(ci * q * math.log((3.219 * cb + 312.5) / (cb + 42.6)))
    num = list(e['num'])
    if min(num) < 0:
        shape = math.exp(4.5 * math.log(1.8) ** 2)
        num = [6.0 * m / (math.pi * 1e9 * (d * 1e-9) ** 3 * shape) for m, d in zip(mass, O_GMD)]
    cm = o_meem_curve(mass, e['mass_max'], O_PEAK[e['mass_kind']])
    cn = o_meem_curve(num, e['num_max'], O_PEAK[e['num_kind']])
    hmax = max(p[0] for p in pts)
    pr = e['pr']
    out, hp = [], pts[0][0]
    for h, Ta, P, M in pts:
        rate = h - hp
        hp = h
        eta = 0.88 if rate >= 0 else 0.70
        coef = (0.85 + 0.30 * (h - 3000.0) / max(1.0, hmax - 3000.0)) if rate > 0 else (0.95 if rate == 0 else 0.12)
        tt = 1.0 + 0.2 * M * M
        Tt, Pt = Ta * tt, P * tt ** 3.5
        ratio = 1.0 + coef * (pr - 1.0)
        if ratio <= 0:
            out.append(None)
            continue
        P3 = Pt * ratio
        T3 = Tt * (1.0 + (ratio ** (2.0 / 7.0) - 1.0) / eta)
        base = 1.0 + eta * (T3 / 288.15 - 1.0)
        if base <= 0:
            out.append(None)
            continue
        P3ref = 101325.0 * base ** 3.5
        F = (P3ref / 101325.0 - 1.0) / (pr - 1.0)
        adj = (P3 / P3ref) ** 1.35 * 1.1 ** 2.5
        out.append((o_pwl(F, O_THRUST, O_GMD), 1e-3 * o_pwl(F, *cm) * adj, o_pwl(F, *cn) * adj))
    return out


def finite_nonneg(xs):
    return all(isinstance(x, (int, float)) and math.isfinite(x) and x >= 0 for x in xs)


# =============================================================================
# implementation drivers
# =============================================================================

def _np():
    import numpy as np
    return np


def tmv(vals):
    from AEIC.performance.types import ThrustModeValues
    return ThrustModeValues(*[float(v) for v in vals])


@contextlib.contextmanager
def quiet_fd1():
    """LAPACK reports illegal arguments (rank-deficient polyfit, FC12a) straight to file descriptor 1;
    keep the check's stdout clean for the VIOLATION / KNOWN-FINDING lines."""
    sys.stdout.flush()
    saved = os.dup(1)
    devnull = os.open(os.devnull, os.O_WRONLY)
    os.dup2(devnull, 1)
    try:
        yield
    finally:
        os.dup2(saved, 1)
        os.close(saved)
        os.close(devnull)


def canon_nan(x):
    return json.dumps(x)          # NaN -> 'NaN', so NaN == NaN for the repeatability test


def impl_case(c):
    """Run the real code on one case; returns plain python floats/strings (or {'error': ...})."""
    np = _np()
    k = c['kind']
    with warnings.catch_warnings():
        warnings.simplefilter('ignore')
        try:
            if k == 'isa':
                from AEIC.utils.standard_atmosphere import (
                    altitude_from_pressure_isa_bada4,
                    pressure_at_altitude_isa_bada4,
                    temperature_at_altitude_isa_bada4,
                )
                h = np.array(c['h'], dtype=float)
                T = temperature_at_altitude_isa_bada4(h)
                p = np.asarray(pressure_at_altitude_isa_bada4(h), dtype=float)
                hb = altitude_from_pressure_isa_bada4(p)
                pp = np.array(c['p'], dtype=float)
                h2 = altitude_from_pressure_isa_bada4(pp)
                p2 = np.asarray(pressure_at_altitude_isa_bada4(h2), dtype=float)
                return {'T': T.tolist(), 'p': p.tolist(), 'h_back': hb.tolist(),
                        'h_of_p': h2.tolist(), 'p_back': p2.tolist()}
            if k == 'atmos':
                from AEIC.emissions.types import AtmosphericState
                st = AtmosphericState(np.array(c['h'], dtype=float), np.array(c['tas'], dtype=float))
                return {'out': [list(map(float, t)) for t in zip(st.temperature, st.pressure, st.mach)]}
            if k == 'ffm2':
                from AEIC.emissions.utils import get_SLS_equivalent_fuel_flow
                a = {n: np.array([pt[i] for pt in c['pts']], dtype=float) for i, n in enumerate(['ff', 'P', 'T', 'M'])}
                r = get_SLS_equivalent_fuel_flow(a['ff'], a['P'], a['T'], a['M'], n_eng=c['n_eng'])
                r2 = get_SLS_equivalent_fuel_flow(a['ff'] * c['k'], a['P'], a['T'], a['M'], n_eng=c['n_eng'])
                return {'sls': r.tolist(), 'sls_k': r2.tolist()}
            if k == 'cat':
                from AEIC.emissions.utils import get_thrust_cat_cruise
                r = get_thrust_cat_cruise(np.array(c['ff'], dtype=float), tmv(c['cal']))
                return {'cat': [MODE_OF_VALUE.get(str(x), str(x)) for x in r.data]}
            if k == 'nox':
                from AEIC.emissions.ei.nox import BFFM2_EINOx
                ff = np.array([p[0] for p in c['pts']], dtype=float)
                T = np.array([p[1] for p in c['pts']], dtype=float)
                P = np.array([p[2] for p in c['pts']], dtype=float)

                def run(ei, keep=None):
                    cal_v, ei_v = tmv(c['cal']), tmv(ei)
                    with quiet_fd1():
                        r = BFFM2_EINOx(ff, ei_v, cal_v, T, P)
                    if keep is not None:
                        keep.append((cal_v.as_array().tolist(), ei_v.as_array().tolist()))
                    return [list(map(float, t)) for t in zip(r.NOxEI, r.NOEI, r.NO2EI, r.HONOEI, r.noProp,
                                                             r.no2Prop, r.honoProp)]
                before = (ff.copy(), T.copy(), P.copy())
                kept = []
                o1 = run(c['ei'], kept)
                untouched = (np.array_equal(before[0], ff) and np.array_equal(before[1], T) and np.array_equal(before[2], P)
                             and kept[0] == ([float(v) for v in c['cal']], [float(v) for v in c['ei']]))
                ok_ = run([e * c['k'] for e in c['ei']])
                o2 = run(c['ei'])
                return {'out': o1, 'out_k': ok_, 'inputs_untouched': bool(untouched),
                        'repeatable': bool(canon_nan(o1) == canon_nan(o2))}
            if k == 'hcco':
                from AEIC.emissions.ei.hcco import EI_HCCO
                ff = np.array([p[0] for p in c['pts']], dtype=float)
                T = np.array([p[1] for p in c['pts']], dtype=float)
                P = np.array([p[2] for p in c['pts']], dtype=float)
                before = (ff.copy(), T.copy(), P.copy())
                cal_v, ei_v = tmv(c['cal']), tmv(c['ei'])
                r = EI_HCCO(ff, ei_v, cal_v, T, P)
                untouched = (np.array_equal(before[0], ff) and np.array_equal(before[1], T) and np.array_equal(before[2], P)
                             and cal_v.as_array().tolist() == [float(v) for v in c['cal']]
                             and ei_v.as_array().tolist() == [float(v) for v in c['ei']])
                r2 = EI_HCCO(ff, tmv([e * c['k'] for e in c['ei']]), tmv(c['cal']), T, P)
                r3 = EI_HCCO(ff, tmv(c['ei']), tmv(c['cal']), T, P)
                return {'out': r.tolist(), 'out_k': r2.tolist(), 'inputs_untouched': bool(untouched),
                        'repeatable': bool(canon_nan(r.tolist()) == canon_nan(r3.tolist()))}
            if k == 'sox':
                from AEIC.emissions.ei.sox import EI_SOx
                from AEIC.types import Fuel
                f = Fuel(name='verif', energy_MJ_per_kg=43.0, EI_H2O=1233.0, EI_CO2=3155.6,
                         non_volatile_carbon_fraction=0.95, fuel_sulfur_content_nom=c['fsc'],
                         sulfate_yield_nom=c['eps'])
                r = EI_SOx(f)
                return {'out': [float(r.EI_SOx), float(r.EI_SO2), float(r.EI_SO4)]}
            if k == 'pmvol':
                from AEIC.emissions.ei.pmvol import EI_PMvol_FOA3, EI_PMvol_FuelFlow
                from AEIC.performance.types import ThrustMode, ThrustModeArray
                modes = [getattr(ThrustMode, m.upper()) for m in c['modes']]
                a, b = EI_PMvol_FuelFlow(np.array(c['ff'], dtype=float), ThrustModeArray(np.array(modes)))
                th = np.array(c['thrust'], dtype=float)
                hc = np.array(c['hc'], dtype=float)
                p1, o1 = EI_PMvol_FOA3(th, hc)
                p2, _ = EI_PMvol_FOA3(th, hc * c['k'])
                return {'ff_pm': a.tolist(), 'ff_oc': b.tolist(), 'foa3': p1.tolist(), 'foa3_oc': o1.tolist(),
                        'foa3_k': p2.tolist()}
            if k == 'scope11':
                from AEIC.emissions.ei.pmnvol import calculate_PMnvolEI_scope11
                from AEIC.performance.types import ThrustMode
                r = calculate_PMnvolEI_scope11(tmv(c['sn']), c['etype'], float(c['bpr']))
                return {'out': [float(r[m]) for m in ThrustMode]}
            if k == 'meem':
                return impl_meem(c)
            if k == 'sound':
                from AEIC.utils.standard_atmosphere import (
                    calculate_air_density,
                    calculate_speed_of_sound,
                    speed_of_sound_at_altitude,
                )
                h = np.array(c['h'], dtype=float)
                T = np.array(c['T'], dtype=float)
                p = np.array(c['p'], dtype=float)
                return {'a_T': calculate_speed_of_sound(T).tolist(), 'a_h': speed_of_sound_at_altitude(h).tolist(),
                        'rho': calculate_air_density(p, T).tolist()}
            if k == 'shape':
                return impl_shape(c)
            if k == 'cache':
                return impl_cache(c)
        except Exception as e:  # noqa: BLE001
            return {'error': f'{type(e).__name__}: {e}'}
    raise ValueError(k)


KIND_VALUE = {'NoMax': float('nan'), 'NoMaxNeg': -1.0, 'Max575': 0.575, 'Max925': 0.925}


def impl_meem(c, as_int=False):
    np = _np()
    from AEIC.emissions.ei.pmnvol import PMnvol_MEEM
    from AEIC.performance.edb import EDBEntry

    def tmv(vals):            # integer-valued certification data handed over as python ints when as_int
        from AEIC.performance.types import ThrustModeValues
        if as_int and all(float(v).is_integer() for v in vals):
            return ThrustModeValues(*[int(v) for v in vals])
        return ThrustModeValues(*[float(v) for v in vals])

    def run(mass_k=1.0, num_k=1.0):
        e = c['edb']
        z = tmv([0, 0, 0, 0])
        edb = EDBEntry(engine='V', uid='V0', engine_type=e['etype'], BP_Ratio=float(e['bpr']), rated_thrust=100.0,
                       fuel_flow=z, CO_EI_matrix=z, HC_EI_matrix=z, EI_NOx_matrix=z, SN_matrix=tmv(e['sn']),
                       nvPM_mass_matrix=tmv([m * mass_k if m > 0 else m for m in e['mass']]),
                       nvPM_num_matrix=tmv([m * num_k if m > 0 else m for m in e['num']]),
                       PR=tmv([e['pr']] * 4), EImass_max=float(e['mass_max']) * mass_k,
                       EImass_max_thrust=KIND_VALUE[e['mass_kind']], EInum_max=float(e['num_max']) * num_k,
                       EInum_max_thrust=KIND_VALUE[e['num_kind']])
        a = [np.array([p[i] for p in c['pts']], dtype=float) for i in range(4)]
        import contextlib
        import io
        with contextlib.redirect_stdout(io.StringIO()):
            g, m, n = PMnvol_MEEM(edb, *a)
        return [list(map(float, t)) for t in zip(g, m, n)]
    return {'out': run(), 'out_mass_k': run(mass_k=c['k']), 'out_num_k': run(num_k=c['k'])}


def impl_shape(c):
    """The same numbers handed over as scalar / 0-d / 1-element / list / integer inputs must give the same
    results as the n-element float arrays (documented argument types only).  Returns the discrepancies."""
    np = _np()
    from AEIC.emissions.ei.hcco import EI_HCCO
    from AEIC.emissions.ei.nox import BFFM2_EINOx
    from AEIC.emissions.ei.pmnvol import calculate_PMnvolEI_scope11
    from AEIC.emissions.ei.pmvol import EI_PMvol_FOA3, EI_PMvol_FuelFlow
    from AEIC.emissions.utils import get_SLS_equivalent_fuel_flow, get_thrust_cat_cruise
    from AEIC.performance.types import ThrustMode, ThrustModeArray, ThrustModeValues
    from AEIC.utils.standard_atmosphere import (
        altitude_from_pressure_isa_bada4,
        pressure_at_altitude_isa_bada4,
        temperature_at_altitude_isa_bada4,
    )
    issues = []

    def same(a, b, what):
        try:
            a = np.asarray(a, dtype=float).ravel()
            b = np.asarray(b, dtype=float).ravel()
            if a.shape != b.shape or not np.allclose(a, b, rtol=1e-12, atol=0.0, equal_nan=True):
                issues.append(f'{what}: {a.tolist()[:6]} vs {b.tolist()[:6]}')
        except Exception as e:  # noqa: BLE001
            issues.append(f'{what}: {type(e).__name__}: {e}')

    def attempt(what, fn):
        try:
            return fn()
        except Exception as e:  # noqa: BLE001
            issues.append(f'{what}: raised {type(e).__name__}: {e}')
            return None

    hs = [float(h) for h in c['h']]
    ha = np.array(hs)
    for nme, f in (('temperature', temperature_at_altitude_isa_bada4), ('pressure', pressure_at_altitude_isa_bada4)):
        base = np.asarray(f(ha), dtype=float)
        for i, h in enumerate(hs):
            for tag, v in (('python float', h), ('0-d array', np.float64(h)), ('1-element array', np.array([h]))):
                r = attempt(f'{nme}({tag} {h})', lambda v=v: f(v))
                if r is not None:
                    same(r, base[i], f'{nme}: {tag} {h} vs element {i} of the array call')
        r = attempt(f'{nme}(list)', lambda: f(hs))
        if r is not None:
            same(r, base, f'{nme}: python list vs array')
        hi = [int(round(h)) for h in hs]
        r = attempt(f'{nme}(int array)', lambda: f(np.array(hi)))
        if r is not None:
            same(r, f(np.array(hi, dtype=float)), f'{nme}: integer altitudes {hi} vs the same as floats')
        r = attempt(f'{nme}(2-D)', lambda: f(ha.reshape(2, -1)))
        if r is not None:
            same(r, base, f'{nme}: 2-D array vs flat array')
    pa = np.asarray(pressure_at_altitude_isa_bada4(ha), dtype=float)
    base = altitude_from_pressure_isa_bada4(pa)
    for i, p in enumerate(pa.tolist()):
        r = attempt('altitude_from_pressure(scalar)', lambda p=p: altitude_from_pressure_isa_bada4(p))
        if r is not None:
            same(r, base[i], f'altitude_from_pressure: scalar {p} vs element {i}')
    pi_ = [int(round(p)) for p in pa.tolist()]
    r = attempt('altitude_from_pressure(int)', lambda: altitude_from_pressure_isa_bada4(np.array(pi_)))
    if r is not None:
        same(r, altitude_from_pressure_isa_bada4(np.array(pi_, dtype=float)), 'altitude_from_pressure: integer pascals vs floats')

    ff = np.array([p[0] for p in c['pts']], dtype=float)
    T = np.array([p[1] for p in c['pts']], dtype=float)
    P = np.array([p[2] for p in c['pts']], dtype=float)
    M = np.array([p[3] for p in c['pts']], dtype=float)
    cal, ei = tmv(c['cal']), tmv(c['ei'])
    base = get_SLS_equivalent_fuel_flow(ff, P, T, M, n_eng=2)
    for i in range(len(ff)):
        r = attempt('get_SLS(scalars)', lambda i=i: get_SLS_equivalent_fuel_flow(float(ff[i]), float(P[i]), float(T[i]), float(M[i]), n_eng=2))
        if r is not None:
            same(r, base[i], f'get_SLS_equivalent_fuel_flow: scalars vs element {i}')
    base_cat = [str(x) for x in get_thrust_cat_cruise(ff, cal).data]
    for i in range(len(ff)):
        r = attempt('thrust_cat(1-element)', lambda i=i: [str(x) for x in get_thrust_cat_cruise(ff[i:i + 1], cal).data])
        if r is not None and r != base_cat[i:i + 1]:
            issues.append(f'get_thrust_cat_cruise: 1-element array {ff[i]} -> {r} vs {base_cat[i]} in the n-element call')
    ffi = np.array([0, 1, 2, 3])
    r = attempt('thrust_cat(int)', lambda: [str(x) for x in get_thrust_cat_cruise(ffi, cal).data])
    if r is not None and r != [str(x) for x in get_thrust_cat_cruise(ffi.astype(float), cal).data]:
        issues.append(f'get_thrust_cat_cruise: integer fuel flows {ffi.tolist()} classified differently from floats')
    # HC/CO and NOx: 1-element calls, scalar ambient state, integer fuel flows, integer certification data
    base_h = EI_HCCO(ff, ei, cal, T, P)
    with quiet_fd1():
        base_n = BFFM2_EINOx(ff, ei, cal, T, P).NOxEI
    for i in range(len(ff)):
        r = attempt('EI_HCCO(1-element, scalar ambient)', lambda i=i: EI_HCCO(ff[i:i + 1], ei, cal, float(T[i]), float(P[i])))
        if r is not None:
            same(r, base_h[i], f'EI_HCCO: 1-element array + scalar T/P vs element {i}')
        r = attempt('EI_HCCO(1-element arrays)', lambda i=i: EI_HCCO(ff[i:i + 1], ei, cal, T[i:i + 1], P[i:i + 1]))
        if r is not None:
            same(r, base_h[i], f'EI_HCCO: 1-element arrays vs element {i}')
        with quiet_fd1():
            r = attempt('BFFM2_EINOx(1-element, scalar ambient)',
                        lambda i=i: BFFM2_EINOx(ff[i:i + 1], ei, cal, float(T[i]), float(P[i])).NOxEI)
        if r is not None:
            same(r, base_n[i], f'BFFM2_EINOx: 1-element array + scalar T/P vs element {i}')
    r = attempt('EI_HCCO(int ff)', lambda: EI_HCCO(ffi, ei, cal, 288.15, 101325.0))
    if r is not None:
        same(r, EI_HCCO(ffi.astype(float), ei, cal, 288.15, 101325.0), 'EI_HCCO: integer fuel flows vs floats')
    with quiet_fd1():
        r = attempt('BFFM2_EINOx(int ff, int ambient)', lambda: BFFM2_EINOx(ffi, ei, cal, np.array([288] * 4), np.array([101325] * 4)).NOxEI)
        if r is not None:
            same(r, BFFM2_EINOx(ffi.astype(float), ei, cal, np.array([288.0] * 4), np.array([101325.0] * 4)).NOxEI,
                 'BFFM2_EINOx: integer inputs vs floats')
    ici = [max(1, int(round(v))) for v in c['ei']]
    icc = [1, 2, 3, 5]
    r = attempt('EI_HCCO(int cert)', lambda: EI_HCCO(ff, ThrustModeValues(*ici), ThrustModeValues(*icc), T, P))
    if r is not None:
        same(r, EI_HCCO(ff, tmv(ici), tmv(icc), T, P), 'EI_HCCO: integer certification data vs floats')
    with quiet_fd1():
        r = attempt('BFFM2_EINOx(int cert)', lambda: BFFM2_EINOx(ff, ThrustModeValues(*ici), ThrustModeValues(*icc), T, P).NOxEI)
        if r is not None:
            same(r, BFFM2_EINOx(ff, tmv(ici), tmv(icc), T, P).NOxEI, 'BFFM2_EINOx: integer certification data vs floats')
    # FOA3 with the documented 2-D shape (n_types, n_times)
    th = np.array(c['thrust'], dtype=float)
    hc = np.array(c['hc'], dtype=float)
    b1, _ = EI_PMvol_FOA3(th, hc)
    r = attempt('EI_PMvol_FOA3(2-D)', lambda: EI_PMvol_FOA3(th.reshape(2, -1), hc.reshape(2, -1))[0])
    if r is not None:
        same(r, b1, 'EI_PMvol_FOA3: (2, n) arrays vs flat')
    r = attempt('EI_PMvol_FOA3(int thrust)', lambda: EI_PMvol_FOA3(np.array([7, 30, 50, 100]), np.array([1, 2, 3, 4]))[0])
    if r is not None:
        same(r, EI_PMvol_FOA3(np.array([7.0, 30.0, 50.0, 100.0]), np.array([1.0, 2.0, 3.0, 4.0]))[0], 'EI_PMvol_FOA3: integers vs floats')
    modes = [ThrustMode.IDLE, ThrustMode.APPROACH, ThrustMode.CLIMB, ThrustMode.TAKEOFF]
    bm, _ = EI_PMvol_FuelFlow(np.ones(4), ThrustModeArray(np.array(modes)))
    for i, md in enumerate(modes):
        r = attempt('EI_PMvol_FuelFlow(1-element)', lambda md=md: EI_PMvol_FuelFlow(np.ones(1), ThrustModeArray(np.array([md])))[0])
        if r is not None:
            same(r, bm[i], f'EI_PMvol_FuelFlow: 1-element {md} vs element {i}')
    # SCOPE11 and MEEM with integer-valued certification data
    sni = [int(v) for v in c['sn_int']]
    r = attempt('scope11(int SN)', lambda: calculate_PMnvolEI_scope11(ThrustModeValues(*sni), 'MTF', 5))
    if r is not None:
        same([r[m] for m in ThrustMode], [calculate_PMnvolEI_scope11(tmv(sni), 'MTF', 5.0)[m] for m in ThrustMode],
             f'calculate_PMnvolEI_scope11: integer smoke numbers {sni} vs floats')
    mc = c['meem']
    rf = attempt('MEEM(float)', lambda: impl_meem(mc)['out'])
    ri = attempt('MEEM(int)', lambda: impl_meem(mc, as_int=True)['out'])
    if rf is not None and ri is not None:
        same(ri, rf, 'PMnvol_MEEM: integer smoke numbers / pressure ratio / mass indices vs floats')
    one = dict(mc, pts=mc['pts'][:1])
    r1 = attempt('MEEM(1 point)', lambda: impl_meem(one)['out'])
    if r1 is not None and not all(math.isfinite(x) and x >= 0 for x in r1[0]):
        issues.append(f'PMnvol_MEEM: single-point trajectory gives {r1[0]}')
    return {'issues': issues}


def impl_cache(c):
    """Cached helpers (functools.cache) called in one process with colliding hashes / repeated keys."""
    from AEIC.emissions.ei.nox import NOx_speciation
    from AEIC.emissions.ei.pmnvol import calculate_PMnvolEI_scope11
    from AEIC.emissions.utils import scope11_profile
    from AEIC.performance.edb import EDBEntry
    from AEIC.performance.types import ThrustMode
    prof, direct, writable = [], [], []
    z = tmv([0, 0, 0, 0])
    for sn, et, bpr in c['seq']:
        edb = EDBEntry(engine='CACHE', uid='SAME-UID', engine_type=et, BP_Ratio=float(bpr), rated_thrust=100.0, fuel_flow=z,
                       CO_EI_matrix=z, HC_EI_matrix=z, EI_NOx_matrix=z, SN_matrix=tmv(sn), nvPM_mass_matrix=z,
                       nvPM_num_matrix=z, PR=tmv([25.0] * 4), EImass_max=1.0, EImass_max_thrust=float('nan'),
                       EInum_max=1.0, EInum_max_thrust=float('nan'))
        p = scope11_profile(edb)
        prof.append([float(p.mass[m]) for m in ThrustMode])
        d = calculate_PMnvolEI_scope11(tmv(sn), et, float(bpr))
        direct.append([float(d[m]) for m in ThrustMode])
        w = False
        for obj in (p.mass, d):
            try:
                obj[ThrustMode.IDLE] = 12345.0          # a cached value must not be poisonable by its callers
                w = True
            except TypeError:
                pass
        writable.append(w)
    s1 = NOx_speciation()
    w = False
    try:
        s1.no[ThrustMode.IDLE] = 0.5
        w = True
    except TypeError:
        pass
    s2 = NOx_speciation()
    spec = [[float(s2.no[m]), float(s2.no2[m]), float(s2.hono[m])] for m in ThrustMode]
    return {'profile': prof, 'direct': direct, 'writable': writable, 'spec': spec, 'spec_writable': w}


# =============================================================================
# Coq expressions
# =============================================================================

def fl(x):
    return to_coq(float(x))


def tup(vals):
    return '(' + ', '.join(fl(v) for v in vals) + ')'


def lst(items):
    return '[' + '; '.join(items) + ']'


def model_expr(c, variant):
    k = c['kind']
    if k == 'isa':
        hs = lst(fl(h) for h in c['h'])
        ps = lst(fl(p) for p in c['p'])
        return (f'(map (fun h => (@isa_temperature F h, @isa_pressure F h, @isa_altitude F (@isa_pressure F h))) {hs}, '
                f'map (fun p => (@isa_altitude F p, @isa_pressure F (@isa_altitude F p))) {ps})')
    if k == 'atmos':
        pts = lst(f'({fl(h)}, {fl(t)})' for h, t in zip(c['h'], c['tas']))
        return f"map (fun x => let '(h, tas) := x in @atmos_state F h tas) {pts}"
    if k == 'ffm2':
        pts = lst(tup(p) for p in c['pts'])
        return (f"map (fun x => let '(ff, P, Ta, M) := x in @ffm2_std F ff P Ta M {fl(c['n_eng'])}) {pts}")
    if k == 'cat':
        return f"map (fun ff => @thrust_cat F ff {tup(c['cal'])}) {lst(fl(f) for f in c['ff'])}"
    if k == 'nox':
        pts = lst(tup(p) for p in c['pts'])
        return (f"map (fun x => let '(ff, Ta, P) := x in @bffm2_nox_v F {variant} ff {tup(c['ei'])} {tup(c['cal'])} Ta P) {pts}")
    if k == 'hcco':
        pts = lst(tup(p) for p in c['pts'])
        return f"map (fun x => let '(ff, Ta, P) := x in @hcco F ff {tup(c['ei'])} {tup(c['cal'])} Ta P) {pts}"
    if k == 'sox':
        return f"@sox F {fl(c['fsc'])} {fl(c['eps'])}"
    if k == 'pmvol':
        pts = lst(f'({fl(t)}, {fl(h)})' for t, h in zip(c['thrust'], c['hc']))
        return (f"(map (fun m => @pmvol_fuelflow F m) {lst(c['modes'])}, "
                f"map (fun x => let '(t, h) := x in @pmvol_foa3 F t h) {pts})")
    if k == 'scope11':
        return f"@scope11 F {tup(c['sn'])} {fl(c['bpr'])} \"{c['etype']}\""
    if k == 'meem':
        e = c['edb']
        kind = {'NoMaxNeg': 'NoMax'}
        edb = (f"(@Build_edb F {tup(e['sn'])} {tup(e['mass'])} {tup(e['num'])} \"{e['etype']}\" {fl(e['bpr'])} "
               f"{fl(e['pr'])} {fl(e['mass_max'])} {kind.get(e['mass_kind'], e['mass_kind'])} {fl(e['num_max'])} "
               f"{kind.get(e['num_kind'], e['num_kind'])})")
        return f"@meem F {edb} {lst(tup(p) for p in c['pts'])}"
    if k in ('sound', 'shape', 'cache'):
        return None
    raise ValueError(k)


def ext_expr(c, variant):
    """The same quantities computed from the regenerated text (Gen.C12_Extracted), where it exists."""
    k = c['kind']
    if k == 'isa':
        hs = lst(fl(h) for h in c['h'])
        ps = lst(fl(p) for p in c['p'])
        return (f'(map (fun h => (@X.temperature_at_altitude_isa_bada4 F h, @X.pressure_at_altitude_isa_bada4 F h, '
                f'@X.altitude_from_pressure_isa_bada4 F (@X.pressure_at_altitude_isa_bada4 F h))) {hs}, '
                f'map (fun p => (@X.altitude_from_pressure_isa_bada4 F p, '
                f'@X.pressure_at_altitude_isa_bada4 F (@X.altitude_from_pressure_isa_bada4 F p))) {ps})')
    if k == 'ffm2':
        pts = lst(tup(p) for p in c['pts'])
        return (f"map (fun x => let '(ff, P, Ta, M) := x in @X.get_SLS_equivalent_fuel_flow F ff P Ta M "
                f"(@X.sls_default_z F) (@X.sls_default_P_SL F) (@X.sls_default_T_SL F) {fl(c['n_eng'])}) {pts}")
    if k == 'cat':
        cal = ' '.join(fl(v) for v in c['cal'])
        return f"map (fun ff => @X.get_thrust_cat_cruise F ff {cal}) {lst(fl(f) for f in c['ff'])}"
    if k == 'nox':
        pts = lst(tup(p) for p in c['pts'])
        cal = ' '.join(fl(v) for v in c['cal'])
        return (f"let xc := @tmap F (fun f => @X.nox_log F (@X.nox_clamp_cal F f)) {tup(c['cal'])} in "
                f"let yc := @tmap F (@X.nox_log F) {tup(c['ei'])} in "
                f"let '(s, i) := @ls_fit_v F {variant} xc yc in "
                f"let '(pno, pno2, phono) := @X.NOx_speciation F in "
                f"map (fun x => let '(ff, Ta, P) := x in "
                f"let nox := @X.nox_ambient F Ta P (@X.nox_line F (@X.nox_log F (@X.nox_clamp_eval F ff)) s i) in "
                f"let m := @X.get_thrust_cat_cruise F ff {cal} in "
                f"(nox, nox * @tget F pno m, nox * @tget F pno2 m, nox * @tget F phono m, "
                f"@tget F pno m, @tget F pno2 m, @tget F phono m)%float) {pts}")
    if k == 'atmos':
        pts = lst(f'({fl(h)}, {fl(t)})' for h, t in zip(c['h'], c['tas']))
        return f"map (fun x => let '(h, tas) := x in @X.atmos_state_init F h tas) {pts}"
    if k == 'sound':
        pts = lst(f'({fl(h)}, {fl(t)}, {fl(p)})' for h, t, p in zip(c['h'], c['T'], c['p']))
        return (f"map (fun x => let '(h, Tk, p) := x in (@X.calculate_speed_of_sound F Tk, "
                f"@X.speed_of_sound_at_altitude F h, @X.calculate_air_density F p Tk)) {pts}")
    if k == 'meem':
        return model_expr(c, variant).replace('@meem F', 'x_meem', 1)
    if k == 'hcco':
        pts = lst(tup(p) for p in c['pts'])
        return (f"(@X.hcco_ACRP_slope F, map (fun x => let '(ff, Ta, P) := x in @X.hcco_cruise_factor F Ta P) {pts})")
    if k == 'sox':
        return f"@X.EI_SOx F {fl(c['fsc'])} {fl(c['eps'])}"
    if k == 'pmvol':
        pts = lst(f'({fl(t)}, {fl(h)})' for t, h in zip(c['thrust'], c['hc']))
        return (f"(map (fun m => @X.EI_PMvol_FuelFlow F 1%float m) {lst(c['modes'])}, "
                f"map (fun x => let '(t, h) := x in @X.EI_PMvol_FOA3 F t h) {pts})")
    if k == 'scope11':
        sn = c['sn']
        return (f"let '(a0, a1, a2, a3) := @X.scope11_AFR F in "
                f"(@X.scope11_mode F {fl(sn[0])} a0 {fl(c['bpr'])} \"{c['etype']}\", "
                f"@X.scope11_mode F {fl(sn[1])} a1 {fl(c['bpr'])} \"{c['etype']}\", "
                f"@X.scope11_mode F {fl(sn[2])} a2 {fl(c['bpr'])} \"{c['etype']}\", "
                f"@X.scope11_mode F {fl(sn[3])} a3 {fl(c['bpr'])} \"{c['etype']}\")")
    return None


# =============================================================================
# generators
# =============================================================================

def gen_cal(rng, count, min_spread=None):
    """Four positive calibration fuel flows [kg/s]: increasing, with equal neighbours, or permuted."""
    while True:
        f = [math.exp(rng.uniform(math.log(0.03), math.log(0.6)))]
        shape = []
        for _ in range(3):
            if rng.random() < 0.15:
                f.append(f[-1])
                shape.append('eq')
            else:
                f.append(f[-1] * rng.uniform(1.06, 3.2))
        r = rng.random()
        if r < 0.12:           # explicit pairwise-equal patterns (never all four)
            a, b, c = sorted(f)[0], sorted(f)[-1], sorted(f)[1] if sorted(f)[1] not in (sorted(f)[0], sorted(f)[-1]) else sorted(f)[0] * 1.5
            if a == b:
                b = a * 2.0
            f = list(rng.choice([(a, a, b, b), (a, b, b, c), (a, b, a, b), (b, a, a, b), (a, a, a, b), (a, b, b, b),
                                 (b, b, a, a)]))
            shape.append('eq')
        r = rng.random()
        if r < 0.25:
            rng.shuffle(f)
            tag = 'nonmonotone' if f != sorted(f) else 'monotone'
        else:
            tag = 'nonmonotone' if f != sorted(f) else 'monotone'
        if 'eq' in shape or len(set(f)) < 4:
            tag += '+equal'
        if len(set(f)) == 1:
            continue
        if min_spread is not None and max(f) / min(f) < min_spread:
            continue
        count(tag)
        return [float(x) for x in f], tag


def gen_ei(rng, lo=0.02, hi=200.0):
    r = rng.random()
    e = [math.exp(rng.uniform(math.log(lo), math.log(hi))) for _ in range(4)]
    if r < 0.35:
        e.sort(reverse=True)           # typical HC/CO: falling with thrust
    elif r < 0.5:
        e.sort()                       # typical NOx: rising with thrust
    if rng.random() < 0.1:
        e[1] = e[0]                    # zero slope
    return [float(x) for x in e]


def gen_ff_points(rng, cal, n):
    lo, hi = min(cal), max(cal)
    lowl, appl = 0.5 * (cal[0] + cal[1]), 0.5 * (cal[1] + cal[2])
    edge = rng.choice([cal[0], lowl, appl, rng.choice(cal)])
    pts = [0.0, cal[0] * 1e-3, rng.uniform(0, cal[0]), rng.choice(cal), cal[0], lowl, appl, hi * rng.uniform(1.0, 1.3),
           math.nextafter(edge, math.inf), math.nextafter(edge, -math.inf)]
    while len(pts) < n:
        pts.append(rng.uniform(0.2 * lo, 1.3 * hi))
    if rng.random() < 0.5:
        pts[2] = -rng.uniform(0.0, lo)          # negative flow (treated like zero flow by the EI functions)
    rng.shuffle(pts)
    return [float(x) for x in pts[:n]]


def gen_ambient(rng):
    h = rng.choice([0.0, 11000.0, 25000.0, rng.uniform(0, 25000), rng.uniform(0, 25000), rng.uniform(9000, 13000)])
    T = o_isa_T(h) + (0.0 if rng.random() < 0.6 else rng.uniform(-15, 15))
    return float(T), float(o_isa_p(h)), h


def gen_case(rng, kind, count):
    k = float(rng.choice([0.25, 0.5, 2.0, 3.0, rng.uniform(0.1, 10.0)]))
    if kind == 'isa':
        hs = [0.0, 11000.0, 25000.0, 10999.999, 11000.001] + [rng.uniform(0, 25000) for _ in range(5)]
        # pressures whose altitude stays inside 0-25 km (the code refuses altitudes above 25 km by design)
        ps = [101325.0, o_isa_p(11000.0), o_isa_p(24999.0)] + [o_isa_p(rng.uniform(0, 24900)) * (1 + rng.uniform(-1e-3, 1e-3))
                                                              for _ in range(5)]
        ps = [min(p, 101325.0) for p in ps]
        return {'kind': kind, 'h': [float(h) for h in hs], 'p': [float(p) for p in ps]}
    if kind == 'atmos':
        hs = [0.0, 11000.0, 25000.0] + [rng.uniform(0, 25000) for _ in range(7)]
        return {'kind': kind, 'h': [float(h) for h in hs], 'tas': [float(rng.choice([0.0, rng.uniform(0, 290)])) for _ in hs]}
    if kind == 'sound':
        hs = [0.0, 11000.0, 25000.0] + [rng.uniform(0, 25000) for _ in range(7)]
        Ts = [o_isa_T(h) + rng.choice([0.0, rng.uniform(-20, 20)]) for h in hs]
        return {'kind': kind, 'h': [float(h) for h in hs], 'T': [float(t) for t in Ts], 'p': [float(o_isa_p(h)) for h in hs]}
    if kind == 'shape':
        cal, _tag = gen_cal(rng, count, min_spread=1.5)
        hs = [0.0, 11000.0, 25000.0, float(rng.randint(1, 24999))] + [rng.uniform(0, 25000) for _ in range(2)]
        pts = []
        for ff in gen_ff_points(rng, cal, 6):
            T, P, _h = gen_ambient(rng)
            pts.append([ff, T, P, float(rng.uniform(0, 0.95))])
        mc = gen_case(rng, 'meem', lambda *a: None)
        e = mc['edb']
        e['sn'] = [float(rng.randint(1, 35)) for _ in range(4)]
        e['pr'] = float(rng.randint(8, 45))
        if min(e['mass']) > 0:
            e['mass'] = [float(rng.randint(1, 300)) for _ in range(4)]
        return {'kind': kind, 'h': hs, 'cal': cal, 'ei': gen_ei(rng, 1.0, 80.0), 'pts': pts,
                'thrust': [float(rng.uniform(0, 110)) for _ in range(6)], 'hc': [float(rng.uniform(0, 30)) for _ in range(6)],
                'sn_int': [rng.choice([-1, 0, rng.randint(1, 45)]) for _ in range(4)], 'meem': mc}
    if kind == 'cache':
        sn = [float(rng.choice([-1.0, 0.0, rng.uniform(0.2, 40)])) for _ in range(4)]
        sn2 = [float(rng.uniform(0.2, 40)) for _ in range(4)]
        b1, b2 = float(rng.uniform(0.2, 6)), float(rng.uniform(6, 12))
        seq = [[sn, 'MTF', b1], [sn, 'TF', b1], [sn, 'MTF', b2], [sn2, 'MTF', b1], [sn, 'TP', b1]]
        return {'kind': kind, 'seq': seq + seq}
    if kind == 'ffm2':
        pts = []
        for _ in range(8):
            T, P, _h = gen_ambient(rng)
            pts.append([float(rng.choice([0.0, rng.uniform(0, 4.0)])), P, T, float(rng.choice([0.0, 0.95, rng.uniform(0, 0.95)]))])
        return {'kind': kind, 'pts': pts, 'n_eng': int(rng.choice([1, 2, 2, 3, 4])), 'k': k}
    if kind == 'cat':
        cal, tag = gen_cal(rng, count)
        return {'kind': kind, 'cal': cal, 'ff': gen_ff_points(rng, cal, 14), 'tag': tag}
    if kind in ('nox', 'hcco'):
        if kind == 'nox' and rng.random() < 0.06:
            f = math.exp(rng.uniform(math.log(0.05), math.log(2.0)))
            cal, tag = [float(f)] * 4, 'all-equal'
            count('all-equal')
        else:
            cal, tag = gen_cal(rng, count, min_spread=1.5 if kind == 'nox' else None)
        ei = gen_ei(rng) if kind == 'hcco' else gen_ei(rng, 1.0, 80.0)
        pts = []
        for ff in gen_ff_points(rng, cal, 12):
            T, P, _h = gen_ambient(rng)
            pts.append([ff, T, P])
        return {'kind': kind, 'cal': cal, 'ei': ei, 'pts': pts, 'k': k, 'tag': tag}
    if kind == 'sox':
        r = rng.random()
        fsc, eps = (600.0, 0.02) if r < 0.1 else (0.0, 0.0) if r < 0.2 else \
            (rng.uniform(0, 3000), rng.choice([0.0, 1.0, rng.uniform(0, 1), rng.uniform(0, 0.1)]))
        return {'kind': kind, 'fsc': float(fsc), 'eps': float(eps)}
    if kind == 'pmvol':
        n = 8
        return {'kind': kind, 'modes': [rng.choice(MODES) for _ in range(n)], 'ff': [rng.uniform(0, 3) for _ in range(n)],
                'thrust': [float(rng.choice([0.0, 7.0, 30.0, 85.0, 100.0, 120.0, rng.uniform(0, 110)])) for _ in range(n)],
                'hc': [float(rng.choice([0.0, rng.uniform(0, 30)])) for _ in range(n)], 'k': k}
    if kind == 'scope11':
        sn = [float(rng.choice([-1.0, 0.0, 45.0, 40.0, rng.uniform(0.2, 40), rng.uniform(0.2, 40), rng.uniform(0.2, 15)]))
              for _ in range(4)]
        return {'kind': kind, 'sn': sn, 'etype': rng.choice(['MTF', 'TF', 'TF', 'MTF', 'TP']),
                'bpr': float(rng.choice([0.0, rng.uniform(0.2, 12)]))}
    if kind == 'meem':
        allneg_sn = rng.random() < 0.06
        sn = [-1.0] * 4 if allneg_sn else [float(rng.uniform(0.3, 35)) for _ in range(4)]
        mass = [-1.0] * 4 if rng.random() < 0.4 else [float(math.exp(rng.uniform(math.log(0.5), math.log(300)))) for _ in range(4)]
        num = [-1.0] * 4 if rng.random() < 0.4 else [float(math.exp(rng.uniform(math.log(1e13), math.log(1e16)))) for _ in range(4)]
        edb = {'sn': sn, 'mass': mass, 'num': num, 'etype': rng.choice(['MTF', 'TF']), 'bpr': float(rng.uniform(0.3, 11)),
               'pr': float(rng.uniform(8, 45)),
               'mass_max': float(rng.uniform(1, 400)), 'mass_kind': rng.choice(['NoMax', 'NoMaxNeg', 'Max575', 'Max925']),
               'num_max': float(math.exp(rng.uniform(math.log(1e13), math.log(1e16)))),
               'num_kind': rng.choice(['NoMax', 'NoMaxNeg', 'Max575', 'Max925'])}
        for w in ('mass', 'num'):
            if O_PEAK[edb[w + '_kind']] is None and rng.random() < 0.6:
                edb[w + '_max'] = rng.choice([float('nan'), -1.0])
        n = rng.randint(5, 9)
        top = rng.uniform(2500, 13000)
        nc = rng.randint(1, n - 2)
        alts = [top * i / nc for i in range(nc)] + [top] * rng.randint(1, 2)
        while len(alts) < n:
            alts.append(max(0.0, alts[-1] - rng.uniform(200, 4000)))
        alts = alts[:n]
        pts = []
        for h in alts:
            pts.append([float(h), float(o_isa_T(h)), float(o_isa_p(h)), float(rng.uniform(0.0, 0.9))])
        return {'kind': kind, 'edb': edb, 'pts': pts, 'k': k}
    raise ValueError(kind)


# =============================================================================
# per-case judgement
# =============================================================================

def judge(chk: Check, c, impl, model, ext, nox_flat):
    """oracle on the implementation (-> chk.fail), then correspondence with the two Coq texts (-> chk.broken)."""
    k = c['kind']
    if 'error' in impl:
        if k == 'nox' and c.get('tag') == 'all-equal' and 'LinAlgError' in impl['error']:
            chk.case(c, True)
            return chk.fail(f"BFFM2_EINOx raised {impl['error']} for four equal calibration flows", {'case': c, 'impl': impl},
                            signature=FC12A)
        return chk.fail(f"{k}: implementation raised {impl['error']}", {'case': c, 'impl': impl}, signature=None)
    bad = None           # (description, signature)
    nontrivial = True

    def rel(a, b, tol=1e-9, abs_=0.0):
        return abs(a - b) <= tol * max(abs(a), abs(b)) + abs_

    if k == 'isa':
        for i, h in enumerate(c['h']):
            T, p, hb = impl['T'][i], impl['p'][i], impl['h_back'][i]
            if not finite_nonneg([T, p]) or not math.isfinite(hb):
                bad = (f'ISA not finite/non-negative at h={h}: T={T} p={p}', None)
            elif not rel(T, o_isa_T(h)) or not rel(p, o_isa_p(h)):
                bad = (f'ISA at h={h} m: implementation T={T} p={p}, cited equations T={o_isa_T(h)} p={o_isa_p(h)}', None)
            elif abs(hb - h) > 1e-6 + 1e-9 * h:
                bad = (f'h -> p -> h round trip at h={h}: got {hb}', None)
        for i, p in enumerate(c['p']):
            h2, pb = impl['h_of_p'][i], impl['p_back'][i]
            if not rel(h2, o_isa_h(p), 1e-9, 1e-6):
                bad = (f'altitude_from_pressure({p}) = {h2}, cited equations {o_isa_h(p)}', None)
            elif not rel(pb, p):
                bad = (f'p -> h -> p round trip at p={p}: got {pb}', None)
        chk.count('isa:stratosphere', sum(1 for h in c['h'] if h > 11000))
    elif k == 'atmos':
        for h, tas, (T, P, M) in zip(c['h'], c['tas'], impl['out']):
            want = (o_isa_T(h), o_isa_p(h), tas / math.sqrt(1.4 * O_R * o_isa_T(h)))
            if not finite_nonneg([T, P, M]) or not all(rel(a, b, 1e-9, 1e-15) for a, b in zip((T, P, M), want)):
                bad = (f'AtmosphericState at h={h} m, TAS={tas} m/s: implementation {(T, P, M)}, cited {want}', None)
    elif k == 'sound':
        for i, (h, T, p) in enumerate(zip(c['h'], c['T'], c['p'])):
            aT, ah, rho = impl['a_T'][i], impl['a_h'][i], impl['rho'][i]
            if not finite_nonneg([aT, ah, rho]):
                bad = (f'speed of sound / density not finite at h={h}: {(aT, ah, rho)}', None)
            elif not rel(aT, math.sqrt(1.4 * O_R * T), 1e-5) or not rel(ah, math.sqrt(1.4 * O_R * o_isa_T(h)), 1e-5):
                # the code uses R = 287.05 in the speed of sound (5e-6 relative below the ISA value): tolerance 1e-5
                bad = (f'speed of sound at T={T} / h={h}: {(aT, ah)} vs sqrt(kappa R T) = {math.sqrt(1.4 * O_R * T)}', None)
            elif not rel(rho, p / (O_R * T)):
                bad = (f'air density at p={p} T={T}: {rho} vs p/(R T) = {p / (O_R * T)}', None)
    elif k == 'shape':
        if impl['issues']:
            bad = ('results depend on the shape / dtype of the inputs: ' + ' | '.join(impl['issues'][:3]), None)
    elif k == 'cache':
        for i, (sn, et, bpr) in enumerate(c['seq']):
            want = [o_scope11(s_, j, bpr, et) for j, s_ in enumerate(sn)]
            for nme in ('profile', 'direct'):
                if not all(rel(a, b, 1e-9, 1e-15) for a, b in zip(impl[nme][i], want)):
                    bad = (f'cached SCOPE11 {nme} call #{i} (SN={sn}, {et}, BPR={bpr}) returned {impl[nme][i]}, cited {want}'
                           f' (sequence of calls in one process: {[(x[1], x[2]) for x in c["seq"][:i + 1]]})', None)
        for j, mname in enumerate(MODES):
            if not all(rel(impl['spec'][j][q_], O_SPEC[mname][q_]) for q_ in range(3)):
                bad = (f'NOx_speciation() after an attempted write: {impl["spec"][j]} for {mname}', None)
        chk.count('cache:returned-object-writable', sum(1 for w in impl['writable'] if w) + (1 if impl['spec_writable'] else 0))
    elif k == 'ffm2':
        for i, (ff, P, T, M) in enumerate(c['pts']):
            v, vk = impl['sls'][i], impl['sls_k'][i]
            want = o_ffm2(ff, P, T, M, c['n_eng'])
            if not finite_nonneg([v]):
                bad = (f'FFM2 result {v} not finite/non-negative', None)
            elif not rel(v, want):
                bad = (f'FFM2 Eq.40 at ff={ff} P={P} T={T} M={M} n={c["n_eng"]}: implementation {v}, cited {want}', None)
            elif not rel(vk, c['k'] * v):
                bad = (f'FFM2 not linear in fuel flow: f({c["k"]}*ff)={vk} vs {c["k"]}*f(ff)={c["k"] * v}', None)
    elif k == 'cat':
        got = impl['cat']
        for ff, g in zip(c['ff'], got):
            if g not in ('Idle', 'Approach', 'Climb'):
                bad = (f'thrust category {g!r} for ff={ff} is not one of idle/approach/climb', None)
            elif g != o_cat(ff, c['cal']):
                bad = (f'thrust category of ff={ff} with calibration {c["cal"]}: implementation {g}, documented rule {o_cat(ff, c["cal"])}', None)
        order = sorted(range(len(got)), key=lambda i: c['ff'][i])
        ranks = [MODES.index(got[i]) if got[i] in MODES else -1 for i in order]
        if any(a > b for a, b in zip(ranks, ranks[1:])):
            bad = (f'thrust category not monotone in fuel flow for calibration {c["cal"]}', None)
        nontrivial = len(set(got)) > 1
    elif k == 'nox':
        alleq = c.get('tag') == 'all-equal'
        for i, (ff, T, P) in enumerate(c['pts']):
            o, ok_ = impl['out'][i], impl['out_k'][i]
            cat = o_cat(ff, c['cal'])
            chk.count('nox:humidity_defined-hypothesis-' + ('holds' if o_humidity_defined(T, P) else 'FAILS'))
            if not finite_nonneg(o):
                bad = (f'BFFM2 NOx outputs not finite/non-negative at ff={ff}: {o}', None)
                break
            want = o_nox(ff, c['ei'], c['cal'], T, P, flat_when_degenerate=True)
            lin = all(rel(ok_[j], c['k'] * o[j]) for j in range(4))
            if alleq and (not lin or not rel(o[0], want)):
                bad = (f'BFFM2 NOx with four equal calibration flows {c["cal"][0]}: EI(k*cert) / EI(cert) = {ok_[0] / o[0] if o[0] else None} for k={c["k"]} at ff={ff}', FC12A)
                break
            if not rel(o[0], want):
                bad = (f'BFFM2 NOx at ff={ff} T={T} P={P}: implementation {o[0]}, cited equations {want}', None)
            elif not lin:
                bad = (f'BFFM2 NOx not linear in certification EI: k={c["k"]} ff={ff}: {ok_[:4]} vs k*{o[:4]}', None)
            elif not all(rel(o[4 + j], O_SPEC[cat][j]) for j in range(3)):
                bad = (f'NOx speciation for category {cat}: {o[4:]} vs cited {O_SPEC[cat]}', None)
            elif not rel(o[1] + o[2] + o[3], o[0]) or not all(rel(o[1 + j], o[0] * O_SPEC[cat][j]) for j in range(3)):
                bad = (f'NO+NO2+HONO != NOx at ff={ff}: {o[:4]}', None)
    elif k == 'hcco':
        c['_near'] = []
        for i, (ff, T, P) in enumerate(c['pts']):
            v, vk = impl['out'][i], impl['out_k'][i]
            want, margin, lmag = o_hcco(ff, c['ei'], c['cal'], T, P)
            if abs(lmag) > 250:
                chk.count('hcco:beyond-binary64-range')
                continue
            if not finite_nonneg([v]):
                bad = (f'HC/CO index {v} not finite/non-negative at ff={ff} (ei={c["ei"]}, cal={c["cal"]})', None)
                break
            if not rel(vk, c['k'] * v, 1e-9):
                bad = (f'HC/CO not linear in certification EI: k={c["k"]} ff={ff}: {vk} vs {c["k"] * v}', None)
            if want is None:
                chk.count('hcco:zero-flow-structural-only')
                continue
            if margin < 1e-7:
                chk.count('hcco:oracle-abstains-near-boundary')
                c.setdefault('_near', []).append(i)
                continue
            if not rel(v, want, 1e-8):
                bad = (f'HC/CO bilinear fit at ff={ff} T={T} P={P} ei={c["ei"]} cal={c["cal"]}: implementation {v}, cited rules {want}', None)
    elif k == 'sox':
        o = impl['out']
        w = o_sox(c['fsc'], c['eps'])
        s_atoms = o[1] * 32.0 / 64.0 + o[2] * 32.0 / 96.0
        if not finite_nonneg(o):
            bad = (f'SOx indices not finite/non-negative: {o}', None)
        elif not all(rel(a, b, 1e-9, 1e-15) for a, b in zip(o, w)):
            bad = (f'SOx for FSC={c["fsc"]} ppm, yield={c["eps"]}: implementation {o}, stoichiometry {w}', None)
        elif not rel(s_atoms, c['fsc'] / 1000.0, 1e-9, 1e-15) or not rel(o[0], o[1] + o[2], 1e-12, 1e-15):
            bad = (f'sulfur not conserved: {s_atoms} g S/kg out vs {c["fsc"] / 1000.0} in', None)
        nontrivial = c['fsc'] > 0
    elif k == 'pmvol':
        for m, a, b in zip(c['modes'], impl['ff_pm'], impl['ff_oc']):
            want = 0.02 / (1 - (0.15 if m == 'Idle' else 0.5))
            if not finite_nonneg([a, b]) or not rel(a, want) or not rel(b, 0.02):
                bad = (f'fuel-flow PMvol for mode {m}: ({a}, {b}) vs cited ({want}, 0.02)', None)
        for t, h, v, oc, vk in zip(c['thrust'], c['hc'], impl['foa3'], impl['foa3_oc'], impl['foa3_k']):
            if not finite_nonneg([v]) or not rel(v, o_foa3(t, h), 1e-9, 1e-15) or oc != v:
                bad = (f'FOA3 at thrust={t}% HC={h}: implementation {v}, cited {o_foa3(t, h)}', None)
            elif not rel(vk, c['k'] * v, 1e-9, 1e-15):
                bad = (f'FOA3 not linear in HC EI: {vk} vs {c["k"] * v}', None)
    elif k == 'scope11':
        for i, (sn, v) in enumerate(zip(c['sn'], impl['out'])):
            want = o_scope11(sn, i, c['bpr'], c['etype'])
            if not finite_nonneg([v]) or not rel(v, want, 1e-9, 1e-15):
                bad = (f'SCOPE11 mode {MODES[i]} SN={sn} {c["etype"]} BPR={c["bpr"]}: implementation {v}, cited {want}', None)
        nontrivial = any(s > 0 for s in c['sn'])
    elif k == 'meem':
        e = c['edb']
        hmax = max(p[0] for p in c['pts'])
        for i, (o, om, on) in enumerate(zip(impl['out'], impl['out_mass_k'], impl['out_num_k'])):
            if not finite_nonneg(o):
                # narrow signature of FC12b: a climbing point whose linearly extrapolated pressure coefficient
                # 0.85 + 0.30 (h - 3000) / max(1, hmax - 3000) makes the combustor pressure 1 + c (PR - 1) <= 0
                h, hp = c['pts'][i][0], c['pts'][max(i - 1, 0)][0]
                coef = 0.85 + 0.30 * (h - 3000.0) / max(1.0, hmax - 3000.0)
                sig = FC12B if (h > hp and h < 3000.0 and 1.0 + coef * (e['pr'] - 1.0) <= 0.0
                                and all(math.isnan(x) for x in o)) else None
                bad = (f'MEEM outputs not finite/non-negative at point {i} (h={h} m, top {hmax} m, PR={e["pr"]}): {o}', sig)
                break
            if min(e['mass']) > 0 and not (rel(om[1], c['k'] * o[1]) and rel(om[0], o[0])):
                bad = (f'MEEM mass index not linear in the certification mass indices: {om[1]} vs {c["k"] * o[1]}', None)
            if min(e['num']) > 0 and not rel(on[2], c['k'] * o[2]):
                bad = (f'MEEM number index not linear in the certification number indices: {on[2]} vs {c["k"] * o[2]}', None)
        if bad is None:
            # the published steps, with the number grid built at the NUMBER peak thrust point and the mass grid at the
            # MASS peak thrust point (the two peaks of an engine need not sit at the same point, either may be absent)
            want = o_meem(e, c['pts'])
            names = ('GMD', 'mass index', 'number index')
            eq_bad = None
            for i, (o, w) in enumerate(zip(impl['out'], want)):
                if w is None:
                    continue
                for j in (2, 1, 0):
                    if not rel(o[j], w[j], 1e-9, 1e-300):
                        # The property asks MEEM for finite, non-negative, linearly scaling indices only - not for
                        # agreement with the published equations.  A departure from them is therefore reported as a
                        # broken correspondence (no failing input OF THE PROPERTY), never as a property failure.
                        eq_bad = (f'MEEM {names[j]} at point {i} (h={c["pts"][i][0]} m, Mach {c["pts"][i][3]}; mass peak '
                                  f'{e["mass_kind"]}={e["mass_max"]}, number peak {e["num_kind"]}={e["num_max"]}): '
                                  f'implementation {o[j]}, published steps {w[j]}')
                        break
                if eq_bad is not None:
                    chk.broken('correspondence:published-MEEM-steps (plain-float recomputation)', eq_bad, {'case': c})
                    break
            chk.count(f'meem-peaks:{O_PEAK[e["mass_kind"]]}/{O_PEAK[e["num_kind"]]}')
        nontrivial = max(e['sn']) >= 0

    if bad is None and k in ('nox', 'hcco'):
        if not impl.get('inputs_untouched', True):
            bad = (f'{k}: the function modified its input arrays / certification values in place', None)
        elif not impl.get('repeatable', True):
            bad = (f'{k}: a second call with the same arguments returned different values', None)
    chk.case(c, nontrivial)
    chk.count('kind:' + k)
    if bad is not None:
        if chk.fail(bad[0], {'case': c, 'impl': impl}, signature=bad[1]) != 'known':
            return None
        chk.count('known-finding-case:' + k)      # a known finding: the faithful Impl model must still agree

    # ---- correspondence --------------------------------------------------------------------------------
    ok = True
    if model is not None:
        d = diff_model(c, impl, model)
        if d:
            chk.broken(f'correspondence:C12_Model.{k}', d, c)
            ok = False
    if ext is not None:
        d = diff_ext(c, impl, ext)
        if d:
            chk.broken(f'correspondence:C12_Extracted.{k}', d, c)
            ok = False
    if ok and model is not None:
        chk.traces_validated += 1
    return None


def _cl(a, b, rel=1e-9, abs_=1e-300):
    return close(a, b, rel=rel, scale=abs_ / 1e-12 if abs_ else 0.0)


def diff_model(c, impl, m):
    k = c['kind']
    try:
        if k == 'isa':
            a, b = m
            for i, (T, p, hb) in enumerate(a):
                if not (_cl(T, impl['T'][i]) and _cl(p, impl['p'][i]) and close(hb, impl['h_back'][i], 1e-9, 1e6)):
                    return f'h={c["h"][i]}: model {(T, p, hb)} vs impl {(impl["T"][i], impl["p"][i], impl["h_back"][i])}'
            for i, (h2, pb) in enumerate(b):
                if not (close(h2, impl['h_of_p'][i], 1e-9, 1e6) and _cl(pb, impl['p_back'][i])):
                    return f'p={c["p"][i]}: model {(h2, pb)} vs impl {(impl["h_of_p"][i], impl["p_back"][i])}'
        elif k == 'atmos':
            for i, v in enumerate(m):
                if not all(_cl(x, y) for x, y in zip(v, impl['out'][i])):
                    return f'h={c["h"][i]} tas={c["tas"][i]}: model {v} vs impl {impl["out"][i]}'
        elif k == 'ffm2':
            for i, v in enumerate(m):
                if not _cl(v, impl['sls'][i]):
                    return f'pt {c["pts"][i]}: model {v} vs impl {impl["sls"][i]}'
        elif k == 'cat':
            if list(m) != impl['cat']:
                return f'model {m} vs impl {impl["cat"]}'
        elif k == 'nox':
            for i, v in enumerate(m):
                if not all(_cl(x, y) for x, y in zip(v, impl['out'][i])):
                    return f'pt {c["pts"][i]}: model {v} vs impl {impl["out"][i]}'
        elif k == 'hcco':
            for i, v in enumerate(m):
                if i in c.get('_near', ()):      # within rounding of a discontinuity: log10 implementations may differ
                    continue
                if not _cl(v, impl['out'][i]):
                    return f'pt {c["pts"][i]}: model {v} vs impl {impl["out"][i]}'
        elif k in ('sox', 'scope11'):
            if not all(close(x, y, 1e-9, 1e-3) for x, y in zip(m, impl['out'])):
                return f'model {m} vs impl {impl["out"]}'
        elif k == 'pmvol':
            a, b = m
            for i, (pm, oc) in enumerate(a):
                if not (_cl(pm, impl['ff_pm'][i]) and _cl(oc, impl['ff_oc'][i])):
                    return f'fuel-flow mode {c["modes"][i]}: model {(pm, oc)} vs impl {(impl["ff_pm"][i], impl["ff_oc"][i])}'
            for i, (pm, oc) in enumerate(b):
                if not (close(pm, impl['foa3'][i], 1e-9, 1e-3) and close(oc, impl['foa3_oc'][i], 1e-9, 1e-3)):
                    return f'FOA3 thrust {c["thrust"][i]}: model {pm} vs impl {impl["foa3"][i]}'
        elif k == 'meem':
            for i, v in enumerate(m):
                if not all(_cl(x, y) for x, y in zip(v, impl['out'][i])):
                    return f'pt {i} {c["pts"][i]}: model {v} vs impl {impl["out"][i]}'
    except Exception as e:  # noqa: BLE001
        return f'cannot compare model output {str(m)[:200]}: {e}'
    return ''


def diff_ext(c, impl, x):
    k = c['kind']
    if k in ('isa', 'atmos', 'ffm2', 'cat', 'nox', 'sox', 'pmvol', 'scope11', 'meem'):
        return diff_model(c, impl, x)
    if k == 'sound':
        for i, (aT, ah, rho) in enumerate(x):
            if not (_cl(aT, impl['a_T'][i]) and _cl(ah, impl['a_h'][i]) and _cl(rho, impl['rho'][i])):
                return f'h={c["h"][i]} T={c["T"][i]}: extracted {(aT, ah, rho)} vs impl {(impl["a_T"][i], impl["a_h"][i], impl["rho"][i])}'
        return ''
    if k == 'hcco':
        slope, facs = x
        if slope != -52.0:
            pass        # the value itself is pinned by the link lemma; here: numeric sanity of the cruise factor
        for (ff, T, P), f in zip(c['pts'], facs):
            want = math.pow(T / 288.15, 3.3) / math.pow(P / 101325.0, 1.02)
            if not _cl(f, want):
                return f'extracted cruise factor at T={T} P={P}: {f} vs {want}'
    return ''


# =============================================================================
# FloatMath self-check
# =============================================================================

def floatmath_selfcheck(chk: Check):
    rng = chk.rng
    xs_exp = [0.0, 1.0, -1.0, 700.0, -700.0] + [rng.uniform(-50, 50) for _ in range(120)] + [rng.uniform(-1, 1) for _ in range(60)]
    xs_ln = [1.0, 10.0, 0.5, 1e-300, 1e300] + [math.exp(rng.uniform(-40, 40)) for _ in range(120)] + [rng.uniform(0.5, 2) for _ in range(60)]
    xs_tr = [0.0, math.pi / 2, math.pi, -math.pi / 4] + [rng.uniform(-20, 20) for _ in range(150)]
    exprs = [f'map fexp {lst(fl(x) for x in xs_exp)}', f'map fln {lst(fl(x) for x in xs_ln)}',
             f'map fsin {lst(fl(x) for x in xs_tr)}', f'map fcos {lst(fl(x) for x in xs_tr)}']
    r = chk.coq_eval(HEADER_MODEL, exprs, label='floatmath')
    if any(v is None for v in r):
        return
    worst = 0.0
    for nme, xs, vals, f, absol in (('exp', xs_exp, r[0], math.exp, False), ('ln', xs_ln, r[1], math.log, True),
                                    ('sin', xs_tr, r[2], math.sin, True), ('cos', xs_tr, r[3], math.cos, True)):
        for x, v in zip(xs, vals):
            w = f(x)
            err = abs(v - w) / (max(abs(w), 1.0) if absol else abs(w))
            worst = max(worst, err)
            if err > 1e-13:
                chk.broken(f'floatmath:{nme}', f'{nme}({x!r}) = {v!r} in Coq vs {w!r} in libm (error {err:.2e})')
                return
    chk.obligations.append({'name': 'floatmath-selfcheck(exp,ln,sin,cos vs libm)', 'ok': True, 'axioms': []})
    chk.notes['floatmath_worst_error'] = worst


# =============================================================================
# run / replay
# =============================================================================

def extract(chk: Check):
    from translator import c12_extract, py2coq
    try:
        text = c12_extract.extract_c12(REPO)
    except py2coq.Untranslatable as e:
        chk.obligations.append({'name': 'extract:C12 kernels', 'ok': False})
        chk.broken('extract:C12 kernels', str(e))
        return False
    chk.obligations.append({'name': 'extract:C12 kernels (constants, ISA, SOx, FFM2, thrust categories, NOx pieces, '
                                    'HC/CO pieces, PMvol, SCOPE11)', 'ok': True, 'axioms': []})
    if chk.coq_compile_gen('C12_Extracted', text) is None:
        return False
    if not chk.coq_link('C12_Link.v'):
        name_failed_link_theorem(chk)
    return True


def name_failed_link_theorem(chk: Check):
    """coqc stops at the first obligation of link/C12_Link.v that no longer holds: name it."""
    import re
    detail = chk.breaks[-1]['detail'] if chk.breaks else ''
    m = re.findall(r'C12_Link\.v", line (\d+)', detail)
    if not m:
        return
    line = int(m[-1])
    src = (VERIF / 'coq' / 'link' / 'C12_Link.v').read_text().splitlines()
    name = None
    for ln in src[:line]:
        mm = re.match(r'\s*(Theorem|Lemma)\s+([\w\']+)', ln)
        if mm:
            name = mm.group(2)
    if name:
        err = detail[detail.rfind('Error'):][:400] if 'Error' in detail else detail[-400:]
        chk.breaks.insert(0, {'what': f'link-theorem:{name}', 'detail': f'obligation {name} (link/C12_Link.v line {line}) no '
                              f'longer holds for the text regenerated from the source: {err}', 'case': None})
        from harness.common import log
        log(f'[C12] BROKEN link-theorem:{name} (line {line})')


def detect_nox_flat():
    """Which behaviour does the tree have for four equal calibration flows?  True = flat line (repaired)."""
    c = {'kind': 'nox', 'cal': [0.5] * 4, 'ei': [30.0, 25.0, 20.0, 18.0], 'pts': [[0.25, 288.15, 101325.0]], 'k': 2.0}
    r = impl_case(c)
    if 'error' in r:
        return False
    return abs(r['out_k'][0][0] - 2.0 * r['out'][0][0]) <= 1e-9 * abs(r['out_k'][0][0])


def check_cases(chk: Check, cases, have_ext):
    nox_flat = detect_nox_flat()
    chk.notes['bffm2_nox_degenerate_fit'] = 'flat line (repaired)' if nox_flat else 'numpy minimum-norm polyfit (finding FC12a)'
    variant = 'DegFlat' if nox_flat else 'DegMinNorm'
    impls = [impl_case(c) for c in cases]
    models = [None] * len(cases)
    midx = [i for i, c in enumerate(cases) if model_expr(c, variant) is not None]
    for i, v in zip(midx, chk.coq_eval(HEADER_MODEL, [model_expr(cases[i], variant) for i in midx], shard=60, label='model')):
        models[i] = v
    exts = [None] * len(cases)
    if have_ext:
        idx = [i for i, c in enumerate(cases) if ext_expr(c, variant) is not None]
        vals = chk.coq_eval(HEADER_EXT, [ext_expr(cases[i], variant) for i in idx], shard=60, label='ext')
        for i, v in zip(idx, vals):
            exts[i] = v
    for c, i, m, x in zip(cases, impls, models, exts):
        judge(chk, c, i, m, x, nox_flat)


KINDS = [('isa', 30, 300), ('atmos', 20, 200), ('sound', 10, 100), ('shape', 30, 300), ('cache', 10, 100), ('ffm2', 40, 400), ('cat', 120, 1500), ('nox', 220, 3000), ('hcco', 320, 4500),
         ('sox', 40, 300), ('pmvol', 30, 300), ('scope11', 100, 1200), ('meem', 100, 1200)]


def load_corpus(chk):
    out = []
    for f in sorted((VERIF / 'corpus' / chk.pid).glob('*.json')):
        d = json.loads(f.read_text())
        out.append(d.get('case', d))
    return out


def run(chk: Check):
    chk.rule = ('per function, seeded cases over the whole range: ISA altitudes 0-25 km (incl. the tropopause and both '
                'layers) and pressures; FFM2 at fuel flow 0-4 kg/s, Mach 0-0.95; certification sets with positive, '
                'equal-neighbour, fully equal and permuted (non-monotone) fuel flows and log-uniform indices; evaluation '
                'flows 0, 1e-3 x idle, the calibration flows themselves, the category midpoints, up to 1.3 x the largest; '
                'ISA and off-ISA ambient states; both shipped fuels and random fuels; SCOPE11 smoke numbers incl. -1, 0, '
                '> 40; MEEM engines with given / reconstructed mass and number indices and all three max-thrust layouts, chosen '
                'independently for the mass and the number index (peaks at different thrust points, only one peak present; an '
                'absent peak carries a number, NaN or -1), compared with a plain-float recomputation of the published steps '
                'along climb-cruise-descent profiles.  non-trivial = more than one thrust category hit / positive sulfur / '
                'some valid smoke number; every case evaluates 8-12 points')
    chk.trusted += ['translator/py2coq.py:NumModule + translator/c12_extract.py (pointwise reading of elementwise numpy code)',
                    'harness/c12.py: generators, tolerance 1e-9 relative, plain-Python oracle of the cited equations',
                    'lib/FloatMath.v exp/ln/sin/cos: compared with libm on a sweep every run (<= 1e-13)',
                    'numpy.polyfit (SVD least squares) = closed-form least-squares line, numpy.interp = piecewise-linear '
                    'interpolation: exercised in the correspondence, not modelled beyond that']
    chk.assumptions += ['theorems are over the reals; binary64 overflow/rounding is covered by the correspondence and the '
                        'finiteness checks only (HC/CO points whose exact value lies outside 1e+-250 are skipped)',
                        'ambient states are physical (T > 0, P > 0.6 x saturation pressure)',
                        'MEEM: number index presumes positive reference mass index (0/0 otherwise) — outside the '
                        'quantifier (positive certification data)']
    chk.coq_props('props/C12_Props.v')
    have_ext = extract(chk)
    floatmath_selfcheck(chk)
    cases = load_corpus(chk)
    for kind, nq, nt in KINDS:
        cases += [gen_case(chk.rng, kind, chk.count) for _ in range(chk.n(nq, nt))]
    check_cases(chk, cases, have_ext)


def replay(chk: Check, rp):
    chk.coq_props('props/C12_Props.v')
    have_ext = extract(chk)
    case = (rp.get('case') or {})
    case = case.get('case', case)
    if case and 'kind' in case:
        check_cases(chk, [case], have_ext)

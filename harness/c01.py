"""C01 — emissions inventory balances (totals = parts, parts = EI x fuel, fuel counted once,
NOx / SOx speciation sums, finite and non-negative).

Tie:    translator (translator/c01_extract.py) regenerates Gen.C01_Extracted from ei/nox.py, ei/sox.py,
        gse.py, apu.py, lto.py, units.py on every run; link/C01_Link.v re-proves the property laws on
        that text and its equality with the constants of the hand model.
        Correspondence: compute_emissions on seeded (trajectory, fuel, LTO/EDB, APU, class, config)
        vs `run_case` of coq/model/C01_Model.v evaluated by vm_compute at binary64 inside Coq; the
        implementation's emission-index arrays of the EI *methods* (C12's subject) are fed to the model.
Oracle: independent re-summation (math.fsum / exact fractions) of every clause of the property on the
        returned Emissions object.
"""

from __future__ import annotations

import json
import math
import tomllib
import warnings
from fractions import Fraction
from pathlib import Path

from harness.common import REPO, VERIF, Check, Raw, close, coq_float

COQ_TARGETS = ['model/C11_Model.v']

SPECIES = ['CO2', 'H2O', 'HC', 'CO', 'NOx', 'NO', 'NO2', 'HONO', 'PMnvol', 'PMnvolGMD', 'PMvol', 'OCic',
           'SOx', 'SO2', 'SO4', 'PMnvolN']
MODES = ['idle', 'approach', 'climb', 'takeoff']

# the 13 documented options and their values (config/emissions.py, data/default_config.toml)
OPTIONS = {
    'climb_descent_mode': ['trajectory', 'lto'],
    'co2_enabled': [True, False], 'h2o_enabled': [True, False], 'sox_enabled': [True, False],
    'nox_method': ['bffm2', 'p3t3', 'none'], 'hc_method': ['bffm2', 'p3t3', 'none'],
    'co_method': ['bffm2', 'p3t3', 'none'],
    'pmvol_method': ['fuel_flow', 'foa3', 'none'],
    'pmnvol_method': ['meem', 'scope11', 'foa3', 'none'],
    'apu_enabled': [True, False], 'gse_enabled': [True, False], 'lifecycle_enabled': [True, False],
}
DEFAULT_CFG = {'climb_descent_mode': 'trajectory', 'co2_enabled': True, 'h2o_enabled': True, 'sox_enabled': True,
               'nox_method': 'bffm2', 'hc_method': 'bffm2', 'co_method': 'bffm2', 'pmvol_method': 'fuel_flow',
               'pmnvol_method': 'meem', 'apu_enabled': True, 'gse_enabled': True, 'lifecycle_enabled': True}

# ICAO standard LTO times in mode [s] (Annex 16 Vol II): taxi/idle 26 min, approach 4 min, climb-out 2.2 min,
# take-off 0.7 min — the oracle's own copy, not read from the code.
ICAO_TIM = {'idle': Fraction(26 * 60), 'approach': Fraction(4 * 60), 'climb': Fraction(22 * 60, 10),
            'takeoff': Fraction(7 * 60, 10)}
APU_TIME = 900            # Stettler et al. 2011 (apu.py docstring): 900 s


# ---------------------------------------------------------------------------
# generation
# ---------------------------------------------------------------------------

def gen_config(rng):
    return {k: rng.choice(v) for k, v in OPTIONS.items()}


def gen_trajectory(rng):
    r = rng.random()
    if r < 0.62:
        n = rng.randint(2, 24)
    elif r < 0.9:
        n = rng.randint(25, 120)
    else:
        n = rng.randint(121, 400)
    if rng.random() < 0.04:
        n = 1
    f0 = rng.uniform(800.0, 60000.0)
    fm = [f0]
    plateau = rng.random() < 0.5
    for i in range(1, n):
        if plateau and rng.random() < 0.18:
            step = 0.0                                   # zero-burn segment
        else:
            step = rng.uniform(0.05, 1.0) * f0 * 0.6 / max(n, 2)
        fm.append(max(fm[-1] - step, 0.0))
    # altitude: climb / cruise (possibly stratospheric) / descent
    cruise_alt = rng.choice([3000.0, 9000.0, 10972.8, 11000.0, 11500.0, 12500.0, 13100.0])
    k1 = rng.randint(0, n) if n > 2 else 0
    k2 = rng.randint(k1, n)
    alt, tas, ff = [], [], []
    for i in range(n):
        if i < k1:
            a = cruise_alt * (i + 0.5) / max(k1, 1)
            t = 110.0 + 120.0 * (i + 0.5) / max(k1, 1)
            f = rng.uniform(0.6, 2.6)
        elif i < k2:
            a = cruise_alt + rng.choice([0.0, 0.0, 300.0, -300.0])
            t = rng.uniform(200.0, 255.0)
            f = rng.uniform(0.35, 1.4)
        else:
            a = cruise_alt * (n - i - 0.5) / max(n - k2, 1)
            t = 230.0 - 110.0 * (i - k2 + 0.5) / max(n - k2, 1)
            f = rng.uniform(0.06, 0.5)
        alt.append(max(a, 0.0))
        tas.append(t)
        ff.append(f)
    if rng.random() < 0.08:                              # fuel-flow column with zero / negative / tiny entries
        for _ in range(rng.randint(1, max(1, n // 3))):
            ff[rng.randrange(n)] = rng.choice([0.0, 0.0, -rng.uniform(0.001, 0.2), 1e-12, 1e-6, 1e-3])
    pick = lambda: rng.choice([0, 1, n, rng.randint(0, n), rng.randint(0, max(n // 3, 0))])  # noqa: E731
    ncl, nde = pick(), pick()
    if rng.random() < 0.7 and ncl + nde > n:             # mostly consistent phase splits, some overlapping
        nde = n - ncl
    if rng.random() < 0.04:                              # counts outside [0, n]: Python slice semantics apply
        ncl, nde = rng.choice([(ncl, n + rng.randint(1, n + 2)), (n + rng.randint(1, 5), nde), (-rng.randint(1, n + 1), nde),
                               (ncl, -rng.randint(1, 4))])
    return {'fuel_mass': fm, 'altitude': alt, 'tas': tas, 'fuel_flow': ff, 'n_climb': ncl, 'n_descent': nde}


def shape_trajectories():
    """Deliberate trajectory shapes (name, trajectory): empty accounting window (n_climb + n_descent == n, a hop
    without cruise points), window of exactly one point, n_climb = 0, n_descent = 0, both 0, 1-3 point
    trajectories, zero-burn segments / an all-zero-burn trajectory.  Cruise at 10-11 km so that the MEEM
    low-altitude degeneracy (FC01a) does not mask what the shape is meant to exercise."""
    def mk(n, ncl, nde, flat=False, plateau=()):
        fm, alt, tas, ff = [], [], [], []
        up = max(1, n // 2)
        for i in range(n):
            burn = 0.0 if (flat or i in plateau or i == 0) else 40.0 / n + 1.5 * (i % 3)
            fm.append((fm[-1] if fm else 1500.0) - burn)
            frac = min(i / up, (n - 1 - i) / max(n - 1 - up, 1)) if n > 1 else 0.0
            alt.append(10500.0 * max(0.0, min(1.0, frac)) if n > 2 else (0.0 if i == 0 else 9500.0))
            tas.append(120.0 + 110.0 * max(0.0, min(1.0, frac)))
            ff.append(0.9 if i < up else 0.25)
        return {'fuel_mass': fm, 'altitude': alt, 'tas': tas, 'fuel_flow': ff, 'n_climb': ncl, 'n_descent': nde}
    return [('empty-window-6', mk(6, 3, 3)), ('one-point-window-6', mk(6, 2, 3)), ('no-climb-6', mk(6, 0, 2)),
            ('no-descent-6', mk(6, 2, 0)), ('no-climb-no-descent-6', mk(6, 0, 0)), ('all-climb-6', mk(6, 6, 0)),
            ('all-descent-6', mk(6, 0, 6)), ('three-points-one-in-window', mk(3, 1, 1)),
            ('three-points-empty-window', mk(3, 2, 1)), ('two-points-empty-window', mk(2, 1, 1)),
            ('two-points-full-window', mk(2, 0, 0)), ('single-point', mk(1, 0, 0)),
            ('single-point-empty-window', mk(1, 0, 1)), ('plateau-in-window-8', mk(8, 2, 2, plateau=(3, 4))),
            ('all-zero-burn-5', mk(5, 1, 1, flat=True)), ('empty-window-40', mk(40, 20, 20)),
            ('one-point-window-40', mk(40, 19, 20)),
            # phase counts no builder produces but the attribute API / stored files can carry: Python slice semantics
            ('descent-count-beyond-length-6', mk(6, 1, 8)), ('climb-count-beyond-length-6', mk(6, 9, 0)),
            ('negative-climb-count-6', mk(6, -2, 1)), ('negative-descent-count-6', mk(6, 1, -3)),
            ('both-counts-beyond-length-6', mk(6, 7, 13))] + [
        # point-wise fuel FLOW zero / negative / tiny at in-window points while the fuel MASS still drops over the
        # segments ending there (the two columns are independent inputs; e.g. an idle-descent point reported with 0 flow)
        (name, {**mk(n, ncl, nde), 'fuel_flow': ff}) for name, n, ncl, nde, ff in (
            ('zero-fuel-flow-points-8', 8, 2, 2, [0.9, 0.8, 0.0, 0.7, 0.0, 0.0, 0.3, 0.2]),
            ('negative-fuel-flow-point-8', 8, 2, 2, [0.9, 0.8, 0.7, -0.05, 0.6, 0.5, 0.3, 0.2]),
            ('tiny-fuel-flow-points-8', 8, 1, 1, [0.9, 1e-9, 1e-12, 0.7, 1e-3, 0.5, 1e-6, 0.2]),
            ('all-zero-fuel-flow-5', 5, 0, 0, [0.0, 0.0, 0.0, 0.0, 0.0]),
            ('zero-fuel-flow-first-and-last-6', 6, 0, 0, [0.0, 0.9, 0.8, 0.7, 0.3, 0.0]))]


def shape_cases(rng):
    """every shape x both accounting modes x every PMnvol and PMvol method (the rest of the case random)"""
    out = []
    for _name, traj in shape_trajectories():
        for mode in OPTIONS['climb_descent_mode']:
            for pn in OPTIONS['pmnvol_method']:
                for pv in OPTIONS['pmvol_method']:
                    if mode == 'trajectory' and rng.random() < 0.6:
                        continue                                   # the window only matters under lto accounting
                    c = gen_case(rng)
                    c['traj'] = traj
                    c['cfg'] = {**c['cfg'], 'climb_descent_mode': mode, 'pmnvol_method': pn, 'pmvol_method': pv}
                    out.append(c)
    return out


def gen_lto(rng):
    ff0 = rng.uniform(0.05, 0.3)
    ff = [ff0, ff0 * rng.uniform(2.2, 3.5), ff0 * rng.uniform(6.5, 9.5), ff0 * rng.uniform(10.0, 12.5)]
    nox0 = rng.uniform(2.5, 6.0)
    nox = [nox0, nox0 * rng.uniform(1.6, 2.6), nox0 * rng.uniform(3.5, 6.0), nox0 * rng.uniform(6.1, 9.0)]
    hc0 = rng.uniform(0.5, 8.0)
    hc = [hc0, hc0 * rng.uniform(0.02, 0.3), hc0 * rng.uniform(0.005, 0.019), hc0 * rng.uniform(0.004, 0.019)]
    co0 = rng.uniform(10.0, 45.0)
    co = [co0, co0 * rng.uniform(0.05, 0.3), co0 * rng.uniform(0.004, 0.04), co0 * rng.uniform(0.004, 0.04)]
    sn = sorted(rng.uniform(1.0, 18.0) for _ in range(4))
    if rng.random() < 0.5:
        mass = sorted(rng.uniform(0.3, 90.0) for _ in range(4))
        num = sorted(rng.uniform(1e13, 6e14) for _ in range(4))
    else:
        mass = [-1.0] * 4                                   # "not measured": reconstructed from smoke number
        num = [-1.0] * 4
    return {'fuel_flow': ff, 'EI_NOx': nox, 'EI_HC': hc, 'EI_CO': co, 'thrust_pct': [7.0, 30.0, 85.0, 100.0],
            'SN': sn, 'nvPM_mass': mass, 'nvPM_num': num, 'PR': rng.uniform(15.0, 42.0),
            'BPR': rng.uniform(0.5, 11.0), 'engine_type': rng.choice(['TF', 'MTF']),
            'EImass_max': max(mass) if mass[0] > 0 else -1.0,
            'EImass_max_thrust': rng.choice([-1.0, 0.575, 0.925]) if mass[0] > 0 else -1.0,
            'EInum_max': max(num) if num[0] > 0 else -1.0,
            'EInum_max_thrust': rng.choice([-1.0, 0.575, 0.925]) if num[0] > 0 else -1.0,
            'n_eng': rng.choice([2, 2, 3, 4])}


_APUS = None


def shipped_apus():
    global _APUS
    if _APUS is None:
        with open(REPO / 'src/AEIC/data/engines/APU_data.toml', 'rb') as fp:
            _APUS = tomllib.load(fp).get('APU', [])
    return _APUS


def gen_apu(rng):
    r = rng.random()
    if r < 0.12:
        return None
    if r < 0.22:
        return {'kind': 'unknown', 'fuel_kg_per_s': 0.0, 'NOx_g_per_kg': 0.0, 'CO_g_per_kg': 0.0,
                'HC_g_per_kg': 0.0, 'PM10_g_per_kg': 0.0}
    if r < 0.8:
        a = rng.choice(shipped_apus())
        return {'kind': a['name'], **{k: float(a[k]) for k in
                                      ('fuel_kg_per_s', 'NOx_g_per_kg', 'CO_g_per_kg', 'HC_g_per_kg', 'PM10_g_per_kg')}}
    return {'kind': 'random', 'fuel_kg_per_s': rng.uniform(0.005, 0.09), 'NOx_g_per_kg': rng.uniform(1.0, 12.0),
            'CO_g_per_kg': rng.uniform(0.5, 40.0), 'HC_g_per_kg': rng.uniform(0.05, 6.0),
            'PM10_g_per_kg': rng.choice([0.0, rng.uniform(0.0, 0.04), rng.uniform(0.03, 0.6)])}


def carbon_ok(a):
    """the hypothesis of C01_amounts_nonneg_partial on an APU record (proofs/C01_Proofs.v:carbon_ok)"""
    return ((44 / 28) * a['CO_g_per_kg'] + (44 / (82 / 5)) * a['HC_g_per_kg']
            + ((44 / (55 / 4)) * 0.05 + (44 / 12) * 0.95 * 0.95) * a['PM10_g_per_kg']) <= 3160


def gen_fuel(rng):
    r = rng.random()
    if r < 0.4:
        return {'name': 'Jet-A', 'energy_MJ_per_kg': 43.2, 'EI_H2O': 1233.3865, 'EI_CO2': 3155.6,
                'non_volatile_carbon_fraction': 0.95, 'lifecycle_CO2': 89.0, 'fuel_sulfur_content_nom': 600.0,
                'sulfate_yield_nom': 0.02}
    if r < 0.55:
        return {'name': 'SAF', 'energy_MJ_per_kg': 44.1, 'EI_H2O': 1356.72515, 'EI_CO2': 3155.6,
                'non_volatile_carbon_fraction': 0.95, 'lifecycle_CO2': None, 'fuel_sulfur_content_nom': 0.0,
                'sulfate_yield_nom': 0.0}
    return {'name': 'random', 'energy_MJ_per_kg': rng.uniform(40.0, 46.0), 'EI_H2O': rng.uniform(1100.0, 1450.0),
            'EI_CO2': rng.uniform(2900.0, 3250.0), 'non_volatile_carbon_fraction': 0.95,
            'lifecycle_CO2': rng.choice([None, rng.uniform(10.0, 95.0), 0.0]),
            'fuel_sulfur_content_nom': rng.choice([0.0, rng.uniform(1.0, 3000.0)]),
            'sulfate_yield_nom': rng.choice([0.0, 1.0, rng.uniform(0.0, 0.1)])}


def gen_case(rng, cfg=None):
    return {'cfg': cfg or gen_config(rng), 'traj': gen_trajectory(rng), 'lto': gen_lto(rng), 'apu': gen_apu(rng),
            'fuel': gen_fuel(rng), 'class': rng.choice(['wide', 'narrow', 'small', 'freight'])}


# ---------------------------------------------------------------------------
# implementation
# ---------------------------------------------------------------------------

class SynthTrajectory:
    """Duck-typed trajectory, as tests/test_emissions.py drives compute_emissions."""

    def __init__(self, t):
        import numpy as np
        self.fuel_mass = np.array(t['fuel_mass'], dtype=float)
        self.fuel_flow = np.array(t['fuel_flow'], dtype=float)
        self.altitude = np.array(t['altitude'], dtype=float)
        self.true_airspeed = np.array(t['tas'], dtype=float)
        self.n_climb = int(t['n_climb'])
        self.n_descent = int(t['n_descent'])
        self.n_cruise = len(t['fuel_mass']) - self.n_climb - self.n_descent

    def __len__(self):
        return len(self.fuel_mass)


def real_trajectory(t):
    """The same data in a genuine AEIC Trajectory container."""
    import numpy as np

    from AEIC.trajectories.trajectory import Trajectory
    n = len(t['fuel_mass'])
    tr = Trajectory(npoints=n)
    tr.fuel_mass = np.array(t['fuel_mass'], dtype=float)
    tr.fuel_flow = np.array(t['fuel_flow'], dtype=float)
    tr.altitude = np.array(t['altitude'], dtype=float)
    tr.true_airspeed = np.array(t['tas'], dtype=float)
    tr.n_climb = int(t['n_climb'])
    tr.n_descent = int(t['n_descent'])
    tr.n_cruise = n - int(t['n_climb']) - int(t['n_descent'])
    return tr


class SynthPM:
    def __init__(self, case, idx=0):
        from AEIC.performance.apu import APU
        from AEIC.performance.edb import EDBEntry
        from AEIC.performance.types import LTOPerformance, ThrustModeValues
        from AEIC.types import AircraftClass
        lt = case['lto']
        tm = lambda v: ThrustModeValues(*[float(x) for x in v])  # noqa: E731
        self.edb = EDBEntry(
            engine='verif engine', uid=(idx if isinstance(idx, str) else f'V{idx}'), engine_type=lt['engine_type'], BP_Ratio=lt['BPR'],
            rated_thrust=100.0, fuel_flow=tm(lt['fuel_flow']), CO_EI_matrix=tm(lt['EI_CO']),
            HC_EI_matrix=tm(lt['EI_HC']), EI_NOx_matrix=tm(lt['EI_NOx']), SN_matrix=tm(lt['SN']),
            nvPM_mass_matrix=tm(lt['nvPM_mass']), nvPM_num_matrix=tm(lt['nvPM_num']),
            PR=tm([lt['PR']] * 4), EImass_max=lt['EImass_max'], EImass_max_thrust=lt['EImass_max_thrust'],
            EInum_max=lt['EInum_max'], EInum_max_thrust=lt['EInum_max_thrust'])
        self.lto = LTOPerformance(source='verif', ICAO_UID=(idx if isinstance(idx, str) else f'V{idx}'), rated_thrust=100.0e3,
                                  thrust_pct=tm(lt['thrust_pct']), fuel_flow=tm(lt['fuel_flow']),
                                  EI_NOx=tm(lt['EI_NOx']), EI_HC=tm(lt['EI_HC']), EI_CO=tm(lt['EI_CO']))
        a = case['apu']
        if a is None:
            self.apu = None
        elif a['kind'] == 'unknown':
            self.apu = APU.unknown('no such apu')
        else:
            self.apu = APU(name=a['kind'], defra='00000', **{k: a[k] for k in a if k != 'kind'})
        self.aircraft_class = AircraftClass(case['class'])
        self.number_of_engines = lt['n_eng']


_LOADED_CFG = None


def load_config(cfg, reuse=False):
    """(Re)load the Config singleton with this emissions configuration.  reuse: keep the loaded singleton when it
    already has exactly this configuration (a session of several calls under one configuration)."""
    import os

    from AEIC.config import Config
    global _LOADED_CFG
    if reuse and _LOADED_CFG == cfg:
        return
    os.environ['AEIC_PATH'] = str(REPO / 'tests/data')
    Config.reset()
    _LOADED_CFG = None
    Config.load(emissions=dict(cfg), data_path_overrides=[REPO / 'tests/data'])
    _LOADED_CFG = dict(cfg)


def reset_config():
    from AEIC.config import Config
    global _LOADED_CFG
    Config.reset()
    _LOADED_CFG = None


def emissions_to_dict(e):
    """Emissions dataclass -> plain python (species/mode names as strings, floats)."""
    from AEIC.performance.types import ThrustMode

    def sv(x, conv):
        return {sp.name: conv(v) for sp, v in x.items()}

    arr = lambda v: [float(z) for z in v]  # noqa: E731
    tmv = lambda v: [float(v[m]) for m in ThrustMode]  # noqa: E731
    return {'fb': arr(e.fuel_burn_per_segment),
            'traj_idx': sv(e.trajectory_indices, arr), 'traj_em': sv(e.trajectory_emissions, arr),
            'lto_idx': sv(e.lto_indices, tmv), 'lto_em': sv(e.lto_emissions, tmv),
            'apu_idx': sv(e.apu_indices, float), 'apu_em': sv(e.apu_emissions, float),
            'gse_em': sv(e.gse_emissions, float), 'total': sv(e.total_emissions, float),
            'total_fuel': float(e.total_fuel_burn), 'lifecycle': float(e.lifecycle_co2)}


class Objects:
    """The caller's objects.  The same input (same JSON) gets the SAME Python object on every call of a session, as
    a caller processing many flights would pass it — so that in-place mutation of the caller's performance model /
    fuel / trajectory, or results aliasing them, shows up in later calls."""

    def __init__(self):
        self.pm, self.fuel, self.traj = {}, {}, {}

    def get(self, case, idx, real_container=False):
        from AEIC.types import Fuel
        kp = json.dumps([case['lto'], case['apu'], case['class'], str(idx)], sort_keys=True)
        if kp not in self.pm:
            self.pm[kp] = SynthPM(case, idx)
        kf = json.dumps(case['fuel'], sort_keys=True)
        if kf not in self.fuel:
            self.fuel[kf] = Fuel.model_validate(case['fuel'])
        kt = json.dumps([case['traj'], real_container], sort_keys=True)
        if kt not in self.traj:
            self.traj[kt] = real_trajectory(case['traj']) if real_container else SynthTrajectory(case['traj'])
        return self.pm[kp], self.fuel[kf], self.traj[kt]


def inputs_changed(case, pm, fuel, traj):
    """None if the caller's objects still hold exactly the case's data, else what changed"""
    from AEIC.performance.types import ThrustMode
    t = case['traj']
    for name, want in (('fuel_mass', t['fuel_mass']), ('fuel_flow', t['fuel_flow']), ('altitude', t['altitude']),
                       ('true_airspeed', t['tas'])):
        got = [float(z) for z in getattr(traj, name)]
        if got != [float(z) for z in want]:
            return f'trajectory.{name} was modified in place'
    if int(traj.n_climb) != t['n_climb'] or int(traj.n_descent) != t['n_descent']:
        return 'trajectory phase counts were modified'
    lt = case['lto']
    tm = lambda v: [float(v[m]) for m in ThrustMode]  # noqa: E731
    for name, obj, want in (('lto.fuel_flow', pm.lto.fuel_flow, lt['fuel_flow']), ('lto.EI_NOx', pm.lto.EI_NOx, lt['EI_NOx']),
                            ('lto.EI_HC', pm.lto.EI_HC, lt['EI_HC']), ('lto.EI_CO', pm.lto.EI_CO, lt['EI_CO']),
                            ('edb.SN_matrix', pm.edb.SN_matrix, lt['SN']), ('edb.fuel_flow', pm.edb.fuel_flow, lt['fuel_flow']),
                            ('edb.nvPM_mass_matrix', pm.edb.nvPM_mass_matrix, lt['nvPM_mass'])):
        if tm(obj) != [float(z) for z in want]:
            return f'performance model {name} was modified in place'
    a = case['apu']
    if a is not None and a['kind'] != 'unknown':
        for k in ('fuel_kg_per_s', 'NOx_g_per_kg', 'CO_g_per_kg', 'HC_g_per_kg', 'PM10_g_per_kg'):
            if float(getattr(pm.apu, k)) != float(a[k]):
                return f'APU {k} was modified'
    for k, v in case['fuel'].items():
        if getattr(fuel, k) != v:
            return f'fuel.{k} was modified'
    return None


def run_impl(case, idx=0, real_container=False, session=False, objects=None, keep=None, reload=False):
    """compute_emissions on the case -> {'value': {...}} or {'error': type, 'msg': str, 'key': ...}
    idx: int (a fresh engine identity V<idx>) or str (the engine identity itself: calls that pass the same string
    present the same engine / LTO source + UID to the code, as successive flights of one aircraft type do).
    session: keep the Config singleton loaded afterwards (and reuse it if the configuration is unchanged, unless
    reload).  objects: an `Objects` cache (same input -> same Python object).  keep: list collecting the returned
    Emissions objects (to look at them again after later calls)."""
    import contextlib
    import io

    from AEIC.emissions import compute_emissions
    e = None
    pm = fuel = traj = None
    try:
        load_config(case['cfg'], reuse=session and not reload)
        pm, fuel, traj = (objects or Objects()).get(case, idx, real_container)
        with warnings.catch_warnings():
            warnings.simplefilter('ignore')
            with contextlib.redirect_stdout(io.StringIO()):          # compute_EI_NOx prints for P3T3
                e = compute_emissions(pm, fuel, traj)
        r = {'value': emissions_to_dict(e)}
    except Exception as ex:  # noqa: BLE001
        key = None
        if isinstance(ex, KeyError) and ex.args:
            key = getattr(ex.args[0], 'name', str(ex.args[0]))
        r = {'error': type(ex).__name__, 'msg': str(ex), 'key': key}
    finally:
        if not session:
            reset_config()
    if pm is not None:
        ch = inputs_changed(case, pm, fuel, traj)
        if ch:
            r['inputs_changed'] = ch
    if keep is not None:
        keep.append(e)
    return r


# ---------------------------------------------------------------------------
# histories: several calls in ONE process that differ in ONE input
# ---------------------------------------------------------------------------

VARY = ['fuel', 'fuel', 'fuel', 'traj', 'lto', 'apu', 'class', 'cfg', 'cfg']
PATTERNS = [[0, 1], [0, 1, 0], [0, 1, 2], [0, 0, 1], [0, 1, 1, 0], [0, 1, 0, 1], [0, 1, 2, 0]]


def gen_history(rng):
    """2-4 compute_emissions calls that keep everything fixed except one input (fuel / trajectory / LTO row /
    APU / aircraft class / one configuration switch), in varying order incl. A,B,A.  The property must hold for
    every call whatever was computed before.  Same engine identity throughout (a different one only for a
    different LTO row)."""
    what = rng.choice(VARY)
    base = gen_case(rng)
    while base['cfg']['pmnvol_method'] == 'foa3':                 # refused by name: nothing to balance
        base['cfg'] = gen_config(rng)
    if base['cfg']['lifecycle_enabled'] and rng.random() < 0.7:
        base['cfg']['lifecycle_enabled'] = False                  # let fuels without the datum through
    if len(base['traj']['fuel_mass']) > 60:
        base['traj'] = gen_trajectory(rng)
    variants = [base]
    for k in (1, 2):
        v = dict(base)
        if what == 'fuel':
            f = gen_fuel(rng)
            while any(f == w['fuel'] for w in variants):
                f = gen_fuel(rng)
            v['fuel'] = f
        elif what == 'traj':
            v['traj'] = gen_trajectory(rng)
        elif what == 'lto':
            v['lto'] = gen_lto(rng)
        elif what == 'apu':
            a = gen_apu(rng)
            while any(a == w['apu'] for w in variants):
                a = gen_apu(rng)
            v['apu'] = a
        elif what == 'class':
            v['class'] = rng.choice([c for c in ('wide', 'narrow', 'small', 'freight') if c != base['class']])
        else:
            opt = rng.choice(list(OPTIONS))
            vals = [x for x in OPTIONS[opt] if x != base['cfg'][opt] and not (opt == 'pmnvol_method' and x == 'foa3')]
            v['cfg'] = {**base['cfg'], opt: rng.choice(vals)}
        variants.append(v)
    pattern = rng.choice(PATTERNS)
    same_uid = what == 'lto' and rng.random() < 0.4          # a re-measured engine: same UID, other data
    return {'vary': what + ('-same-uid' if same_uid else ''), 'pattern': pattern, 'steps': [variants[k] for k in pattern],
            'engine': [f'-lto{k}' if what == 'lto' and not same_uid else '' for k in pattern],
            'reload': rng.random() < 0.3}


def run_history(hist, hid):
    """all steps in this process, one after the other, with the caller's objects reused; the Config singleton is
    reloaded only when the configuration changes (or on every call if hist['reload']).  Afterwards every returned
    Emissions object is converted AGAIN: an earlier result must not have been changed by a later call."""
    out, keep, objs = [], [], Objects()
    try:
        for step, eng in zip(hist['steps'], hist['engine']):
            out.append(run_impl(step, f'H{hid}{eng}', session=True, objects=objs, keep=keep,
                                reload=bool(hist.get('reload'))))
        for r, e in zip(out, keep):
            if e is not None and 'value' in r:
                late = emissions_to_dict(e)
                if json.dumps(late, sort_keys=True) != json.dumps(r['value'], sort_keys=True):
                    r['late'] = late
    finally:
        reset_config()
    return out


# ---------------------------------------------------------------------------
# the independent oracle (property statement re-summed on the returned inventory)
# ---------------------------------------------------------------------------

def approx(a, b, scale):
    return close(a, b, rel=1e-9, scale=scale, abs_=1e-12)


def lto_modes_counted(cfg):
    """trajectory accounting: climb-out and approach come from the trajectory, LTO supplies taxi/idle and
    take-off only; lto accounting: the full LTO cycle."""
    return MODES if cfg['climb_descent_mode'] == 'lto' else ['idle', 'takeoff']


def window(cfg, n, ncl, nde):
    """the accounted points: everything under trajectory accounting; under lto accounting the points that Python's
    own slice [n_climb : n - n_descent] selects from a sequence of n (negative / oversized counts included)"""
    if cfg['climb_descent_mode'] == 'lto':
        start, stop, _ = slice(ncl, n - nde).indices(n)
        return start, stop
    return 0, n


def oracle(case, v):
    """-> list of (clause, detail) violated by the inventory `v` (emissions_to_dict) for `case`."""
    bad = []
    cfg, t, fuel, lto, apu = case['cfg'], case['traj'], case['fuel'], case['lto'], case['apu']
    fm = t['fuel_mass']
    n = len(fm)
    start, stop = window(cfg, n, t['n_climb'], t['n_descent'])
    fb = [0.0] + [fm[i - 1] - fm[i] for i in range(1, n)]
    apu_counts = cfg['apu_enabled'] and apu is not None
    gse_counts = cfg['gse_enabled']
    lc_counts = cfg['co2_enabled'] and cfg['lifecycle_enabled']

    # -- finite, non-negative amounts
    def amounts():
        for i, x in enumerate(v['fb']):
            yield f'fuel_burn[{i}]', x
        for comp in ('traj_em', 'lto_em'):
            for s, xs in v[comp].items():
                for i, x in enumerate(xs):
                    yield f'{comp}[{s}][{i}]', x
        for comp in ('apu_em', 'gse_em', 'total'):
            for s, x in v[comp].items():
                yield f'{comp}[{s}]', x
        yield 'total_fuel', v['total_fuel']
        yield 'lifecycle', v['lifecycle']
    for name, x in amounts():
        if not math.isfinite(x):
            bad.append(('finite', f'{name} = {x}'))
        elif x < 0:
            bad.append(('nonneg', f'{name} = {x}'))
    if any(c == 'finite' for c, _ in bad):
        return bad

    # -- fuel burn per segment is the fuel-mass difference
    if len(v['fb']) != n or any(not approx(a, b, fm[0]) for a, b in zip(v['fb'], fb)):
        bad.append(('segment-fuel', 'fuel_burn_per_segment is not the difference of consecutive fuel masses'))

    # -- every per-segment amount = index * fuel burned in that segment; nothing outside the window
    for s, em in v['traj_em'].items():
        idx = v['traj_idx'].get(s)
        if idx is None or len(em) != n or len(idx) != n:
            bad.append(('segment', f'trajectory {s}: index array missing or of the wrong length'))
            continue
        for i in range(n):
            inside = start <= i < stop
            want = idx[i] * fb[i] if inside else 0.0
            if not approx(em[i], want, abs(idx[i]) * fm[0] * 1e-3):
                bad.append(('segment', f'trajectory {s}[{i}] = {em[i]} but index*fuel = {want} (inside={inside})'))
                break
            # the three quantities exactly as the returned object reports them: amount = index x per-segment fuel,
            # at every point (outside the accounting window too: a zero amount next to a non-zero index and a
            # non-zero reported burn is not "index times fuel burned in that segment")
            rep = idx[i] * v['fb'][i] if i < len(v['fb']) else None
            if rep is None or not approx(em[i], rep, abs(idx[i]) * fm[0] * 1e-3):
                bad.append(('segment', f'trajectory {s}[{i}]: reported amount {em[i]} != reported index {idx[i]} x '
                                       f'reported fuel_burn_per_segment {v["fb"][i] if i < len(v["fb"]) else None}'))
                break
    tims = {m: float(ICAO_TIM[m]) for m in MODES}
    counted = lto_modes_counted(cfg)
    lto_fuel = {m: (tims[m] * lto['fuel_flow'][k] if m in counted else 0.0) for k, m in enumerate(MODES)}
    for s, em in v['lto_em'].items():
        idx = v['lto_idx'].get(s)
        if idx is None:
            bad.append(('segment', f'LTO {s}: no index'))
            continue
        for k, m in enumerate(MODES):
            if not approx(em[k], idx[k] * lto_fuel[m], abs(idx[k]) * tims[m] * lto['fuel_flow'][k]):
                bad.append(('segment', f'LTO {s}[{m}] = {em[k]} but index*time-in-mode*fuel-flow = {idx[k] * lto_fuel[m]}'))
                break
    apu_fuel = apu['fuel_kg_per_s'] * APU_TIME if apu_counts else 0.0
    for s, em in v['apu_em'].items():
        idx = v['apu_idx'].get(s)
        if idx is None or not approx(em, idx * apu_fuel, abs(idx) * apu_fuel):
            bad.append(('segment', f'APU {s} = {em} but index*fuel = {None if idx is None else idx * apu_fuel}'))
    if v['apu_em'] and not apu_counts:
        bad.append(('parts', 'APU amounts present although the APU is off or absent'))
    if v['gse_em'] and not gse_counts:
        bad.append(('parts', 'GSE amounts present although GSE is off'))

    # -- total = sum of parts (+ life-cycle CO2)
    for s in set(v['total']) | set(v['traj_em']) | set(v['lto_em']) | set(v['apu_em']) | set(v['gse_em']):
        terms = list(v['traj_em'].get(s, [])) + list(v['lto_em'].get(s, []))
        if s in v['apu_em']:
            terms.append(v['apu_em'][s])
        if s in v['gse_em']:
            terms.append(v['gse_em'][s])
        if s == 'CO2' and lc_counts:
            terms.append(v['lifecycle'])
        want = math.fsum(terms)
        got = v['total'].get(s)
        if got is None or not approx(got, want, math.fsum(abs(x) for x in terms)):
            bad.append(('total', f'total[{s}] = {got} but the parts sum to {want}'))
    if not lc_counts and v['lifecycle'] != 0.0:
        bad.append(('total', f'life-cycle adjustment {v["lifecycle"]} reported although it is switched off'))
    if lc_counts and fuel['lifecycle_CO2'] is not None:
        want = fuel['lifecycle_CO2'] * (fm[0] - fm[-1]) * fuel['energy_MJ_per_kg']
        if not approx(v['lifecycle'], want, abs(want)):
            bad.append(('total', f'life-cycle adjustment {v["lifecycle"]} != intensity*fuel*energy = {want}'))

    # -- total fuel = fuel of exactly the components counted
    traj_fuel = math.fsum(fb[start:stop]) if start < stop else 0.0
    gse_fuel = (v['gse_em']['CO2'] / fuel['EI_CO2']) if gse_counts and 'CO2' in v['gse_em'] else 0.0
    want_fuel = math.fsum([traj_fuel, *lto_fuel.values(), apu_fuel, gse_fuel])
    if not approx(v['total_fuel'], want_fuel, want_fuel + fm[0]):
        bad.append(('total-fuel', f'total_fuel_burn = {v["total_fuel"]} but the components burn {want_fuel}'))

    # -- every kilogram counted once: trajectory + LTO CO2 / H2O = EI * (trajectory + LTO fuel), with the
    #    trajectory fuel given by the telescoped fuel-mass difference over the window
    if start < stop:
        tele = fm[max(start, 1) - 1] - fm[stop - 1]
    else:
        tele = 0.0
    if not approx(traj_fuel, tele, fm[0]):
        bad.append(('counted-once', f'window fuel {traj_fuel} != fuel-mass drop over the window {tele}'))
    for s, ei, on in (('CO2', fuel['EI_CO2'], cfg['co2_enabled']), ('H2O', fuel['EI_H2O'], cfg['h2o_enabled'])):
        if not on:
            continue
        got = math.fsum(list(v['traj_em'].get(s, [])) + list(v['lto_em'].get(s, [])))
        want = ei * (tele + math.fsum(lto_fuel.values()))
        if not approx(got, want, abs(want) + ei * fm[0] * 1e-3):
            bad.append(('counted-once', f'trajectory+LTO {s} = {got} but EI*(trajectory+LTO fuel) = {want}'))

    # -- speciation closes in every component
    def closes(comp, get, label):
        for whole, parts in (('NOx', ('NO', 'NO2', 'HONO')), ('SOx', ('SO2', 'SO4'))):
            present = [p for p in (whole, *parts) if p in v[comp]]
            if not present:
                continue
            if len(present) != len(parts) + 1:
                bad.append(('speciation', f'{label}: only {present} of the {whole} family present'))
                continue
            for pos, w, ps in get(whole, parts):
                if not approx(w, math.fsum(ps), abs(w)):
                    bad.append(('speciation', f'{label}{pos}: {"+".join(parts)} = {math.fsum(ps)} but {whole} = {w}'))
                    break

    def vec(comp):
        return lambda whole, parts: ((f'[{i}]', v[comp][whole][i], [v[comp][p][i] for p in parts])
                                     for i in range(len(v[comp][whole])))

    def scal(comp):
        return lambda whole, parts: [('', v[comp][whole], [v[comp][p] for p in parts])]
    closes('traj_em', vec('traj_em'), 'trajectory amounts')
    closes('traj_idx', vec('traj_idx'), 'trajectory indices')
    closes('lto_em', vec('lto_em'), 'LTO amounts')
    closes('lto_idx', vec('lto_idx'), 'LTO indices')
    closes('apu_em', scal('apu_em'), 'APU amounts')
    closes('gse_em', scal('gse_em'), 'GSE amounts')
    closes('total', scal('total'), 'totals')
    return bad


# ---------------------------------------------------------------------------
# model side
# ---------------------------------------------------------------------------

HEADER = ('From Coq Require Import ZArith List PrimFloat.\n'
          'From AV Require Import lib.Num lib.FloatMath model.C11_Model model.C01_Model.\n'
          'Import ListNotations.\nOpen Scope float_scope.\n')

CD = {'trajectory': 'CD_TRAJECTORY', 'lto': 'CD_LTO'}
GAS = {'bffm2': 'G_BFFM2', 'p3t3': 'G_P3T3', 'none': 'G_NONE'}
PV = {'fuel_flow': 'PV_FUEL_FLOW', 'foa3': 'PV_FOA3', 'none': 'PV_NONE'}
PN = {'meem': 'PN_MEEM', 'scope11': 'PN_SCOPE11', 'foa3': 'PN_FOA3', 'none': 'PN_NONE'}
AC = {'wide': 'AC_WIDE', 'narrow': 'AC_NARROW', 'small': 'AC_SMALL', 'freight': 'AC_FREIGHT'}
B = lambda x: 'true' if x else 'false'  # noqa: E731


def coq_config(c):
    return (f"(mkConfig {CD[c['climb_descent_mode']]} {B(c['co2_enabled'])} {B(c['h2o_enabled'])} {B(c['sox_enabled'])} "
            f"{GAS[c['nox_method']]} {GAS[c['hc_method']]} {GAS[c['co_method']]} {PV[c['pmvol_method']]} "
            f"{PN[c['pmnvol_method']]} {B(c['apu_enabled'])} {B(c['gse_enabled'])} {B(c['lifecycle_enabled'])})")


def fl(x):
    return coq_float(float(x))


def coq_list(xs):
    return '[' + '; '.join(fl(x) for x in xs) + ']'


def coq_tm(xs):
    return '(' + ', '.join(fl(x) for x in xs) + ')'


TRAJ_VAR = ['HC', 'CO', 'NOx', 'PMnvol', 'PMnvolGMD', 'PMvol', 'OCic', 'PMnvolN']   # NO, NO2, HONO: built by the model
LTO_VAR = ['PMvol', 'OCic', 'PMnvol']


def sls_oracle(case):
    """SLS-equivalent fuel flow per point (Fuel Flow Method 2, an EI-method quantity: property C12) as the code
    computes it: emissions/types.py:AtmosphericState + emissions/utils.py:get_SLS_equivalent_fuel_flow"""
    import numpy as np

    from AEIC.emissions.types import AtmosphericState
    from AEIC.emissions.utils import get_SLS_equivalent_fuel_flow
    t = case['traj']
    with warnings.catch_warnings():
        warnings.simplefilter('ignore')
        st = AtmosphericState(np.array(t['altitude'], dtype=float), np.array(t['tas'], dtype=float))
        sls = get_SLS_equivalent_fuel_flow(fuel_flow=np.array(t['fuel_flow'], dtype=float), Pamb=st.pressure,
                                           Tamb=st.temperature, mach_number=st.mach, n_eng=case['lto']['n_eng'])
    return [float(z) for z in sls]


def coq_inputs(case, v):
    """The case + the implementation's EI-method index arrays (oracle) as a Gallina `inputs` term."""
    f, t, lt, a = case['fuel'], case['traj'], case['lto'], case['apu']
    lc = 'None' if f['lifecycle_CO2'] is None else f"(Some {fl(f['lifecycle_CO2'])})"
    fuel = (f"(@mkFuel FNum {fl(f['EI_CO2'])} {fl(f['EI_H2O'])} {fl(f['energy_MJ_per_kg'])} {lc} "
            f"{fl(f['fuel_sulfur_content_nom'])} {fl(f['sulfate_yield_nom'])})")
    orc_t = '[' + '; '.join(f'({s}, {coq_list(v["traj_idx"][s])})' for s in TRAJ_VAR if s in v['traj_idx']) + ']'
    orc_l = '[' + '; '.join(f'({s}, {coq_tm(v["lto_idx"][s])})' for s in LTO_VAR if s in v['lto_idx']) + ']'
    lto = f"(@mkLto FNum {coq_tm(lt['fuel_flow'])} {coq_tm(lt['EI_NOx'])} {coq_tm(lt['EI_HC'])} {coq_tm(lt['EI_CO'])})"
    apu = 'None' if a is None else (f"(Some (@mkApu FNum {fl(a['fuel_kg_per_s'])} {fl(a['NOx_g_per_kg'])} "
                                    f"{fl(a['CO_g_per_kg'])} {fl(a['HC_g_per_kg'])} {fl(a['PM10_g_per_kg'])}))")
    return (f"@run_case FNum (@mkInputs FNum {coq_config(case['cfg'])} {fuel} {coq_list(t['fuel_mass'])} "
            f"({t['n_climb']})%Z ({t['n_descent']})%Z {orc_t} {coq_list(sls_oracle(case))} {lto} {orc_l} {apu} "
            f"{AC[case['class']]})")


def model_to_dict(m):
    fb, (tidx, tem), (lidx, lem), (aidx, aem), gse, tot, (tf, lc) = m
    d = lambda l: {k: (list(x) if isinstance(x, (list, tuple)) else x) for k, x in l}  # noqa: E731
    return {'fb': list(fb), 'traj_idx': d(tidx), 'traj_em': d(tem), 'lto_idx': d(lidx), 'lto_em': d(lem),
            'apu_idx': d(aidx), 'apu_em': d(aem), 'gse_em': d(gse), 'total': d(tot), 'total_fuel': tf,
            'lifecycle': lc}


def diff_model(v, m, case):
    """first difference between implementation inventory and model inventory, or None"""
    fm0 = case['traj']['fuel_mass'][0]
    for comp in ('traj_idx', 'traj_em', 'lto_idx', 'lto_em', 'apu_idx', 'apu_em', 'gse_em', 'total'):
        if set(v[comp]) != set(m[comp]):
            return f'{comp}: species {sorted(v[comp])} (implementation) vs {sorted(m[comp])} (model)'
        for s in v[comp]:
            a, b = v[comp][s], m[comp][s]
            if isinstance(a, list):
                if len(a) != len(b):
                    return f'{comp}[{s}]: lengths {len(a)} vs {len(b)}'
                sc = max([abs(x) for x in a] + [0.0])
                for i, (x, y) in enumerate(zip(a, b)):
                    if not close(x, y, rel=1e-9, scale=sc * 1e-3):
                        return f'{comp}[{s}][{i}]: implementation {x!r} vs model {y!r}'
            else:
                sc = abs(a)
                if comp == 'total':
                    sc = math.fsum([abs(x) for x in v['traj_em'].get(s, [])] + [abs(x) for x in v['lto_em'].get(s, [])]
                                   + [abs(v['apu_em'].get(s, 0.0)), abs(v['gse_em'].get(s, 0.0))])
                if not close(a, b, rel=1e-9, scale=sc):
                    return f'{comp}[{s}]: implementation {a!r} vs model {b!r}'
    if len(v['fb']) != len(m['fb']) or any(not close(x, y, rel=1e-9, scale=fm0 * 1e-3) for x, y in zip(v['fb'], m['fb'])):
        return 'fuel_burn_per_segment differs'
    if not close(v['total_fuel'], m['total_fuel'], rel=1e-9, scale=fm0):
        return f"total_fuel_burn: implementation {v['total_fuel']!r} vs model {m['total_fuel']!r}"
    if not close(v['lifecycle'], m['lifecycle'], rel=1e-9, scale=abs(v['lifecycle'])):
        return f"lifecycle_co2: implementation {v['lifecycle']!r} vs model {m['lifecycle']!r}"
    return None


# ---------------------------------------------------------------------------
# expected outcome class (shared with C11): what the property allows for this case
# ---------------------------------------------------------------------------

def expected_refusal(case):
    """A refusal the property allows: the unsupported method named; or missing life-cycle datum."""
    cfg = case['cfg']
    if cfg['pmnvol_method'] == 'foa3':
        return ('NotImplementedError', 'foa3')
    if cfg['co2_enabled'] and cfg['lifecycle_enabled'] and case['fuel']['lifecycle_CO2'] is None:
        return ('RuntimeError', 'lifecycle')
    return None


F9_SIGNATURE = 'apu-reads-missing-sox-index'
FC11A_SIGNATURE = 'pmvol-foa3-thrust-percentage-attribute-error'
FC01A_SIGNATURE = 'meem-nan-low-cruise-altitude'


def is_f9(case, r):
    """SOx switched off + APU enabled, present and burning fuel -> KeyError Species.SO2 in apu.py."""
    cfg, a = case['cfg'], case['apu']
    return (r.get('error') == 'KeyError' and r.get('key') == 'SO2' and not cfg['sox_enabled']
            and cfg['apu_enabled'] and a is not None and a['fuel_kg_per_s'] != 0.0)


def is_fc11a(case, r):
    """pmvol_method = foa3 -> AttributeError ('numpy.str_' object has no attribute 'thrust_percentage')
    in trajectory.py:_thrust_percentages_from_categories, for every trajectory."""
    return (r.get('error') == 'AttributeError' and 'thrust_percentage' in r.get('msg', '')
            and case['cfg']['pmvol_method'] == 'foa3')


def meem_degenerate(case):
    """ei/pmnvol.py:PMnvol_MEEM: at a climbing point the pressure coefficient
    0.85 + 0.3*(alt - 3000)/max(1, max_alt - 3000) is so negative that P3 = Pt*(1 + coef*(PR - 1)) <= 0
    (low cruise altitude); the fractional power of P3/Pt is then NaN."""
    alt, pr = case['traj']['altitude'], case['lto']['PR']
    mx = max(alt)
    for i in range(1, len(alt)):
        if alt[i] > alt[i - 1]:
            coef = 0.85 + 0.3 * (alt[i] - 3000.0) / max(1.0, mx - 3000.0)
            if 1.0 + coef * (pr - 1.0) <= 0.0:
                return True
    return False


def is_fc01a(case, bad):
    """every non-finite amount is a trajectory/total PMnvol* amount under MEEM on a degenerate profile"""
    if case['cfg']['pmnvol_method'] != 'meem' or not meem_degenerate(case):
        return False
    import re
    return all(c == 'finite' and re.match(r'(traj_em|total)\[PMnvol(GMD|N)?\]', d) for c, d in bad)


PROBE = {'traj': {'fuel_mass': [100.0, 90.0, 80.0], 'altitude': [0.0, 9000.0, 0.0], 'tas': [120.0, 200.0, 120.0],
                  'fuel_flow': [0.5, 0.6, 0.3], 'n_climb': 1, 'n_descent': 1},
         'lto': {'fuel_flow': [0.11, 0.343, 1.031, 1.293], 'EI_NOx': [4.36, 9.09, 17.89, 23.94],
                 'EI_HC': [1.54, 0.05, 0.02, 0.03], 'EI_CO': [29.39, 2.82, 0.17, 0.31],
                 'thrust_pct': [7.0, 30.0, 85.0, 100.0], 'SN': [2.1, 2.1, 11.2, 13.4],
                 'nvPM_mass': [0.74, 1.72, 44.0, 70.8], 'nvPM_num': [2.66e13, 7.1e13, 4.33e14, 4.02e14],
                 'PR': 29.0, 'BPR': 5.1, 'engine_type': 'TF', 'EImass_max': 70.8, 'EImass_max_thrust': -1.0,
                 'EInum_max': 4.33e14, 'EInum_max_thrust': -1.0, 'n_eng': 2},
         'apu': {'kind': 'probe', 'fuel_kg_per_s': 0.03, 'NOx_g_per_kg': 6.0, 'CO_g_per_kg': 5.0,
                 'HC_g_per_kg': 0.4, 'PM10_g_per_kg': 0.05},
         'fuel': {'name': 'Jet-A', 'energy_MJ_per_kg': 43.2, 'EI_H2O': 1233.3865, 'EI_CO2': 3155.6,
                  'non_volatile_carbon_fraction': 0.95, 'lifecycle_CO2': 89.0, 'fuel_sulfur_content_nom': 600.0,
                  'sulfate_yield_nom': 0.02},
         'class': 'narrow'}


def tree_state():
    """Which behaviour does this tree have?  {'F9': defect present?, 'FC11a': defect present?}
    (before / after the proposed fixes; the Coq model has a switch for each)."""
    c9 = {**PROBE, 'cfg': {**DEFAULT_CFG, 'sox_enabled': False, 'lifecycle_enabled': False}}
    c11 = {**PROBE, 'cfg': {**DEFAULT_CFG, 'pmvol_method': 'foa3', 'lifecycle_enabled': False}}
    return {'F9': is_f9(c9, run_impl(c9)), 'FC11a': is_fc11a(c11, run_impl(c11))}


# ---------------------------------------------------------------------------
# extraction + link
# ---------------------------------------------------------------------------

def extract(chk: Check):
    from translator import c01_extract, py2coq
    name = 'extract:emissions/{ei/nox.py,ei/sox.py,gse.py,apu.py,lto.py},units.py'
    try:
        text = c01_extract.extract_all(REPO / 'src/AEIC')
    except py2coq.Untranslatable as e:
        chk.obligations.append({'name': name, 'ok': False})
        chk.broken(name, str(e))
        return False
    chk.obligations.append({'name': name, 'ok': True})
    if chk.coq_compile_gen('C01_Extracted', text) is None:
        return False
    return chk.coq_link('C01_Link.v')


def extracted_vs_python(chk: Check):
    """The translator is in the trusted base, so it is also tested: evaluate the regenerated text at
    binary64 inside Coq and compare with the Python functions themselves."""
    import contextlib
    import io

    from AEIC.types import Fuel
    rng = chk.rng
    fuels = [gen_fuel(rng) for _ in range(12)]
    hdr = ('From Coq Require Import ZArith List PrimFloat.\nFrom AV Require Import lib.Num lib.FloatMath model.C11_Model '
           'model.C01_Model.\nFrom Gen Require Import C01_Extracted.\nImport ListNotations.\nOpen Scope float_scope.\n')
    exprs = [f"@EI_SOx FNum {fl(f['fuel_sulfur_content_nom'])} {fl(f['sulfate_yield_nom'])}" for f in fuels]
    exprs += ['@x_sp_no FNum', '@x_sp_no2 FNum', '@x_sp_hono FNum', '@x_lto_tims FNum']
    classes = ['wide', 'narrow', 'small', 'freight']
    gfuel = [gen_fuel(rng) for _ in classes]
    for k, f in zip(classes, gfuel):
        exprs.append(f"@x_gse FNum {AC[k]} {fl(f['EI_CO2'])} {fl(f['EI_H2O'])}")
    vals = chk.coq_eval(hdr, exprs, label='xcheck')
    if any(x is None for x in vals):
        return
    from AEIC.emissions.ei.nox import NOx_speciation
    from AEIC.emissions.ei.sox import EI_SOx
    from AEIC.emissions.gse import get_GSE_emissions
    from AEIC.emissions.lto import _LTO_TIMS
    from AEIC.performance.types import ThrustMode
    from AEIC.types import AircraftClass, Species
    ok = True
    for f, got in zip(fuels, vals):
        r = EI_SOx(Fuel.model_validate(f))
        ok &= close(list(got), [r.EI_SOx, r.EI_SO2, r.EI_SO4], rel=1e-13)
    sp = NOx_speciation()
    tmv = lambda x: [float(x[m]) for m in ThrustMode]  # noqa: E731
    got = vals[len(fuels):len(fuels) + 4]
    ok &= close([list(g) for g in got], [tmv(sp.no), tmv(sp.no2), tmv(sp.hono), tmv(_LTO_TIMS)], rel=1e-15)
    load_config(DEFAULT_CFG)
    try:
        for k, f, got in zip(classes, gfuel, vals[len(fuels) + 4:]):
            with contextlib.redirect_stdout(io.StringIO()):
                r = get_GSE_emissions(AircraftClass(k), Fuel.model_validate(f))
            want = [float(r.emissions[s]) for s in Species] + [float(r.fuel_burn)]
            em, gfu = got
            ok &= close([x for _, x in em] + [gfu], want, rel=1e-13)
    finally:
        from AEIC.config import Config
        Config.reset()
    chk.obligations.append({'name': 'translator-selfcheck:C01_Extracted at binary64 = Python functions', 'ok': bool(ok)})
    if not ok:
        chk.broken('translator-selfcheck:C01_Extracted', 'regenerated Gallina text evaluates differently from the Python source')


# ---------------------------------------------------------------------------
# the run
# ---------------------------------------------------------------------------

def nontrivial(case):
    """a zero-burn segment or a proper climb/descent window or a non-default configuration"""
    t = case['traj']
    fm = t['fuel_mass']
    plateau = any(fm[i] == fm[i - 1] for i in range(1, len(fm)))
    windowed = case['cfg']['climb_descent_mode'] == 'lto' and (t['n_climb'] > 0 or t['n_descent'] > 0)
    return plateau or windowed or case['cfg'] != DEFAULT_CFG


def payload(c, label, **extra):
    """what goes into the replay file: the case, and for a step of a history the whole history"""
    p = {'case': c, **extra}
    if label:
        p['history'] = label['history']
        p['step'] = label['step']
    return p


def where_in_history(label):
    if not label:
        return ''
    h = label['history']
    return (f" [call {label['step'] + 1} of {len(h['steps'])} in one process; only the {h['vary']} varies, "
            f"order {h['pattern']}]")


def check_histories(chk: Check, hists, state: dict):
    """every call of every history goes through the same oracle and the same model correspondence"""
    cases, impl, labels = [], [], []
    for h, hist in enumerate(hists):
        res = run_history(hist, h)
        chk.count('history:vary-' + hist['vary'])
        chk.count('history:calls', len(res))
        for k, (c, r) in enumerate(zip(hist['steps'], res)):
            cases.append(c)
            impl.append(r)
            labels.append({'history': hist, 'step': k})
    check_cases(chk, cases, state, impl=impl, labels=labels)


def check_cases(chk: Check, cases, state: dict, real_every: int = 7, impl=None, labels=None):
    if impl is None:
        impl = [run_impl(c, i, real_container=(i % real_every == 3)) for i, c in enumerate(cases)]
    labels = labels or [None] * len(cases)
    exprs, where = [], []
    for i, (c, r) in enumerate(zip(cases, impl)):
        if 'value' in r:
            where.append(i)
            exprs.append(coq_inputs(c, r['value']))
    model = chk.coq_eval(HEADER, exprs, shard=40)
    mod_by_case = dict(zip(where, model))
    for i, (c, r) in enumerate(zip(cases, impl)):
        chk.case({k: c[k] for k in ('cfg', 'class', 'apu')} | {'n': len(c['traj']['fuel_mass']),
                                                                 'n_climb': c['traj']['n_climb'],
                                                                 'n_descent': c['traj']['n_descent']}, nontrivial(c))
        chk.count('mode:' + c['cfg']['climb_descent_mode'])
        chk.count('apu:' + ('none' if c['apu'] is None else 'unknown' if c['apu']['kind'] == 'unknown' else 'data'))
        chk.count('n:' + ('1' if len(c['traj']['fuel_mass']) == 1 else '<=24' if len(c['traj']['fuel_mass']) <= 24
                          else '<=120' if len(c['traj']['fuel_mass']) <= 120 else '<=400'))
        if 'error' in r:
            want = expected_refusal(c)
            if want and r['error'] == want[0] and want[1] in r['msg'].lower():
                chk.count('outcome:refused-' + want[1])
                chk.traces_validated += 1
            elif is_f9(c, r) or is_fc11a(c, r):
                fid = 'F9' if is_f9(c, r) else 'FC11a'
                chk.count('outcome:' + fid)
                # an internal error for an option combination belongs to C11; while the tree has that defect the
                # combination is not a "supported combination" of C01's quantifier.  On a repaired tree it is.
                if not state[fid]:
                    chk.fail(f"{r['error']} from compute_emissions: {r['msg'][:120]}", payload(c, labels[i], impl=r),
                             signature=F9_SIGNATURE if fid == 'F9' else FC11A_SIGNATURE)
            else:
                chk.fail(f"compute_emissions raised {r['error']}: {r['msg'][:200]} for a supported combination"
                         + where_in_history(labels[i]), payload(c, labels[i], impl=r), signature=None)
            continue
        chk.count('outcome:value')
        v = r['value']
        if r.get('inputs_changed'):
            chk.broken('purity:compute_emissions modified its arguments', r['inputs_changed'] + where_in_history(labels[i]),
                       payload(c, labels[i]))
        if 'late' in r:
            bad_late = oracle(c, r['late'])
            msg = 'the inventory returned by an earlier call was changed by a later call' + where_in_history(labels[i])
            if bad_late:
                chk.fail(msg + f' — it is no longer balanced: {bad_late[0][0]}: {bad_late[0][1]}',
                         payload(c, labels[i], violations=bad_late[:6]), signature=None)
            else:
                chk.broken('purity:earlier result changed by a later call', msg, payload(c, labels[i]))
            continue
        bad = oracle(c, v)
        if bad:
            clause, detail = bad[0]
            chk.fail(f'inventory not balanced — {clause}: {detail}' + where_in_history(labels[i]),
                     payload(c, labels[i], violations=bad[:6]), signature=FC01A_SIGNATURE if is_fc01a(c, bad) else None)
            continue
        m = mod_by_case.get(i)
        if m is None:
            continue
        d = diff_model(v, model_to_dict(m), c)
        if d:
            chk.broken('correspondence:C01_Model.run_case', d + where_in_history(labels[i]), payload(c, labels[i]))
        else:
            chk.traces_validated += 1


def load_corpus(chk):
    out = []
    for f in sorted((VERIF / 'corpus' / chk.pid).glob('*.json')):
        d = json.loads(f.read_text())
        if 'case' in d:
            out.append(d['case'])
    return out


def load_corpus_histories(chk):
    out = []
    for f in sorted((VERIF / 'corpus' / chk.pid).glob('*.json')):
        d = json.loads(f.read_text())
        if 'history' in d:
            out.append(d['history'])
    return out


def run(chk: Check):
    chk.rule = ('single calls: cases = (configuration drawn from the 41 472-option product) x (trajectory of 1-400 points with '
                'zero-burn plateaus, stratospheric cruise, climb/descent windows in {0,1,k,n}) x (random positive '
                'LTO/EDB row, 2-4 engines) x (every shipped APU, unknown APU, no APU, random APU) x (4 aircraft classes) '
                'x (Jet-A, SAF, random fuels); non-trivial = has a zero-burn segment, or a proper window under lto '
                'accounting, or a non-default configuration; plus SHAPES: 17 deliberate trajectory shapes (empty / one-point accounting window, n_climb = 0, n_descent = 0, 1-3 points, zero-burn) x both modes x every PMnvol and PMvol method; plus HISTORIES: 2-4 compute_emissions calls in one process for the '
                'same engine identity that differ in exactly one input (fuel / trajectory / LTO row / APU / class / one '
                'option), orders incl. A,B,A — every call is checked by the same oracle and model')
    chk.trusted += ['translator/c01_extract.py + translator/py2coq.py (numerically cross-checked each run)',
                    'harness/c01.py: correspondence (rel 1e-9) and the fsum re-summation oracle',
                    'real-number theorems vs binary64 execution: gap covered by the correspondence tolerance and the '
                    'finiteness / non-negativity checks on the implementation only',
                    'the emission-index methods (BFFM2 NOx value, FFM2 SLS fuel flow, HC/CO, PMvol, PMnvol) are an opaque oracle here '
                    '(property C12); the NO/NO2/HONO speciation by thrust category is modelled']
    chk.assumptions += ['phase counts are integers (any sign / size: Python slice semantics are modelled)',
                        'fuel mass non-increasing along the trajectory (non-negativity clause)',
                        'the NOx array and the SLS-equivalent fuel flows of the EI method have one entry per point '
                        '(oracle_lengths); NO/NO2/HONO are built by the model from them']
    chk.coq_props('props/C01_Props.v')
    extract(chk)
    extracted_vs_python(chk)
    state = tree_state()
    chk.notes['tree_state'] = {k: ('defect present' if v else 'repaired') for k, v in state.items()}
    chk.notes['shipped_apus_satisfy_carbon_ok'] = all(carbon_ok(a) for a in shipped_apus())
    cases = load_corpus(chk)
    n_cfg = chk.n(300, 4000)
    for _ in range(n_cfg):
        cfg = gen_config(chk.rng)
        cases.append(gen_case(chk.rng, cfg))
        cases.append(gen_case(chk.rng, cfg))
    cases.append(gen_case(chk.rng, dict(DEFAULT_CFG)))
    shapes = shape_cases(chk.rng)
    chk.count('shape-cases', len(shapes))
    cases += shapes
    check_cases(chk, cases, state)
    # the history stream: statefulness across calls (memoisation keyed on too little, mutated shared data)
    hists = load_corpus_histories(chk) + [gen_history(chk.rng) for _ in range(chk.n(70, 700))]
    check_histories(chk, hists, state)


def replay(chk: Check, rp):
    chk.coq_props('props/C01_Props.v')
    extract(chk)
    pl = rp.get('case') or {}
    if pl.get('history'):
        check_histories(chk, [pl['history']], tree_state())
    elif pl.get('case'):
        check_cases(chk, [pl['case']], tree_state(), real_every=10 ** 9)

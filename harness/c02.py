"""C02 — simulated trajectories obey mass / time / distance / route / altitude bookkeeping.

Tie:    correspondence.  Each generated flight is flown by the real `LegacyBuilder`; every performance
        evaluation and every ground-track step of that flight is recorded (a forwarding proxy around the
        performance model, a wrapper around `GroundTrack.step`) and replayed to `C02_Model.fly` inside Coq
        (`vm_compute`, binary64).  All 14 pointwise fields of every point, the phase counts, starting mass,
        fuel load, residual, number of oracle calls and the class of a refusal are compared.
        `Container` (append / read / make_point) and `np.interp` are compared with their models directly.
        units.py constants are re-extracted by translator/c02_extract.py and proved equal to the model's
        (link/C02_Link.v).
Oracle: the invariants of the property statement evaluated in plain Python on the returned `Trajectory`
        (positions against independent pyproj calls), and `interpolate_time` at own / intermediate times.
"""

from __future__ import annotations

import copy
import json
import math
import os
import tomllib
from pathlib import Path

from harness.common import REPO, VERIF, Check, Raw, Some, close, nat, to_coq

FT = 0.3048
FIELDS = ['altitude', 'flight_level', 'true_airspeed', 'rate_of_climb', 'aircraft_mass', 'fuel_mass',
          'ground_distance', 'flight_time', 'ground_speed', 'fuel_flow', 'longitude', 'latitude', 'azimuth',
          'heading']
F1_SIG = 'make_point-negative-index-counts-from-capacity'
FC02A_SIG = 'interpolate_time-resamples-capacity-long-buffers'

# code -> (lat, lon, elevation_ft).  Real airports plus synthetic ones placed where the property's
# quantifier asks for them (antimeridian, polar, near-antipodal, high elevation).
AIRPORTS = {
    'BOS': (42.36197, -71.0079, 20), 'LAX': (33.942501, -118.407997, 125), 'JFK': (40.639447, -73.779317, 13),
    'LHR': (51.4706, -0.461941, 83), 'DEN': (39.861698150635, -104.672996521, 5431),
    'SFO': (37.619806, -122.374821, 13), 'MIA': (25.79319953918457, -80.29060363769531, 8),
    'SEA': (47.447943, -122.310276, 433), 'ORD': (41.9786, -87.9048, 680), 'ABQ': (35.039976, -106.608925, 5355),
    # antimeridian
    'NAN': (-17.755, 177.443, 59), 'HNL': (21.318681, -157.922428, 13), 'AKL': (-37.008056, 174.791667, 23),
    'PPT': (-17.553699, -149.606995, 5), 'NRT': (35.764702, 140.386002, 141), 'ADK': (51.878, -176.646, 18),
    'SYD': (-33.946111, 151.177222, 21),
    # polar
    'LYR': (78.246101, 15.4656, 94), 'YLT': (82.517799, -62.280602, 100), 'SPX': (-89.98, 12.0, 9300),
    'NPX': (89.5, -140.0, 0), 'MCM': (-77.85, 166.47, 68), 'CHC': (-43.489399, 172.531998, 123),
    # near-antipodal pairs
    'MAD': (40.471926, -3.56264, 1998), 'WLG': (-41.327202, 174.804993, 41), 'APB': (-42.3, 108.95, 10),
    # high elevation
    'LPB': (-16.5133, -68.192299, 13355), 'BPX': (30.553600, 97.108299, 14219), 'DCY': (29.323056, 100.053333, 14472),
    'LXA': (29.2978, 90.911903, 11713), 'CUZ': (-13.5357, -71.938797, 10860),
    # synthetic: between cruise-3000ft and cruise, above cruise, at / above typical ceilings
    'HI1': (10.0, 20.0, 29500), 'HI2': (12.0, 24.0, 32500), 'HI3': (14.0, 28.0, 36000), 'HI4': (16.0, 32.0, 42500),
    'HI5': (11.0, 23.0, 30000), 'HI6': (13.0, 25.0, 27000),
    # low airports a few hundred km from the synthetic high ones and from the Andean / Tibetan ones
    'LO1': (11.5, 21.5, 1000), 'LO2': (13.0, 26.5, 5000), 'LO3': (-15.0, -70.5, 500), 'LO4': (30.0, 94.0, 3000),
}
FRACS = [0.01, 0.0125, 0.02, 1 / 30, 0.05, 0.1]
# point counts that cross the 50-point growth boundary of the buffers inside a phase (66, 80, 125, 250)
CROSSING = [0.015, 0.0125, 0.008, 0.004]


# ----------------------------------------------------------------------------------------------
# environment
# ----------------------------------------------------------------------------------------------

_DYN: dict = {}          # airports placed by the harness during the run: code -> (lat, lon, elevation ft)
_DATA_DIR = None


def place(base: str, dist_km: float, az: float):
    """(lat, lon) at a given geodesic distance and azimuth from a listed airport"""
    from pyproj import Geod
    lat, lon, _ = AIRPORTS[base]
    lon2, lat2, _ = Geod(ellps='WGS84').fwd(lon, lat, az, dist_km * 1000.0)
    return float(lat2), float(lon2)


def ensure_airport(code: str, lat: float, lon: float, elev_ft: float):
    """Make `code` known to AEIC.utils.airports (rewrites the harness airports file, drops the module's cache)."""
    if _DYN.get(code) == (lat, lon, elev_ft):
        return
    assert code not in AIRPORTS
    _DYN[code] = (lat, lon, elev_ft)
    write_airports(_DATA_DIR)
    import AEIC.utils.airports as ap
    ap._airports = None


def dyn_code(defn) -> str:
    import zlib
    al = 'ABCDEFGHIJKLMNOPQRSTUVWXYZ0123456789'
    h = zlib.crc32(repr(tuple(defn)).encode())
    return 'Q' + al[h % 36] + al[(h // 36) % 36]


def write_airports(data_dir: Path):
    global _DATA_DIR
    _DATA_DIR = data_dir
    d = data_dir / 'airports'
    d.mkdir(parents=True, exist_ok=True)
    hdr = ('"id","ident","type","name","latitude_deg","longitude_deg","elevation_ft","continent","iso_country",'
           '"iso_region","municipality","scheduled_service","icao_code","iata_code","gps_code","local_code",'
           '"home_link","wikipedia_link","keywords"')
    rows = [hdr]
    for i, (code, (lat, lon, el)) in enumerate(list(AIRPORTS.items()) + list(_DYN.items())):
        rows.append(f'"{9000 + i}","X{code}","large_airport","{code} test","{lat!r}","{lon!r}","{el!r}","NA","US",'
                    f'"US-XX","{code}","yes","X{code}","{code}","X{code}","","","",""')
    (d / 'airports.csv').write_text('\n'.join(rows) + '\n')


WIND_UV = (25.0, -15.0)


def write_weather(wx: Path):
    """A global, uniform wind field (u, v) = WIND_UV on a coarse grid, one file for the flight date."""
    import numpy as np
    import xarray as xr
    wx.mkdir(parents=True, exist_ok=True)
    lev = np.array([1000.0, 850.0, 700.0, 500.0, 300.0, 200.0, 100.0, 50.0])
    lat = np.arange(90.0, -90.1, -10.0)
    lon = np.arange(-180.0, 180.1, 10.0)
    shape = (len(lev), len(lat), len(lon))
    ds = xr.Dataset({'u': (('pressure_level', 'latitude', 'longitude'), np.full(shape, WIND_UV[0])),
                     'v': (('pressure_level', 'latitude', 'longitude'), np.full(shape, WIND_UV[1])),
                     't': (('pressure_level', 'latitude', 'longitude'), np.full(shape, 250.0))},
                    coords={'pressure_level': lev, 'latitude': lat, 'longitude': lon})
    ds.to_netcdf(wx / '20240901.nc')


def setup_env(chk: Check):
    """Configuration singleton with the harness-written airports file first on the data path and the synthetic
    weather directory."""
    os.environ['AEIC_PATH'] = str(REPO / 'tests/data')
    data = chk.tmp / 'data'
    write_airports(data)
    wx = chk.tmp / 'wxsyn'
    if not (wx / '20240901.nc').exists():
        write_weather(wx)
    from AEIC.config import Config
    import AEIC.utils.airports as ap
    Config.reset()
    Config.load(data_path_overrides=[data, REPO / 'tests/data'], weather={'weather_data_dir': str(wx)})
    ap._airports = None


def teardown_env():
    from AEIC.config import Config
    import AEIC.utils.airports as ap
    Config.reset()
    ap._airports = None


_PM_CACHE: dict = {}


def perf_model(variant):
    """variant = None (the shipped sample model) or a dict of scale factors applied to the shipped table
    (a synthetic table that still satisfies every validity rule of PerformanceTable)."""
    key = json.dumps(variant, sort_keys=True)
    if key in _PM_CACHE:
        return _PM_CACHE[key]
    from AEIC.performance.models import PerformanceModel
    path = REPO / 'src/AEIC/data/performance/sample_performance_model.toml'
    if variant is None:
        pm = PerformanceModel.load(path)
    else:
        with open(path, 'rb') as fp:
            data = tomllib.load(fp)
        data = copy.deepcopy(data)
        cols = [c.lower() for c in data['flight_performance']['cols']]
        ix = {c: cols.index(c) for c in ('fuel_flow', 'tas', 'rocd', 'mass')}
        for row in data['flight_performance']['data']:
            row[ix['fuel_flow']] *= variant['ff'] * (variant.get('ff_climb', 1.0) if row[ix['rocd']] > 1e-6 else 1.0)
            row[ix['tas']] *= variant['tas']
            row[ix['rocd']] *= variant['rocd'] * (variant.get('rocd_des', 1.0) if row[ix['rocd']] < -1e-6 else 1.0)
            row[ix['mass']] *= variant['mass']
        data['maximum_altitude_ft'] = variant['ceiling_ft']
        data['maximum_payload_kg'] = variant['payload']
        pm = PerformanceModel.from_data(data)
    _PM_CACHE[key] = pm
    return pm


class PerfProxy:
    """Forwards to the real performance model and records every evaluation of the flight."""

    def __init__(self, pm):
        self._pm = pm
        self.calls = []          # (rule name, altitude, mass, (tas, rocd, ff) | None, exception class)

    def __getattr__(self, name):
        return getattr(self._pm, name)

    def evaluate(self, state, rules):
        alt = float(state.altitude)
        m = state.aircraft_mass
        mass = float(self._pm.maximum_mass) if isinstance(m, str) and m == 'max' else float(m)
        try:
            p = self._pm.evaluate(state, rules)
        except Exception as e:  # noqa: BLE001
            self.calls.append((rules.name, alt, mass, None, type(e).__name__))
            raise
        self.calls.append((rules.name, alt, mass,
                           (float(p.true_airspeed), float(p.rate_of_climb), float(p.fuel_flow)), None))
        return p


def detect_given_fix() -> bool:
    """True iff fly(..., starting_mass=x) flies (the fuel load is derived although the mass is handed in)."""
    import AEIC.trajectories.builders as tb
    b = tb.LegacyBuilder(options=tb.Options(iterate_mass=False), legacy_options=tb.LegacyOptions(0.02, 0.02, 0.02))
    case = {'o': 'BOS', 'd': 'LAX', 'lf': 1.0}
    try:
        b.fly(perf_model(None), mission_of(case), starting_mass=70000.0)
    except TypeError:
        return False
    return True


def detect_f1_fixed() -> bool:
    """True iff make_point(-1) of the tree under test returns the last appended point after 51 appends."""
    from AEIC.trajectories import Trajectory
    t = Trajectory()
    for i in range(51):
        pt = t.make_point()
        for f in FIELDS:
            setattr(pt, f, float(i + 1))
        t.append(pt)
    return float(t.make_point(-1).flight_time) == 51.0


# ----------------------------------------------------------------------------------------------
# one flight on the implementation
# ----------------------------------------------------------------------------------------------

def mission_of(case):
    from AEIC.missions import Mission
    from AEIC.missions.mission import iso_to_timestamp
    if case.get('dest_def'):
        ensure_airport(case['d'], *case['dest_def'])
    return Mission(origin=case['o'], destination=case['d'], departure=iso_to_timestamp('2024-09-01T12:00:00'),
                   arrival=iso_to_timestamp('2024-09-01T18:00:00'), aircraft_type='738',
                   load_factor=case['lf'])


def classify_exception(e: BaseException) -> str:
    """Map an exception of Builder.fly to the model's refusal classes (by raise site, looking through the
    `del self.ctx` mask of F15, which is C17's business)."""
    if isinstance(e, AttributeError) and "'ctx'" in str(e) and e.__context__ is not None:
        e = e.__context__
    tb = e.__traceback__
    frames = []
    while tb is not None:
        frames.append((Path(tb.tb_frame.f_code.co_filename).name, tb.tb_frame.f_code.co_name))
        tb = tb.tb_next
    names = [n for _, n in frames]
    last_file, last_fn = frames[-1] if frames else ('', '')
    if isinstance(e, RuntimeError) and last_fn == '_iterate_mass':
        return 'ENoConv'
    if type(e).__name__ == 'Exception' and last_file == 'ground_track.py' and last_fn in ('step', 'lookup_waypoint'):
        return 'ETrack'
    if isinstance(e, ValueError) and last_file == 'legacy.py' and last_fn == '__init__':
        return 'ESchedule'
    if isinstance(e, TypeError) and '_start_point' in names and 'fuel_mass' in str(e):
        return 'ENoFuelLoad'
    if isinstance(e, IndexError) and last_fn == 'make_point':
        return 'EHandover'
    if isinstance(e, ValueError) and last_file == 'weather.py' and 'outside weather data domain' in str(e):
        return 'EWeather'
    if 'evaluate' in names and isinstance(e, ValueError):
        return 'EPerf'
    return f'other:{type(e).__name__}:{str(e)[:80]}'


def fly_impl(case):
    """Fly `case` with the real builder; return everything the model and the oracle need."""
    import numpy as np
    import AEIC.trajectories.builders as tb
    from AEIC.trajectories.ground_track import GroundTrack

    pm = perf_model(case.get('table'))
    proxy = PerfProxy(pm)
    mis = mission_of(case)
    opts = tb.Options(iterate_mass=case['iterate'], max_mass_iters=case['max_iters'],
                      mass_iter_reltol=case['reltol'], use_weather=bool(case.get('wind')))
    lo = tb.LegacyOptions(frac_step_clm=case['f_clm'], frac_step_crz=case['f_crz'], frac_step_des=case['f_des'])
    builder = tb.LegacyBuilder(options=opts, legacy_options=lo)
    steps = []
    orig_step = GroundTrack.step

    def rec_step(self, from_distance, distance_step):
        try:
            g = orig_step(self, from_distance, distance_step)
        except Exception as e:  # noqa: BLE001
            steps.append((float(from_distance), float(distance_step), None, type(e).__name__))
            raise
        steps.append((float(from_distance), float(distance_step),
                      (float(g.location.longitude), float(g.location.latitude), float(g.azimuth)), None))
        return g

    from AEIC.weather import Weather
    winds = []
    orig_gs = Weather.get_ground_speed

    def rec_gs(self, *a, **k):
        tas = float(k['true_airspeed'])
        try:
            g = orig_gs(self, *a, **k)
        except Exception as e:  # noqa: BLE001
            winds.append((tas, None, type(e).__name__))
            raise
        winds.append((tas, float(g), None))
        return g

    GroundTrack.step = rec_step
    Weather.get_ground_speed = rec_gs
    out = {'perf': proxy.calls, 'steps': steps, 'winds': winds}
    try:
        kw = {}
        if case.get('given_mass') is not None:
            kw['starting_mass'] = case['given_mass']
        traj = builder.fly(proxy, mis, **kw)
        out['ok'] = True
        out['traj'] = traj
        out['cols'] = {f: np.array(getattr(traj, f), dtype=float).tolist() for f in FIELDS}
        out['n'] = (int(traj.n_climb), int(traj.n_cruise), int(traj.n_descent))
        out['start_mass'] = float(traj.starting_mass)
        out['total_fuel'] = float(traj.total_fuel_mass)
    except Exception as e:  # noqa: BLE001
        out['ok'] = False
        out['err'] = classify_exception(e)
        out['exc'] = f'{type(e).__name__}: {str(e)[:120]}'
    finally:
        GroundTrack.step = orig_step
        Weather.get_ground_speed = orig_gs
    # fixed data of the flight, from the real classes (the geodesic is C15's oracle)
    out['ceiling'] = float(pm.maximum_altitude)
    try:
        gt = GroundTrack.great_circle(mis.origin_position.location, mis.destination_position.location,
                                      allow_overstep=True)
        out['total'] = float(gt.total_distance)
        out['az0'] = float(gt[0].azimuth)
        out['o'] = (float(mis.origin_position.longitude), float(mis.origin_position.latitude),
                    float(mis.origin_position.altitude))
        out['d'] = (float(mis.destination_position.longitude), float(mis.destination_position.latitude),
                    float(mis.destination_position.altitude))
    except Exception as e:  # noqa: BLE001
        out['total'] = None
        out['geo_exc'] = f'{type(e).__name__}: {e}'
    out['pm'] = (float(pm.maximum_payload), float(pm.empty_mass), float(pm.maximum_mass))
    out['mass_range'] = (float(min(pm.performance_table.mass)), float(max(pm.performance_table.mass)))
    out['fl_range'] = (float(min(pm.performance_table.fl)), float(max(pm.performance_table.fl)))
    return out


# ----------------------------------------------------------------------------------------------
# the model side
# ----------------------------------------------------------------------------------------------

HEADER = ('From Coq Require Import ZArith List PrimFloat.\nFrom AV Require Import lib.Num lib.FloatMath '
          'model.C02_Model.\nImport ListNotations.\nOpen Scope float_scope.\n')


def n_points(case):
    return int(1 / case['f_clm']), int(1 / case['f_crz']), int(1 / case['f_des'] + 1)


def coq_flight_expr(case, impl, fixed: bool, gfix: bool = False) -> str:
    pl = [Some(c[3]) if c[3] is not None else None for c in impl['perf']]
    gl = [s[2] for s in impl['steps'] if s[2] is not None]
    n1, n2, n3 = n_points(case)
    o, d = impl['o'], impl['d']
    mp, em, mm = impl['pm']
    fl = (f"(@mkflight FNum {to_coq(o[2])} {to_coq(d[2])} {to_coq(impl['ceiling'])} {to_coq(o[0])} {to_coq(o[1])} "
          f"{to_coq(impl['az0'])} {to_coq(impl['total'])} {to_coq(float(case['lf']))} {to_coq(mp)} {to_coq(em)} "
          f"{to_coq(mm)} {to_coq(43.8e6)} {nat(n1)} {nat(n2)} {nat(n3)})")
    given = to_coq(Some(float(case['given_mass']))) if case.get('given_mass') is not None else 'None'
    wl = [Some(w[1]) if w[1] is not None else None for w in impl['winds']]
    return (f"run_flight {to_coq(fixed)} {to_coq(gfix)} {to_coq(pl)} {to_coq(gl)} {to_coq(bool(case.get('wind')))} "
            f"{to_coq(wl)} {fl} {given} {to_coq(bool(case['iterate']))} "
            f"{nat(case['max_iters'])} {to_coq(float(case['reltol']))}")


def compare_flight(case, impl, m):
    """None if model and implementation agree, else a description."""
    if m is None:
        return None
    if isinstance(m, tuple) and m[0] == 'Refused':
        if impl['ok']:
            return f'model refuses ({m[1]}), implementation returns a trajectory'
        if impl['err'] != m[1]:
            return f"model refuses with {m[1]}, implementation with {impl['err']} ({impl['exc']})"
        return None
    if not (isinstance(m, tuple) and m[0] == 'Flown'):
        return f'unparsed model outcome {str(m)[:80]}'
    if not impl['ok']:
        return f"model returns a trajectory, implementation refuses: {impl['err']} ({impl['exc']})"
    _, nc, ncr, nd, sm, tf, _resid, kp, kg, rows = m
    if (nc, ncr, nd) != impl['n']:
        return f"phase counts model {(nc, ncr, nd)} vs implementation {impl['n']}"
    if case.get('wind') and len(impl['winds']) != kg:
        return f"ground-speed calls: implementation {len(impl['winds'])}, track steps of the model {kg}"
    if kp != len(impl['perf']) or kg != sum(1 for s in impl['steps'] if s[2] is not None):
        return f"oracle calls model ({kp},{kg}) vs implementation ({len(impl['perf'])},{len(impl['steps'])})"
    if not close(sm, impl['start_mass']) or not close(tf, impl['total_fuel']):
        return f"starting mass / fuel load model ({sm},{tf}) vs implementation ({impl['start_mass']},{impl['total_fuel']})"
    npts = len(impl['cols'][FIELDS[0]])
    if len(rows) != npts:
        return f'number of points model {len(rows)} vs implementation {npts}'
    for j, f in enumerate(FIELDS):
        col = impl['cols'][f]
        scale = max(1.0, max(abs(x) for x in col if math.isfinite(x)) if any(math.isfinite(x) for x in col) else 1.0)
        for i in range(npts):
            if not close(rows[i][j], col[i], rel=1e-9, scale=scale, abs_=1e-9):
                return f'point {i} field {f}: model {rows[i][j]!r} vs implementation {col[i]!r}'
    # the recorded oracle arguments are the model's: evaluation k was made at (altitude, mass) of a model state
    return None


# ----------------------------------------------------------------------------------------------
# the independent oracle (property statement, plain Python)
# ----------------------------------------------------------------------------------------------

def altitude_verdict(o_elev: float, d_elev: float, ceiling: float):
    """From the property statement: the climb starts 3000 ft above the origin (at its own elevation if that reaches the
    ceiling), cruise is at ceiling - 7000 ft but not below the start level nor above the ceiling, the descent ends
    3000 ft above the destination (at the ceiling if that reaches it) and never goes up.  A mission whose start level is
    above the cruise level, or whose descent target is above it, cannot be flown: 'departure' / 'arrival'."""
    start = o_elev + 3000 * FT
    if start >= ceiling:
        start = o_elev
    cruise = min(max(ceiling - 7000 * FT, start), ceiling)
    if start > cruise:
        return 'departure'
    target = d_elev + 3000 * FT
    if target >= ceiling:
        target = ceiling
    if target > cruise:
        return 'arrival'
    return None


def oracle_trajectory(case, impl):
    """Returns a list of (index, message) violations of the property statement on the returned trajectory."""
    import numpy as np
    from pyproj import Geod
    bad = []
    c = {f: np.array(impl['cols'][f], dtype=float) for f in FIELDS}
    n = len(c['altitude'])
    for f in FIELDS:
        nf = np.nonzero(~np.isfinite(c[f]))[0]
        if len(nf):
            bad.append((int(nf[0]), f'{f} is not finite'))
    if bad:
        return bad
    mass, fuel, t, s, alt = c['aircraft_mass'], c['fuel_mass'], c['flight_time'], c['ground_distance'], c['altitude']
    # mass minus remaining fuel is constant
    dry = mass - fuel
    dev = np.abs(dry - dry[0])
    j = np.nonzero(dev > 1e-9 * max(1.0, abs(mass[0])))[0]
    if len(j):
        bad.append((int(j[0]), f'aircraft mass minus fuel mass changes: {dry[0]!r} -> {dry[j[0]]!r}'))
    for name, arr, sign in (('fuel mass', fuel, -1), ('aircraft mass', mass, -1), ('flight time', t, 1),
                            ('ground distance', s, 1)):
        dd = np.diff(arr) * sign
        j = np.nonzero(dd < 0)[0]
        if len(j):
            k = int(j[0])
            bad.append((k + 1, f'{name} goes the wrong way between points {k} and {k + 1}: {arr[k]!r} -> {arr[k + 1]!r}'))
    # every state is inside the envelope of the table: flight levels everywhere, masses where the table has a
    # mass axis (climb and cruise; the descent rows carry a single mass)
    if 'mass_range' in impl:
        mlo, mhi = impl['mass_range']
        nc0, ncr0, _ = impl['n']
        j = np.nonzero((mass[:nc0 + ncr0] < mlo) | (mass[:nc0 + ncr0] > mhi))[0]
        if len(j):
            bad.append((int(j[0]), f'aircraft mass {mass[j[0]]!r} of point {int(j[0])} is outside the mass range '
                                   f'[{mlo}, {mhi}] of the performance table'))
        fl = alt / (100 * FT)
        flo, fhi = impl['fl_range']
        j = np.nonzero((fl < flo - 1e-6) | (fl > fhi + 1e-6))[0]
        if len(j):
            bad.append((int(j[0]), f'flight level {fl[j[0]]!r} of point {int(j[0])} is outside the table [{flo}, {fhi}]'))
    # first point
    if mass[0] != impl['start_mass'] or fuel[0] != impl['total_fuel']:
        bad.append((0, f"first point ({mass[0]!r},{fuel[0]!r}) is not the reported start ({impl['start_mass']!r},{impl['total_fuel']!r})"))
    if t[0] != 0 or s[0] != 0:
        bad.append((0, 'first point is not at time 0 / distance 0'))
    # positions: on the origin-destination geodesic at the recorded distance (independent pyproj object)
    g = Geod(ellps='WGS84')
    (olon, olat, oalt), (dlon, dlat, dalt) = impl['o'], impl['d']
    az0, _, total = g.inv(olon, olat, dlon, dlat)
    elon, elat, _ = g.fwd(np.full(n, olon), np.full(n, olat), np.full(n, az0), s)
    _, _, sep = g.inv(c['longitude'], c['latitude'], elon, elat)
    j = np.nonzero(~(np.abs(sep) <= 1e-3))[0]
    if len(j):
        k = int(j[0])
        bad.append((k, f'point {k} is {sep[k]:.3f} m away from the great circle point at its recorded distance {s[k]!r}'))
    # altitude
    nc, ncr, nd = impl['n']
    ceiling = impl['ceiling']
    tol = 1e-9 * max(1.0, ceiling)
    start = oalt + 3000 * FT
    if start >= ceiling:
        start = oalt
    if abs(alt[0] - start) > tol:
        bad.append((0, f'altitude starts at {alt[0]!r}, expected {start!r}'))
    if nc + ncr + nd + 1 != n or min(nc, ncr, nd) < 1:
        bad.append((0, f'phase counts {impl["n"]} do not partition {n} points'))
        return bad
    climb, cruise, descent = alt[:nc], alt[nc:nc + ncr], alt[nc + ncr:]
    level = cruise[0]
    if np.any(np.diff(climb) < 0):
        bad.append((int(np.nonzero(np.diff(climb) < 0)[0][0]) + 1, 'altitude decreases during climb'))
    if np.any(cruise != level):
        bad.append((nc + int(np.nonzero(cruise != level)[0][0]), 'altitude changes during cruise'))
    if np.any(np.diff(descent) > 0):
        bad.append((nc + ncr + int(np.nonzero(np.diff(descent) > 0)[0][0]) + 1, 'altitude increases during descent'))
    end = dalt + 3000 * FT
    if abs(alt[-1] - end) > tol and not (end >= ceiling):
        bad.append((n - 1, f'descent ends at {alt[-1]!r}, expected {end!r}'))
    j = np.nonzero((alt > level + tol) | (alt > ceiling + tol))[0]
    if len(j):
        bad.append((int(j[0]), f'altitude {alt[j[0]]!r} exceeds cruise level {level!r} / ceiling {ceiling!r}'))
    return bad


def resample_impl(traj):
    import numpy as np
    return lambda q: {f: np.array(getattr(traj.interpolate_time(np.array(q, dtype=float)), f), dtype=float)
                      for f in FIELDS}


def resample_prefix(cols):
    """np.interp fed with the stored points only (what interpolate_time is specified to do)."""
    import numpy as np
    t = np.array(cols['flight_time'], dtype=float)
    return lambda q: {f: np.interp(np.array(q, dtype=float), t, np.array(cols[f], dtype=float),
                                   left=np.nan, right=np.nan) for f in FIELDS}


def resample_as_coded(traj):
    """np.interp fed with the capacity-long buffers: what interpolate_time does before fixes/FC02a.diff."""
    import numpy as np
    t = np.array(traj._data['flight_time'], dtype=float)
    return lambda q: {f: np.interp(np.array(q, dtype=float), t, np.array(traj._data[f], dtype=float),
                                   left=np.nan, right=np.nan) for f in FIELDS}


def same_resampling(r1, r2, queries) -> bool:
    import numpy as np
    for q in queries:
        a, b = r1(q), r2(q)
        for f in FIELDS:
            if not np.array_equal(np.asarray(a[f], dtype=float), np.asarray(b[f], dtype=float), equal_nan=True):
                return False
    return True


def pick_queries(t, rng):
    idx = [i for i in range(len(t) - 1) if t[i + 1] > t[i]]
    pick = [idx[rng.randrange(len(idx))] for _ in range(min(12, len(idx)))] if idx else []
    lam = [rng.choice([0.5, 0.25, rng.random()]) for _ in pick]
    return pick, lam


def oracle_resample(cols, resample, pick, lam):
    """Resampling at own times gives the stored values back, at intermediate times the linear interpolation
    between the neighbouring points, outside the flown time range nothing (nan)."""
    import numpy as np
    t = np.array(cols['flight_time'], dtype=float)
    n = len(t)
    bad = []
    try:
        own = resample(t.copy())
        q = np.array([t[i] + l * (t[i + 1] - t[i]) for i, l in zip(pick, lam)], dtype=float)
        mid = resample(q) if len(q) else None
        outside = resample(np.array([t[0] - 1.0, t[-1] + 1.0]))
    except Exception as e:  # noqa: BLE001
        return [(0, f'resampling raises {type(e).__name__}: {e}')]
    dup = [(i and t[i - 1] == t[i]) or (i + 1 < n and t[i + 1] == t[i]) for i in range(n)]
    for f in FIELDS:
        y = np.array(cols[f], dtype=float)
        r = own[f]
        if len(r) != n:
            bad.append((0, f'resampling {f} at own times returns {len(r)} values for {n} points'))
            continue
        for i in range(n):
            # at a time carried by several points (the hand-over point is stored twice) the resampled value
            # must be the value of one of them; otherwise exactly the stored value
            same = [k for k in range(n) if t[k] == t[i]] if dup[i] else [i]
            if not any(r[i] == y[k] for k in same):
                bad.append((i, f'resampling {f} at own time {float(t[i])!r} gives {float(r[i])!r}, stored {float(y[i])!r}'))
                break
        if mid is not None:
            rm = mid[f]
            for k, (i, l) in enumerate(zip(pick, lam)):
                x0, x1, y0, y1 = t[i], t[i + 1], y[i], y[i + 1]
                if not x0 < q[k] < x1:       # rounding put the query on a node
                    continue
                w = (q[k] - x0) / (x1 - x0)
                want = y0 * (1 - w) + y1 * w
                if not close(float(rm[k]), float(want), rel=1e-9, scale=max(abs(y0), abs(y1), 1e-300), abs_=1e-9):
                    bad.append((i, f'resampling {f} at {float(q[k])!r} between points {i},{i + 1} gives '
                                   f'{float(rm[k])!r}, linear interpolation {float(want)!r}'))
                    break
        if not np.all(np.isnan(outside[f])):
            bad.append((0, f'resampling {f} outside the flown time range gives {outside[f].tolist()} instead of nan'))
    return bad


def make_grids(t, rng):
    """Increasing (or non-decreasing) query grids inside the flown time range, chosen to differ from the stored
    time axis in every way a resampler might short-cut: same length and end points but other interior times,
    shifted interior, subsets, supersets, repeated times, only the end points in common."""
    import numpy as np
    t = np.array(t, dtype=float)
    n = len(t)
    grids = {}
    if n < 3 or not t[-1] > t[0]:
        return grids
    grids['linspace-same-length'] = np.linspace(t[0], t[-1], n)
    sh = t.copy()
    for i in range(1, n - 1):
        sh[i] = t[i] + rng.choice([0.25, 0.5, 0.75]) * (t[i + 1] - t[i])
    grids['own-interior-shifted'] = sh
    k = rng.choice([2, 3, 7])
    sub = t[::k]
    grids['subset'] = sub if sub[-1] == t[-1] else np.append(sub, t[-1])
    grids['superset'] = np.sort(np.concatenate([t, (t[:-1] + t[1:]) / 2]))
    grids['each-time-twice'] = np.repeat(t, 2)
    m = rng.randint(3, max(3, min(40, n)))
    inner = np.sort(np.array([t[0] + rng.random() * (t[-1] - t[0]) for _ in range(m)]))
    grids['end-points-plus-random'] = np.concatenate([[t[0]], inner, [t[-1]]])
    return grids


def oracle_grids(cols, resample, grids):
    """Every resampled value is the linear interpolation between the two stored points around the query time
    (the stored value at a stored time; at a time stored twice, one of the two); the resampled trajectory has one
    point per query time."""
    import numpy as np
    t = np.array(cols['flight_time'], dtype=float)
    n = len(t)
    bad = []
    for gname, q in grids.items():
        try:
            r = resample(q)
        except Exception as e:  # noqa: BLE001
            bad.append((0, f'resampling on the grid {gname} raises {type(e).__name__}: {e}'))
            continue
        hi = np.clip(np.searchsorted(t, q, side='right') - 1, 0, n - 1)        # last stored time <= q
        nxt = np.clip(hi + 1, 0, n - 1)
        lo = np.searchsorted(t, q, side='left')                                 # first stored time >= q
        for f in FIELDS:
            y = np.array(cols[f], dtype=float)
            got = np.asarray(r[f], dtype=float)
            if got.shape != q.shape:
                bad.append((0, f'grid {gname}: {len(got)} values of {f} for {len(q)} query times'))
                break
            dt = t[nxt] - t[hi]
            w = np.where(dt > 0, (q - t[hi]) / np.where(dt > 0, dt, 1.0), 0.0)
            want = y[hi] * (1 - w) + y[nxt] * w
            scale = np.maximum(np.maximum(np.abs(y[hi]), np.abs(y[nxt])), 1e-300)
            ok = np.abs(got - want) <= 1e-9 * scale + 1e-9
            for j in np.nonzero(~ok)[0]:
                # a query on a stored time that is stored more than once may return any of those points
                if t[hi[j]] == q[j] and any(got[j] == y[k] for k in range(int(lo[j]), int(hi[j]) + 1)):
                    continue
                bad.append((int(hi[j]), f'grid {gname}: {f} at time {float(q[j])!r} is {float(got[j])!r}, the linear '
                                        f'interpolation between points {int(hi[j])} and {int(nxt[j])} is {float(want[j])!r}'))
                break
            if bad and bad[-1][1].startswith(f'grid {gname}'):
                break
    return bad


def interp_job(cols, pick, lam):
    """data for the model-vs-np.interp comparison (library semantics on the stored points)"""
    import numpy as np
    t = np.array(cols['flight_time'], dtype=float)
    q = t.tolist()[:: max(1, len(t) // 40)] + [float(t[i] + l * (t[i + 1] - t[i])) for i, l in zip(pick, lam)] \
        + [float(t[0] - 1.0), float(t[-1] + 1.0)]
    rs = resample_prefix(cols)(q)
    return {'t': t.tolist(), 'q': q,
            'fields': {f: (list(cols[f]), rs[f].tolist()) for f in ('fuel_mass', 'rate_of_climb', 'ground_distance')}}


def detect_interp_fixed() -> bool:
    """True iff interpolate_time of the tree under test resamples the stored points only (51 points, own times)."""
    import numpy as np
    from AEIC.trajectories import Trajectory
    t = Trajectory()
    for i in range(51):
        pt = t.make_point()
        for f in FIELDS:
            setattr(pt, f, float(i + 1))
        t.append(pt)
    r = t.interpolate_time(np.array(t.flight_time, dtype=float))
    return np.array_equal(np.array(r.fuel_mass, dtype=float), np.arange(1.0, 52.0))


def f1_signature(case, impl, first_bad_index, f1_fixed):
    """F1's narrow signature: the tree has the as-coded make_point, some phase hands over while the container
    is not full, and nothing is wrong before that hand-over."""
    if f1_fixed:
        return None
    nc, ncr, _ = impl['n']
    unaligned = [h for h in (nc, nc + ncr) if h % 50 != 0]
    if unaligned and first_bad_index >= min(unaligned) - 1:
        return F1_SIG
    return None


# ----------------------------------------------------------------------------------------------
# generation
# ----------------------------------------------------------------------------------------------

def gen_table(rng, long_range=False, ceiling_ft=None):
    if long_range:
        # a valid table with a fifth of the fuel flow: the only way a narrow-body table covers 19 800 km
        return {'tas': 1.1, 'rocd': 1.0, 'ff': 0.15, 'mass': 1.0, 'ceiling_ft': rng.choice([39000, 41000]), 'payload': 22422}
    if ceiling_ft is None and rng.random() < 0.45:
        return None
    return {'tas': rng.choice([0.85, 1.0, 1.1]), 'rocd': rng.choice([0.7, 1.0, 1.3]),
            'ff': rng.choice([0.6, 1.0, 1.5]), 'mass': rng.choice([0.9, 1.0, 1.2]),
            'ceiling_ft': ceiling_ft or rng.choice([33000, 37000, 39000, 41000, 41000, 45000, 50000]),
            'payload': rng.choice([15000, 22422, 30000]),
            # a thirstier climb than the cruise-based fuel estimate allows for: negative fuel residuals
            'ff_climb': rng.choice([1.0, 1.0, 3.0, 5.0]),
            # a shallower descent than the 18.23 * dh guess of the builder: the flight overshoots the destination
            'rocd_des': rng.choice([1.0, 1.0, 0.8, 0.7])}


REGIONAL = ['BOS', 'LAX', 'JFK', 'DEN', 'SFO', 'MIA', 'SEA', 'ORD', 'ABQ']
# (origin, destination, ceiling ft): origin + 3000 ft inside [ceiling - 7000 ft, ceiling) ...
HIGH_IN_BAND = [('LPB', 'LO3', 17000), ('LPB', 'LO3', 20000), ('LPB', 'CUZ', 23000), ('CUZ', 'LO3', 15000),
                ('CUZ', 'LPB', 20000), ('BPX', 'LO4', 20000), ('DCY', 'LO4', 20000), ('LXA', 'LO4', 15000),
                ('DEN', 'ABQ', 15000), ('DEN', 'ABQ', 12000), ('HI1', 'LO1', 33000), ('HI1', 'LO2', 37000),
                ('HI6', 'LO2', 33000), ('HI6', 'LO1', 37000), ('HI5', 'LO1', 37000)]
# ... at or above the ceiling (the climb then starts at the airport's own elevation), incl. exact equality
HIGH_FALLBACK = [('LPB', 'LO3', 15000), ('LPB', 'LO3', 16355), ('BPX', 'LO4', 17000), ('DCY', 'LO4', 16000),
                 ('HI2', 'LO2', 33000), ('HI5', 'LO1', 33000), ('HI3', 'LO2', 37000), ('HI6', 'LO1', 30000),
                 ('LXA', 'LO4', 14000)]
# destination within 3000 ft below the cruise level (refused: the descent would have to climb), just outside on both sides
DEST_BAND = [('BOS', 'DEN', 15000), ('BOS', 'DEN', 13000), ('LAX', 'ABQ', 14000), ('ORD', 'DEN', 15400), ('LO3', 'LPB', 22000),
             ('LO3', 'CUZ', 19000), ('LO4', 'LXA', 20000), ('JFK', 'DEN', 15431), ('BOS', 'DEN', 12431),
             ('BOS', 'DEN', 12000), ('BOS', 'DEN', 15500), ('LAX', 'ABQ', 15400), ('LO3', 'CUZ', 21000)]
SHORT = [('BOS', 'JFK'), ('JFK', 'BOS'), ('LAX', 'SFO'), ('DEN', 'ABQ'), ('LPB', 'CUZ'), ('HI1', 'LO1'), ('LXA', 'LO4'),
         ('LYR', 'YLT'), ('SFO', 'LAX')]


def gen_case(rng, f1_fixed):
    codes = list(AIRPORTS)
    r = rng.random()
    long_range = False
    ceiling = None
    if r < 0.30:
        o, d = rng.sample(REGIONAL, 2)
    elif r < 0.35:
        o, d = rng.choice([('LHR', 'JFK'), ('BOS', 'LHR'), ('MAD', 'LHR'), ('LHR', 'LYR'), ('HNL', 'LAX'), ('SEA', 'LYR')])
    elif r < 0.46:
        o, d = rng.choice([('NAN', 'HNL'), ('AKL', 'PPT'), ('NRT', 'ADK'), ('ADK', 'NRT'), ('PPT', 'AKL'), ('AKL', 'NAN'),
                           ('NAN', 'PPT'), ('HNL', 'NRT')])
    elif r < 0.55:
        o, d = rng.choice([('LYR', 'YLT'), ('YLT', 'LYR'), ('NPX', 'LYR'), ('LYR', 'NPX'), ('MCM', 'SPX'), ('SPX', 'MCM'),
                           ('CHC', 'MCM'), ('YLT', 'NPX'), ('SPX', 'AKL')])
    elif r < 0.60:
        o, d = rng.choice([('MAD', 'WLG'), ('BOS', 'APB'), ('WLG', 'MAD'), ('APB', 'BOS')])
        long_range = rng.random() < 0.8
    elif r < 0.68:
        o, d = rng.choice([('LPB', 'CUZ'), ('CUZ', 'LPB'), ('BPX', 'LXA'), ('DCY', 'LXA'), ('DEN', 'ABQ'), ('LXA', 'BPX'),
                           ('HI1', 'LXA'), ('LXA', 'HI1'), ('HI2', 'LXA'), ('LXA', 'HI2'), ('HI3', 'LXA'), ('LXA', 'HI3'),
                           ('HI4', 'LXA'), ('LXA', 'HI4'), ('HI1', 'HI2'), ('HI1', 'DCY')])
    elif r < 0.80:
        # high origin against a low-ceiling (synthetic, valid) table: the start-altitude fall-back
        o, d, ceiling = rng.choice(HIGH_IN_BAND if rng.random() < 0.45 else HIGH_FALLBACK if rng.random() < 0.5 else DEST_BAND)
    elif r < 0.90:
        o, d = rng.choice(SHORT)                              # climb + descent barely fit / do not fit
    else:
        o, d = rng.sample(codes, 2)
        if rng.random() < 0.4:
            d = o                                             # zero-length route: too short
    # step fractions.  With the as-coded make_point a phase of fewer than 50 points hands over the all-zero
    # point and the flight aborts in cruise, so in that state most cases use 50/80/100 points per phase.
    small = [0.01, 0.0125, 0.02]
    u = rng.random()
    if u < 0.25:
        f = rng.choice([0.01, 0.02])
        fr = (f, f, f)
    elif u < (0.75 if not f1_fixed else 0.40):
        fr = tuple(rng.choice(small) for _ in range(3))
    elif u < 0.85:
        fr = tuple(rng.choice(CROSSING + [0.02]) for _ in range(3))
    elif u < 0.92:
        f = rng.choice(FRACS)
        fr = (f, f, f)
    else:
        fr = tuple(rng.choice(FRACS) for _ in range(3))
    wind = rng.random() < 0.08
    if wind:
        f = rng.choice([0.02, 0.02, 0.05 if f1_fixed else 0.02])
        fr = (f, f, f)
    iterate = rng.random() < (0.4 if not wind else 0.15)
    case = {'o': o, 'd': d, 'lf': rng.choice([0.0, 0.3, 0.5, 0.75, 0.9, 1.0, 1.0, round(rng.random(), 3)]),
            'f_clm': fr[0], 'f_crz': fr[1], 'f_des': fr[2], 'iterate': iterate,
            'max_iters': rng.choice([1, 2, 3, 5, 8]) if iterate else 5,
            'reltol': rng.choice([1e-2, 1e-3, 5e-2, 1e-6]) if iterate else 1e-2,
            'given_mass': None, 'table': gen_table(rng, long_range, ceiling), 'wind': wind}
    if rng.random() < 0.16:
        # a starting mass handed in by the caller: below the lightest table mass, inside, exactly on the heaviest,
        # just above it and well above it
        pm = perf_model(case['table'])
        lo, hi = float(min(pm.performance_table.mass)), float(pm.maximum_mass)
        case['given_mass'] = rng.choice([0.9 * lo, lo, lo + 0.35 * (hi - lo), lo + 0.7 * (hi - lo), 0.97 * hi, hi,
                                         hi * (1 + 1e-4), hi * (1 + 1e-4), hi + 1.0, 1.1 * hi])
        if case['given_mass'] >= hi and rng.random() < 0.7:
            case['iterate'] = False
    return case


# ----------------------------------------------------------------------------------------------
# run
# ----------------------------------------------------------------------------------------------

def boundary_cases(chk: Check, rng, n_tables: int, dense: int):
    """Directed route-length sweep around the too-short boundary: for a table and an origin, bisect the shortest route
    that is still flown (top of climb before the estimated top of descent), then sample route lengths densely on both
    sides of it, far enough below to cover every route whose estimated top of descent is still ahead of the origin."""
    tables = [None] + [gen_table(rng, False, c) for c in (41000, 37000, 33000)]
    out = []
    for table in tables[:n_tables]:
        for base, az in (('BOS', 250.0), ('DEN', 95.0), ('LYR', 300.0))[: 2 if n_tables < 3 else 3]:
            elev = AIRPORTS[base][2]

            def case_at(dist_km, fr=(0.02, 0.02, 0.02)):
                lat, lon = place(base, dist_km, az)
                defn = [round(lat, 7), round(lon, 7), elev]
                return {'o': base, 'd': dyn_code(defn), 'dest_def': defn, 'lf': 1.0, 'f_clm': fr[0], 'f_crz': fr[1],
                        'f_des': fr[2], 'iterate': False, 'max_iters': 5, 'reltol': 1e-2, 'given_mass': None,
                        'table': table, 'wind': False, 'route_km': dist_km}

            def flown(dist_km):
                return fly_impl(case_at(dist_km))['ok']

            lo, hi = 60.0, 900.0
            if flown(lo) or not flown(hi):
                chk.count('boundary:not-bracketed')
                continue
            while hi - lo > 1.0:
                mid = (lo + hi) / 2
                lo, hi = (lo, mid) if flown(mid) else (mid, hi)
            chk.count('boundary:bisected')
            offs = [-95, -80, -65, -50, -38, -27, -18, -10, -5, -2, -0.6, 0.6, 2, 6, 15, 40]
            if dense < len(offs):
                offs = sorted(rng.sample(offs[:10], max(1, dense - 3)) + [-0.6, 0.6, 6])
            for off in offs:
                fr = rng.choice([(0.02, 0.02, 0.02), (0.01, 0.01, 0.01), (0.02, 0.0125, 0.02), (0.01, 0.02, 0.0125)])
                c = case_at(round(hi + off, 3), fr)
                c['iterate'] = rng.random() < 0.2
                out.append(c)
    return out


def extract(chk: Check) -> bool:
    from translator import c02_extract, py2coq
    name = 'extract:units.py+storage/container.py+trajectories/{trajectory,ground_track}.py+builders/{base,legacy}.py'
    try:
        text = c02_extract.extract(REPO)
    except py2coq.Untranslatable as e:
        part = getattr(e, 'part', None)
        chk.obligations.append({'name': f'extract:{part}' if part else name, 'ok': False})
        chk.broken(f'extract:{part}' if part else name, str(e))
        return False
    chk.obligations.append({'name': name, 'ok': True})
    if chk.coq_compile_gen('C02_Extracted', text) is None:
        return False
    return chk.coq_link('C02_Link.v')


def check_container(chk: Check, f1_fixed: bool):
    """Container.append / attribute read / make_point against the model, and the hand-over oracle."""
    from AEIC.trajectories import Trajectory
    cases = [(n, idx) for n in (1, 2, 49, 50, 51, 80, 99, 100, 101, 149, 150, 151, 230)
             for idx in (-1, 0, n - 1, -n, -(n // 2) - 1)]
    cases += [(chk.rng.randint(1, 260), -1) for _ in range(chk.n(20, 200))]
    cases += [(n, idx) for n in (3, 60) for idx in (n, -n - 1)]            # out of range -> IndexError
    impl = []
    for n, idx in cases:
        t = Trajectory()
        for i in range(n):
            pt = t.make_point()
            for f in FIELDS:
                setattr(pt, f, float(i + 1))
            t.append(pt)
        try:
            mp = int(t.make_point(idx).flight_time)
        except IndexError:
            mp = None
        impl.append((len(t), int(t._capacity), [int(x) for x in t.flight_time], mp))
        if mp is not None and n < 120:
            # the handed-over point is the caller's copy: writing to it, or appending more points (which may grow
            # and refill the buffers), changes neither the stored points nor the copy
            pt = t.make_point(idx)
            stored = [float(x) for x in t.flight_time]
            pt.flight_time = -7.0
            pt.fuel_mass = -8.0
            after_write = [float(x) for x in t.flight_time] + [float(x) for x in t.fuel_mass]
            keep = t.make_point(idx)
            for i in range(n, n + 60):
                q = t.make_point()
                for f in FIELDS:
                    setattr(q, f, float(i + 1))
                t.append(q)
            case = {'kind': 'container', 'appends': n, 'idx': idx}
            if after_write != stored + stored:
                chk.fail(f'writing to the point returned by make_point({idx}) changed the stored points', case)
            elif float(keep.flight_time) != float(mp) or [float(x) for x in t.flight_time][:n] != stored:
                chk.fail(f'appending after make_point({idx}) changed the point taken earlier or the stored points', case)
            elif float(pt.flight_time) != -7.0:
                chk.fail('a single point does not keep the value written to it', case)
    model = chk.coq_eval(HEADER, [f'cont_run {to_coq(f1_fixed)} {nat(n)} {to_coq(idx)}' for n, idx in cases],
                         label='container')
    for (n, idx), im, mo in zip(cases, impl, model):
        case = {'kind': 'container', 'appends': n, 'idx': idx}
        chk.case(case, nontrivial=(n % 50 != 0 and idx < 0))
        chk.count('container')
        size, cap, vals, mp = im
        want = None if not (-n <= idx < n) else (idx + n if idx < 0 else idx) + 1
        if vals != list(range(1, n + 1)) or size != n:
            chk.fail(f'reading a field after {n} appends does not give the appended values', case, signature=None)
        elif mp != want:
            chk.fail(f'make_point({idx}) after {n} appends returns point {mp}, expected point {want} '
                     f'(capacity {cap})', case,
                     signature=F1_SIG if (not f1_fixed and idx < 0 and n != cap) else None)
        if mo is not None:
            msize, mcap, mvals, mmp = mo
            if (msize, mcap, mvals, mmp) != (size, cap, vals, mp):
                chk.broken('correspondence:C02_Model.Container', f'model {(msize, mcap, mmp)} vs implementation {(size, cap, mp)}', case)
            else:
                chk.traces_validated += 1


def check_flights(chk: Check, cases, f1_fixed: bool, interp_fixed: bool, gfix: bool = False):
    impls = []
    exprs = []
    keep = []
    interp_jobs = []
    for case in cases:
        im = fly_impl(case)
        if im.get('total') is None:
            chk.broken('harness:airport-lookup', im.get('geo_exc', ''), case)
            continue
        viol = []
        rviol = []
        if im['ok']:
            viol = oracle_trajectory(case, im)
            if not viol:             # resampling is judged on trajectories that obey the bookkeeping rules
                pick, lam = pick_queries(im['cols']['flight_time'], chk.rng)
                grids = make_grids(im['cols']['flight_time'], chk.rng)
                rviol = oracle_resample(im['cols'], resample_impl(im['traj']), pick, lam)
                rviol += oracle_grids(im['cols'], resample_impl(im['traj']), grids)
                for g in grids:
                    chk.count('resample-grid:' + g)
                if rviol:
                    # narrow match of FC02a: the stored points resample correctly, and the implementation does
                    # exactly what np.interp does on the capacity-long buffers (nothing else is wrong)
                    t = im['cols']['flight_time']
                    qs = [t, [t[i] + l * (t[i + 1] - t[i]) for i, l in zip(pick, lam)], [t[0] - 1.0, t[-1] + 1.0]]
                    im['resample_prefix_ok'] = (
                        not oracle_resample(im['cols'], resample_prefix(im['cols']), pick, lam)
                        and not oracle_grids(im['cols'], resample_prefix(im['cols']), grids)
                        and same_resampling(resample_impl(im['traj']), resample_as_coded(im['traj']),
                                            [q for q in qs if len(q)] + list(grids.values())))
                interp_jobs.append((case, interp_job(im['cols'], pick, lam)))
        im['rviol'] = rviol
        # the hypotheses of the theorems about the performance oracle, on every recorded answer of this flight
        for rule, alt, mass, ans, _exc in im['perf']:
            if ans is None:
                continue
            tas, rocd, ff = ans
            ok = tas > abs(rocd) and ((rule == 'CLIMB' and rocd > 0) or (rule == 'DESCEND' and rocd < 0)
                                      or (rule == 'CRUISE' and ff > 0))
            if not ok:
                chk.broken('assumption:valid_oracle',
                           f'performance model answered {ans} for {rule} at altitude {alt}, mass {mass}: outside the '
                           'hypotheses (climb rocd > 0, descent rocd < 0, tas > |rocd|, cruise fuel flow > 0)',
                           {'kind': 'flight', 'case': case})
                break
        chk.count('oracle-answers-checked', sum(1 for c in im['perf'] if c[3] is not None))
        im['viol'] = viol
        im.pop('traj', None)
        impls.append(im)
        keep.append(case)
        exprs.append(coq_flight_expr(case, im, f1_fixed, gfix))
    models = chk.coq_eval(HEADER, exprs, shard=max(1, len(exprs) // 16 + 1), label='flights')
    for case, im, mo in zip(keep, impls, models):
        nc, ncr, nd = n_points(case)
        unaligned = nc % 50 != 0 or (nc + ncr) % 50 != 0
        chk.case(case, nontrivial=im['ok'] and (unaligned or case['iterate'] or case.get('table') is not None
                                                 or im['o'][2] > 1500 or abs(im['o'][0] - im['d'][0]) > 180))
        chk.count('flight:' + ('returned' if im['ok'] else im['err']))
        chk.count('steps:' + ('aligned' if not unaligned else 'unaligned'))
        verdict = altitude_verdict(im['o'][2], im['d'][2], im['ceiling'])
        if verdict is not None:
            chk.count('unflyable-by-altitude:' + verdict)
            if im['ok'] or im['err'] != 'ESchedule':
                chk.fail(f"{case['o']}-{case['d']} (ceiling {im['ceiling']:.1f} m, elevations {im['o'][2]:.1f} / {im['d'][2]:.1f} m): "
                         f"the {verdict} airport's level is above the cruise level, but the mission is "
                         + ('flown' if im['ok'] else f"refused with {im['exc']} instead of the {verdict}-airport reason"),
                         {'kind': 'flight', 'case': case}, signature=None)
        if case.get('route_km') is not None:
            chk.count('boundary-sweep:' + ('returned' if im['ok'] else im['err']))
        if case.get('wind'):
            chk.count('wind:' + ('returned' if im['ok'] else im['err']))
        if case.get('given_mass') is not None:
            chk.count('given-mass:' + ('returned' if im['ok'] else im['err']))
        if im['ok']:
            if im['cols']['ground_distance'][-1] > im['total']:
                chk.count('returned:overshoots-destination')
            cl = im['ceiling']
            if cl - 7000 * FT <= im['o'][2] + 3000 * FT < cl:
                chk.count('returned:start-level-between-cruise-and-ceiling')
            elif im['o'][2] + 3000 * FT >= cl:
                chk.count('returned:start-at-airport-elevation')
            if case.get('given_mass') is not None and not case['iterate'] and im['start_mass'] != case['given_mass']:
                chk.fail(f"{case['o']}-{case['d']}: starting mass {case['given_mass']} handed in, the trajectory reports "
                         f"{im['start_mass']}", {'kind': 'flight', 'case': case}, signature=None)
        if im['viol']:
            first = min(i for i, _ in im['viol'])
            msg = '; '.join(m for _, m in im['viol'][:3])
            chk.fail(f"{case['o']}-{case['d']} steps {case['f_clm']:.4g}/{case['f_crz']:.4g}/{case['f_des']:.4g}: {msg}",
                     {'kind': 'flight', 'case': case}, signature=f1_signature(case, im, first, f1_fixed))
            # still compare with the as-coded model: any other deviation must alarm
        if im['rviol']:
            npts = len(im['cols']['flight_time'])
            sig = FC02A_SIG if (not interp_fixed and im.get('resample_prefix_ok') and npts % 50 != 0) else None
            msg = '; '.join(m for _, m in im['rviol'][:2])
            chk.fail(f"{case['o']}-{case['d']} ({npts} points): {msg}", {'kind': 'flight', 'case': case}, signature=sig)
        diff = compare_flight(case, im, mo)
        if diff is not None:
            chk.broken('correspondence:C02_Model.fly', diff, {'kind': 'flight', 'case': case})
        elif mo is not None:
            chk.traces_validated += 1
    # np.interp vs the model
    iex, imeta = [], []
    for case, d in interp_jobs[: chk.n(25, 200)]:
        for f, (ys, rs) in d['fields'].items():
            iex.append(f"interp_run {to_coq(d['t'])} {to_coq(ys)} {to_coq(d['q'])}")
            imeta.append((case, f, rs))
    res = chk.coq_eval(HEADER, iex, shard=max(1, len(iex) // 16 + 1), label='interp')
    for (case, f, rs), mo in zip(imeta, res):
        chk.count('interp')
        if mo is None:
            continue
        ok = len(mo) == len(rs) and all(close(a, b, rel=1e-12, abs_=0.0) or (a == b) for a, b in zip(mo, rs))
        if not ok:
            chk.broken('correspondence:C02_Model.interp', f'field {f}: np.interp and the model differ',
                       {'kind': 'flight', 'case': case})
        else:
            chk.traces_validated += 1


def load_corpus(chk):
    out = []
    for f in sorted((VERIF / 'corpus' / chk.pid).glob('*.json')):
        out.append(json.loads(f.read_text())['case'])
    return out


def common_setup(chk: Check):
    chk.rule = ('flights between airports of a harness-written airports file (ordinary, antimeridian, polar, '
                'near-antipodal, high-elevation, above cruise level / ceiling, zero-length), load factors, step '
                'fractions from {0.01,0.0125,0.02,1/30,0.05,0.1} per phase, mass iteration on/off with several '
                'limits and tolerances, the shipped performance table and rescaled valid tables with other ceilings; '
                'non-trivial = a returned trajectory whose phases do not end on the growth boundary of the point '
                'buffer, or flown with mass iteration / a synthetic table / a high airport / across the antimeridian')
    chk.trusted += ['harness/c02.py: recording proxy around the performance model and GroundTrack.step, replay to the '
                    'Coq model, Python property oracle', 'translator/c02_extract.py (units constants, literals of legacy.py)',
                    'pyproj/PROJ geodesics (oracle of C15), scipy interpn (oracle of C06): replayed, not modelled',
                    'real-vs-binary64 gap: theorems are over R, the same text runs at binary64 (compared at 1e-9)']
    chk.assumptions += ['performance oracle: climb rocd > 0, descent rocd < 0, tas > |rocd|, cruise fuel flow > 0 '
                        '(hypotheses of the theorems; true of every valid table, checked on the recorded answers)',
                        'use_weather = False (ground speed under wind is C16)',
                        'at a time carried by two stored points (the duplicated hand-over point) resampling must '
                        'return the value of one of them']
    ok = chk.coq_props('props/C02_Props.v')
    extract(chk)
    return ok


def run(chk: Check):
    common_setup(chk)
    setup_env(chk)
    try:
        f1_fixed = detect_f1_fixed()
        interp_fixed = detect_interp_fixed()
        chk.notes['make_point_behaviour'] = 'negative index relative to size (repaired)' if f1_fixed else \
            'negative index relative to capacity (as coded, F1)'
        chk.notes['interpolate_time_behaviour'] = 'resamples the stored points (repaired)' if interp_fixed else \
            'resamples the capacity-long buffers (as coded, FC02a)'
        gfix = detect_given_fix()
        chk.notes['given_starting_mass'] = 'fuel load derived (repaired)' if gfix else \
            'fuel load left None, fly raises TypeError (as coded, FC17a: C17\'s finding)'
        check_container(chk, f1_fixed)
        cases = load_corpus(chk) + boundary_cases(chk, chk.rng, chk.n(2, 4), chk.n(9, 16)) \
            + [gen_case(chk.rng, f1_fixed) for _ in range(chk.n(100, 1200))]
        check_flights(chk, [c for c in cases if c.get('kind') != 'container'], f1_fixed, interp_fixed, gfix)
    finally:
        teardown_env()


def replay(chk: Check, rp):
    common_setup(chk)
    setup_env(chk)
    try:
        f1_fixed = detect_f1_fixed()
        case = rp.get('case') or {}
        if case.get('kind') == 'container':
            check_container(chk, f1_fixed)
        elif 'case' in case:
            check_flights(chk, [case['case']], f1_fixed, detect_interp_fixed(), detect_given_fix())
    finally:
        teardown_env()

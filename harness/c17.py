"""C17 — each flight is independent of the builder's history and failures.

Tie:    translator/c17_extract.py regenerates, from builders/base.py + legacy.py, the names the builder classes
        write to / read from `self`, the fields of the context object and the shape of fly's finally clause;
        link/C17_Link.v proves the side conditions of the history theorem for that text.
        Correspondence + differential run: sequences of 2-8 flights (valid, unknown airport, airport above
        cruise level, outside the performance envelope, too short, missing weather, non-converging iteration)
        on ONE builder; every flight is also flown on a brand-new builder and its context constructor is
        called directly.  The Coq model `run_history` is driven by what the fresh builders did (constructor
        verdict, per-iteration verdicts) and must predict what the history builder did (outcome class,
        number of iterations, no context left, leftover attributes).
Oracle: bit-equality with the fresh builder; a refusal is the stage's own exception (never the AttributeError of
        `del self.ctx`); no context after the flight; with iteration the leftover fuel is within tolerance.
"""

from __future__ import annotations

import contextlib
import json
import os
import shutil
from pathlib import Path

from harness import c02
from harness.common import REPO, VERIF, Check, nat, to_coq, Raw

F15_SIG = 'ctor-error-masked-by-del-ctx'
FC17A_SIG = 'given-starting-mass-leaves-fuel-load-undefined'
NO_CONVERGENCE = -2
INIT_ATTRS = {'options', 'frac_step_clm', 'frac_step_crz', 'frac_step_des', 'fuel_LHV'}

HEADER = ('From Coq Require Import ZArith List String Bool.\nFrom AV Require Import model.C17_Model.\n'
          'Import ListNotations.\nOpen Scope string_scope.\n')


# ----------------------------------------------------------------------------------------------
# environment
# ----------------------------------------------------------------------------------------------

def setup_env(chk: Check):
    os.environ['AEIC_PATH'] = str(REPO / 'tests/data')
    data = chk.tmp / 'data'
    c02.write_airports(data)
    wx = chk.tmp / 'wx'
    if not wx.exists():
        shutil.copytree(REPO / 'tests/data/weather', wx)
    from AEIC.config import Config
    import AEIC.utils.airports as ap
    Config.reset()
    Config.load(data_path_overrides=[data, REPO / 'tests/data'], weather={'weather_data_dir': str(wx)})
    ap._airports = None
    return wx


@contextlib.contextmanager
def hidden(path: Path, hide: bool):
    """The weather directory is absent for the duration of the block."""
    if not hide:
        yield
        return
    away = path.with_name(path.name + '.away')
    path.rename(away)
    try:
        yield
    finally:
        away.rename(path)


def reason_code(e: BaseException) -> int:
    name, msg = type(e).__name__, str(e)
    if isinstance(e, ValueError) and msg.startswith('Unknown airport code'):
        return 1
    if isinstance(e, ValueError) and ('should not be higher' in msg or 'should not be above cruise' in msg):
        return 2
    if isinstance(e, FileNotFoundError) and 'Weather data directory not found' in msg:
        return 3
    if isinstance(e, FileNotFoundError):
        return 4
    if isinstance(e, ValueError) and 'out of bounds' in msg:
        return 5
    if name == 'Exception' and type(e).__qualname__.startswith('GroundTrack'):
        return 6
    if isinstance(e, ValueError) and 'outside weather data domain' in msg:
        return 7
    if isinstance(e, TypeError) and 'fuel_mass' in msg:
        return 8
    if isinstance(e, RuntimeError) and msg.startswith('Mass iteration failed to converge'):
        return NO_CONVERGENCE
    if isinstance(e, NotImplementedError):
        return -1
    return 99


def is_attr_ctx(e: BaseException) -> bool:
    return isinstance(e, AttributeError) and "has no attribute 'ctx'" in str(e)


DOCUMENTED = {1, 2, 3, 4, 5, 6, 7, NO_CONVERGENCE}


# ----------------------------------------------------------------------------------------------
# flights
# ----------------------------------------------------------------------------------------------

def make_builder(opts):
    import AEIC.trajectories.builders as tb
    f = opts['frac']
    return tb.LegacyBuilder(
        options=tb.Options(iterate_mass=opts['iterate'], max_mass_iters=opts['max_iters'],
                           mass_iter_reltol=opts['reltol'], use_weather=opts['use_weather']),
        legacy_options=tb.LegacyOptions(frac_step_clm=f[0], frac_step_crz=f[1], frac_step_des=f[2]))


def mission_of(fl):
    from AEIC.missions import Mission
    from AEIC.missions.mission import iso_to_timestamp
    if fl.get('dest_def'):
        c02.ensure_airport(fl['d'], *fl['dest_def'])
    return Mission(origin=fl['o'], destination=fl['d'], departure=iso_to_timestamp(fl.get('dep', '2024-09-01T12:00:00')),
                   arrival=iso_to_timestamp('2024-09-01T18:00:00'), aircraft_type='738', load_factor=fl['lf'])


def airport_verdict(fl):
    """'departure' / 'arrival' if the mission cannot be flown because of the airport elevations (from the harness's
    own airport table and the ceiling of the table in use), else None"""
    code_o, code_d = fl['o'], fl['d']
    if code_o not in c02.AIRPORTS or (code_d not in c02.AIRPORTS and not fl.get('dest_def')):
        return None
    o_el = c02.AIRPORTS[code_o][2] * c02.FT
    d_el = (fl['dest_def'][2] if fl.get('dest_def') else c02.AIRPORTS[code_d][2]) * c02.FT
    ceiling = ((fl.get('table') or {}).get('ceiling_ft', 41000)) * c02.FT
    return c02.altitude_verdict(o_el, d_el, ceiling)


def snapshot(traj):
    """everything observable of a returned trajectory, bit for bit"""
    import numpy as np
    out = {f: np.array(getattr(traj, f), dtype=float).tobytes().hex() for f in c02.FIELDS}
    out['meta'] = [int(traj.n_climb), int(traj.n_cruise), int(traj.n_descent), float(traj.starting_mass).hex(),
                   float(traj.total_fuel_mass).hex(), str(traj.name), len(traj)]
    return out


def apply_options(builder, opts):
    """What a caller does to re-use a builder with other settings: replace its public option attributes."""
    import AEIC.trajectories.builders as tb
    builder.options = tb.Options(iterate_mass=opts['iterate'], max_mass_iters=opts['max_iters'],
                                 mass_iter_reltol=opts['reltol'], use_weather=opts['use_weather'])
    builder.frac_step_clm, builder.frac_step_crz, builder.frac_step_des = opts['frac']


def settings_of(builder):
    import dataclasses
    return (dataclasses.asdict(builder.options), builder.frac_step_clm, builder.frac_step_crz, builder.frac_step_des,
            builder.fuel_LHV)


def fly_once(builder, fl, wx: Path, reltol: float):
    """One call of builder.fly with every _fly_iteration recorded."""
    import numpy as np
    from AEIC.trajectories.builders.base import Builder
    pm = c02.perf_model(fl.get('table'))
    iters = []
    orig = Builder._fly_iteration

    def rec(self):
        try:
            traj, res = orig(self)
        except Exception as e:  # noqa: BLE001
            iters.append(('raise', reason_code(e)))
            raise
        iters.append(('ok', bool(abs(res) < reltol), float(res)))
        return traj, res

    Builder._fly_iteration = rec
    out = {'iters': iters}
    before = settings_of(builder)
    kw = {'starting_mass': fl['given']} if fl.get('given') is not None else {}
    try:
        with hidden(wx, fl.get('hide_wx', False)):
            traj = builder.fly(pm, mission_of(fl), **kw)
        out['kind'] = 'flown'
        out['traj'] = traj
        out['snap'] = snapshot(traj)
        out['leftover'] = abs(float(np.array(traj.fuel_mass)[-1]) / float(traj.total_fuel_mass))
    except Exception as e:  # noqa: BLE001
        out['kind'] = 'attrctx' if is_attr_ctx(e) else 'raised'
        out['code'] = reason_code(e)
        out['exc'] = [type(e).__name__, str(e)[:200]]
        c = e.__context__
        out['context'] = [type(c).__name__, str(c)[:200]] if c is not None else None
    finally:
        Builder._fly_iteration = orig
    out['settings_changed'] = settings_of(builder) != before
    out['has_ctx'] = 'ctx' in builder.__dict__
    out['own'] = sorted(set(builder.__dict__) - INIT_ATTRS)
    return out


def ctor_probe(opts, fl, wx: Path):
    """Call the context constructor directly (no fly, no finally): the stage's own verdict."""
    from AEIC.trajectories.builders.legacy import LegacyContext
    b = make_builder(opts)
    try:
        with hidden(wx, fl.get('hide_wx', False)):
            LegacyContext(builder=b, ac_performance=c02.perf_model(fl.get('table')), mission=mission_of(fl),
                          starting_mass=None)
        return None
    except Exception as e:  # noqa: BLE001
        return {'code': reason_code(e), 'exc': [type(e).__name__, str(e)[:200]]}


# ----------------------------------------------------------------------------------------------
# generation
# ----------------------------------------------------------------------------------------------

VALID = [('BOS', 'LAX'), ('JFK', 'MIA'), ('SEA', 'DEN'), ('ORD', 'SFO'), ('NAN', 'HNL'), ('LYR', 'YLT'),
         ('LPB', 'CUZ'), ('BOS', 'ORD'), ('LAX', 'SEA')]
# performance models that share the 41000 ft ceiling (hence the cruise level) but differ in every value
TABLES = [None,
          {'tas': 0.9, 'rocd': 1.0, 'ff': 0.7, 'mass': 1.0, 'ceiling_ft': 41000, 'payload': 22422},
          {'tas': 1.05, 'rocd': 0.8, 'ff': 1.3, 'mass': 1.0, 'ceiling_ft': 41000, 'payload': 18000, 'ff_climb': 3.0},
          {'tas': 1.0, 'rocd': 1.0, 'ff': 1.0, 'mass': 1.0, 'ceiling_ft': 41000, 'payload': 22422, 'ff_climb': 5.0}]


def gen_flight(rng, opts):
    r = rng.random()
    if opts['use_weather']:
        if r < 0.35:
            return {'kind': 'valid', 'o': 'BOS', 'd': 'JFK', 'lf': 1.0}
        if r < 0.5:
            return {'kind': 'outside-weather-domain', 'o': 'LAX', 'd': 'SFO', 'lf': 1.0}
        if r < 0.65:
            return {'kind': 'missing-weather-file', 'o': 'BOS', 'd': 'JFK', 'lf': 1.0, 'dep': '2024-09-02T12:00:00'}
        if r < 0.85:
            return {'kind': 'missing-weather-dir', 'o': 'BOS', 'd': 'JFK', 'lf': 1.0, 'hide_wx': True}
        return {'kind': 'unknown-airport', 'o': 'BOS', 'd': 'QQQ', 'lf': 1.0}
    if rng.random() < 0.09:
        # a short hop: the cruise segment is only a few km to ~150 km long (the shortest route flown with the shipped
        # table from a sea-level airport is about 240 km)
        dist = rng.choice([241.0, 243.0, 246.0, 252.0, 262.0, 280.0, 310.0, 350.0, 390.0])
        lat, lon = c02.place('BOS', dist, 250.0)
        defn = [round(lat, 7), round(lon, 7), 20]
        return {'kind': 'short-cruise', 'o': 'BOS', 'd': c02.dyn_code(defn), 'dest_def': defn, 'lf': 1.0,
                'table': rng.choice([None, None, TABLES[3]]), 'route_km': dist}
    if r < 0.46:
        o, d = rng.choice(VALID)
        fl = {'kind': 'valid', 'o': o, 'd': d, 'lf': rng.choice([1.0, 0.9, 0.75])}
        fl['table'] = rng.choice(TABLES)
        if rng.random() < 0.25:
            fl['kind'] = 'valid-given-mass'
            fl['given'] = rng.choice([62000.0, 70000.0, 78000.0])
        return fl
    if r < 0.49:
        # arrival airport below the cruise level but less than 3000 ft below it (Denver, 5431 ft, with ceilings of
        # 13000-15431 ft): the descent target is above the cruise level, the constructor refuses; 15500 ft: flown
        ceiling = rng.choice([13000, 14000, 15000, 15400, 15431, 15500])
        return {'kind': 'arrival-within-3000ft-of-cruise' if ceiling <= 15431 else 'valid', 'o': rng.choice(['BOS', 'ORD', 'LAX']),
                'd': 'DEN', 'lf': 1.0,
                'table': {'tas': 1.0, 'rocd': 1.0, 'ff': 1.0, 'mass': 1.0, 'ceiling_ft': ceiling, 'payload': 22422}}
    if r < 0.52:
        # an explicit starting mass heavier than the heaviest table mass: refused in the first climb evaluation
        o, d = rng.choice(VALID)
        return {'kind': 'overweight-given-mass', 'o': o, 'd': d, 'lf': 1.0, 'table': rng.choice(TABLES[:2]),
                'given': rng.choice([90000.0, 81371.0 * (1 + 1e-4)])}
    if r < 0.55:
        # a ceiling whose cruise level (ceiling - 7000 ft = FL430) lies above the top of the table (FL410):
        # refused already at the take-off-mass estimate (aircraft_mass='max')
        o, d = rng.choice(VALID)
        return {'kind': 'cruise-level-above-table', 'o': o, 'd': d, 'lf': 1.0,
                'table': {'tas': 1.0, 'rocd': 1.0, 'ff': 1.0, 'mass': 1.0, 'ceiling_ft': 50000, 'payload': 22422}}
    if r < 0.60:
        o, d = rng.choice([('XXX', 'LAX'), ('BOS', 'ZZZ'), ('QQQ', 'QQQ')])
        return {'kind': 'unknown-airport', 'o': o, 'd': d, 'lf': 1.0, 'given': 70000.0 if rng.random() < 0.2 else None}
    if r < 0.70:
        o, d = rng.choice([('HI4', 'LAX'), ('LAX', 'HI3'), ('BOS', 'HI2'), ('HI3', 'LXA')])
        return {'kind': 'airport-above-cruise', 'o': o, 'd': d, 'lf': 1.0}
    if r < 0.84:
        o, d = rng.choice([('BOS', 'LAX'), ('MAD', 'WLG'), ('LHR', 'LAX')])
        return {'kind': 'outside-envelope', 'o': o, 'd': d, 'lf': 0.0 if (o, d) == ('BOS', 'LAX') else 1.0,
                'table': rng.choice(TABLES[:2])}
    if r < 0.92:
        o = rng.choice(['BOS', 'DEN'])
        return {'kind': 'too-short', 'o': o, 'd': o, 'lf': 1.0}
    o, d = rng.choice(VALID)
    return {'kind': 'valid', 'o': o, 'd': d, 'lf': 1.0, 'table': rng.choice(TABLES)}


def gen_opts(rng, use_weather):
    iterate = (not use_weather) and rng.random() < 0.45
    f = rng.choice([0.02, 0.02, 0.01])
    return {'iterate': iterate, 'max_iters': rng.choice([1, 3, 5, 5, 8]) if iterate else 5,
            'reltol': rng.choice([1e-2, 5e-2, 5e-2, 1e-3, 1e-6]) if iterate else 1e-2, 'use_weather': use_weather,
            'frac': [f, f, f] if rng.random() < 0.7 or use_weather else rng.choice([[0.02, 0.0125, 0.02], [0.015, 0.02, 0.008]])}


def gen_sequence(rng, weather_ok: bool):
    use_weather = weather_ok
    opts = gen_opts(rng, use_weather)
    n = rng.randint(2, 3) if use_weather else rng.randint(2, 8)
    flights = []
    for _ in range(n):
        if not use_weather and rng.random() < 0.3:
            opts = gen_opts(rng, use_weather)          # the caller re-configures the builder between flights
        fl = gen_flight(rng, opts)
        fl['opts'] = opts
        flights.append(fl)
        if fl['kind'] == 'overweight-given-mass' and rng.random() < 0.8:
            # an ordinary flight right after a failed explicit-mass flight, with mass iteration that needs a correction
            o2 = dict(opts, iterate=True, max_iters=8, reltol=rng.choice([1e-2, 1e-3]))
            o, d = rng.choice(VALID)
            flights[-1]['opts'] = o2
            flights.append({'kind': 'valid', 'o': o, 'd': d, 'lf': 1.0, 'table': None, 'opts': o2})
    if not any(not fl['kind'].startswith('valid') for fl in flights):
        flights[rng.randrange(len(flights))] = {'kind': 'unknown-airport', 'o': 'XXX', 'd': 'LAX', 'lf': 1.0, 'opts': flights[0]['opts']}
    if not flights[-1]['kind'].startswith('valid') and not use_weather:
        o, d = rng.choice(VALID)
        flights.append({'kind': 'valid', 'o': o, 'd': d, 'lf': 1.0, 'table': rng.choice(TABLES), 'opts': opts})
    return {'flights': flights}


def gen_retry_sequence(rng, canonical=False):
    """use_weather histories in which the SAME refused mission is flown again right away (a caller's retry): a mission whose
    departure day has no weather file twice or three times in a row, also with a flight in between that is refused
    before any weather is asked for (unknown airport) so that the missing day is still the last one the weather reader
    was asked for; successful flights before, between and after.  canonical: good, bad, bad, good, bad, bad, good."""
    opts = gen_opts(rng, True)
    good = lambda: {'kind': 'valid', 'o': 'BOS', 'd': 'JFK', 'lf': 1.0}  # noqa: E731
    day = '2024-09-02' if canonical else rng.choice(['2024-09-02', '2024-09-03', '2024-08-31', '2025-01-15'])
    hour = '12:00:00' if canonical else rng.choice(['12:00:00', '00:00:00', '06:30:00'])
    bad = lambda: {'kind': 'missing-weather-file', 'o': 'BOS', 'd': 'JFK', 'lf': 1.0, 'dep': f'{day}T{hour}'}  # noqa: E731
    unk = lambda: {'kind': 'unknown-airport', 'o': 'BOS', 'd': 'QQQ', 'lf': 1.0}  # noqa: E731
    if canonical:
        shape = 'gbbgbbg'
    else:
        shape = rng.choice(['bb', 'bbb', 'gbb', 'bbg', 'gbbg', 'bubg', 'gbubbg', 'bgbb', 'gbbgbbg', 'ubb', 'bbub'])
    flights = []
    for ch in shape:
        fl = {'g': good, 'b': bad, 'u': unk}[ch]()
        fl['opts'] = opts
        flights.append(fl)
    return {'flights': flights, 'shape': 'retry:' + shape}


# ----------------------------------------------------------------------------------------------
# check
# ----------------------------------------------------------------------------------------------

def extract(chk: Check):
    from translator import c17_extract, py2coq
    try:
        facts = c17_extract.facts(REPO)
        text = c17_extract.extract(REPO)
    except py2coq.Untranslatable as e:
        part = getattr(e, 'part', None)
        name = f'extract:{part}' if part else 'extract:builders/base.py+legacy.py:self-attributes,finally'
        chk.obligations.append({'name': name, 'ok': False})
        chk.broken(name, str(e))
        return None
    chk.obligations.append({'name': 'extract:builders/base.py+legacy.py:self-attributes,finally', 'ok': True})
    if chk.coq_compile_gen('C17_Extracted', text) is None:
        return None
    chk.coq_link('C17_Link.v')
    return facts


def coq_script(probe, fresh):
    ctor = 'None' if probe is None else f"(Some ({probe['code']})%Z)"
    its = []
    for j, it in enumerate(fresh['iters']):
        if it[0] == 'ok':
            its.append(f"(inl ({100 + j}%Z, {to_coq(it[1])}))")
        else:
            its.append(f"(inr ({it[1]})%Z)")
    # a refusal before the first _fly_iteration that is not the constructor's: calc_starting_mass itself
    calc = 'None'
    if probe is None and fresh['kind'] != 'flown' and not fresh['iters']:
        calc = f"(Some ({fresh['code']})%Z)"
    return f"(mkscript {ctor} {calc} [{'; '.join(its)}])"


def normalise(seq):
    """older corpus entries carry one option set for the whole sequence"""
    if 'opts' in seq:
        for fl in seq['flights']:
            fl.setdefault('opts', seq['opts'])
    return seq


def check_sequences(chk: Check, seqs, guarded: bool, gfix: bool, wx: Path):
    import numpy as np
    exprs, runs = [], []
    for seq in seqs:
        seq = normalise(seq)
        flights = seq['flights']
        hist_builder = make_builder(flights[0]['opts'])
        # module-level state: the last flight on a fresh builder BEFORE anything else happens in this sequence
        before = fly_once(make_builder(flights[-1]['opts']), flights[-1], wx, flights[-1]['opts']['reltol'])
        hist, fresh, probes = [], [], []
        for fl in flights:
            apply_options(hist_builder, fl['opts'])
            hist.append(fly_once(hist_builder, fl, wx, fl['opts']['reltol']))
            fresh.append(fly_once(make_builder(fl['opts']), fl, wx, fl['opts']['reltol']))
            probes.append(ctor_probe(fl['opts'], fl, wx))
        # returned trajectories are the caller's: later flights must not have touched them, nor share memory
        alias = None
        trajs = [(j, h['traj']) for j, h in enumerate(hist) if h.get('traj') is not None]
        for j, t in trajs:
            if snapshot(t) != hist[j]['snap']:
                alias = f'the trajectory returned by flight {j} changed while later flights were flown'
        for a in range(len(trajs)):
            for b in range(a + 1, len(trajs)):
                for f in ('flight_time', 'aircraft_mass'):
                    if np.shares_memory(trajs[a][1]._data[f], trajs[b][1]._data[f]):
                        alias = f'trajectories of flights {trajs[a][0]} and {trajs[b][0]} share their {f} buffer'
        for h in hist + fresh + [before]:
            h.pop('traj', None)
        runs.append((hist, fresh, probes, before, alias))
        ss = '[' + '; '.join(coq_script(p, f) for p, f in zip(probes, fresh)) + ']'
        ids = '[' + '; '.join(f'{i}%Z' for i in range(len(flights))) + ']'
        given = '[' + '; '.join(f'(Some {i * 1000}%Z)' if fl.get('given') is not None else 'None'
                                for i, fl in enumerate(flights)) + ']'
        os_ = '[' + '; '.join(f"(mkopts false {to_coq(fl['opts']['iterate'])} {nat(fl['opts']['max_iters'])} {k}%Z)"
                              for k, fl in enumerate(flights)) + ']'
        exprs.append(f"run_history {to_coq(guarded)} {to_coq(gfix)} {os_} {ss} {ids} {given}")
    models = chk.coq_eval(HEADER, exprs, shard=max(1, len(exprs) // 16 + 1), label='histories')
    for seq, (hist, fresh, probes, before, alias), mo in zip(seqs, runs, models):
        flights = seq['flights']
        kinds = [fl['kind'] for fl in flights]
        failed_before = any(h['kind'] != 'flown' for h in hist[:-1])
        chk.case(seq, nontrivial=failed_before and len(set(kinds)) >= 2)
        for k in kinds:
            chk.count('flight:' + k)
        o0 = flights[0]['opts']
        chk.count('builder:' + ('weather' if o0['use_weather'] else 'iterate' if o0['iterate'] else 'plain'))
        if seq.get('shape'):
            chk.count('history:same-refused-mission-flown-again-at-once')
        if any(fl['opts'] != o0 for fl in flights):
            chk.count('builder:options-switched')
        if len({json.dumps(fl.get('table'), sort_keys=True) for fl in flights}) > 1:
            chk.count('builder:performance-model-switched')
        problems = []          # (message, signature) per flight; a known finding on one flight does not hide the others
        for h in hist:
            chk.count('outcome:' + (h['kind'] if h['kind'] != 'raised' else f"reason{h['code']}"))
        for j, (fl, h, f, p) in enumerate(zip(flights, hist, fresh, probes)):
            opts = fl['opts']
            bad, sig = None, None
            for _once in (0,):
              # (a) bit-identical to a brand-new builder
              same = (h['kind'] == f['kind'] and h.get('snap') == f.get('snap') and h.get('exc') == f.get('exc'))
              if not same:
                  bad = f"flight {j} ({fl['kind']}) after {j} earlier flights differs from a fresh builder: {h.get('exc') or 'trajectory'} vs {f.get('exc') or 'trajectory'}"
                  break
              # (c) nothing of the flight is left on the builder; its settings are what the caller set
              if h['has_ctx']:
                  bad = f"flight {j} ({fl['kind']}) leaves the simulation context on the builder"
                  break
              if h['settings_changed'] or f['settings_changed']:
                  bad = f"flight {j} ({fl['kind']}) changed the builder's options"
                  break
              # (b) a refusal is the stage's own exception
              if h['kind'] != 'flown':
                  if p is not None and h.get('exc') != p['exc']:
                      bad = (f"flight {j} ({fl['kind']}): the context constructor refuses with {p['exc'][0]}: {p['exc'][1]!r}, "
                             f"fly raises {h['exc'][0]}: {h['exc'][1]!r}")
                      if h['kind'] == 'attrctx' and h['context'] == p['exc'] and not guarded:
                          sig = F15_SIG
                      break
                  if h['kind'] == 'attrctx' or (p is None and h['code'] not in DOCUMENTED):
                      bad = f"flight {j} ({fl['kind']}): rejected with an unrelated internal error {h['exc'][0]}: {h['exc'][1]!r}"
                      if h['code'] == 8 and fl.get('given') is not None and not gfix:
                          sig = FC17A_SIG
                      break
              # (b') a mission whose departure / arrival level is above the cruise level is refused for that reason
              verdict = airport_verdict(fl)
              if verdict is not None and not (h['kind'] == 'raised' and h['code'] == 2):
                  bad = (f"flight {j} ({fl['kind']}): the {verdict} airport's level is above the cruise level, but the mission is "
                         + ('flown' if h['kind'] == 'flown' else f"refused with {h['exc'][0]}: {h['exc'][1]!r}"))
                  if h['kind'] == 'attrctx' and not guarded:
                      sig = F15_SIG
                  break
              # (d) mass iteration
              if h['kind'] == 'flown' and opts['iterate'] and not (h['leftover'] < opts['reltol']):
                  bad = (f"flight {j} ({fl['kind']}): returned with leftover trip fuel {h['leftover']:.3e} of the fuel load, "
                         f"tolerance {opts['reltol']:.1e}")
                  break
              # (e) a starting mass handed in is the one flown (no iteration)
              if h['kind'] == 'flown' and fl.get('given') is not None and not opts['iterate'] \
                      and float.fromhex(h['snap']['meta'][3]) != fl['given']:
                  bad = f"flight {j}: starting mass {fl['given']} handed in, trajectory reports {float.fromhex(h['snap']['meta'][3])}"
                  break
            if bad is not None:
                problems.append((bad, sig))
        bad = None
        if bad is None and alias is not None:
            bad = alias
        if bad is None:
            last = fresh[-1]
            if (before['kind'], before.get('snap'), before.get('exc')) != (last['kind'], last.get('snap'), last.get('exc')):
                bad = ('the last flight of the sequence on a fresh builder gives a different result before and after '
                       'the other flights were flown (state outside the builder)')
        if bad is not None:
            problems.append((bad, None))
        for msg, sg in problems:
            chk.fail(msg, {'seq': seq}, signature=sg)
        # model vs implementation (against the readings this tree has)
        if mo is None:
            continue
        shown, ctx_none, leftovers = mo
        want = []
        for h in hist:
            if h['kind'] == 'flown':
                want.append(('SFlown', 100 + len(h['iters']) - 1, len(h['iters'])))
            elif h['kind'] == 'attrctx':
                want.append('SAttrCtx')
            else:
                want.append(('SReason', h['code']))
        got = [tuple(x) if isinstance(x, (tuple, list)) else x for x in shown]
        own_impl = hist[-1]['own']
        if got != want or ctx_none is not True or sorted(leftovers) != own_impl:
            chk.broken('correspondence:C17_Model.run_history',
                       f'model {got} ctx_none={ctx_none} leftovers={leftovers} vs implementation {want} leftovers={own_impl}',
                       {'seq': seq})
        else:
            chk.traces_validated += 1


def behaviour_given_fix() -> bool:
    """True iff a handed-in starting mass flies (the fuel load is derived either way)."""
    b = make_builder({'iterate': False, 'max_iters': 5, 'reltol': 1e-2, 'use_weather': False, 'frac': [0.02] * 3})
    try:
        b.fly(c02.perf_model(None), mission_of({'o': 'BOS', 'd': 'LAX', 'lf': 1.0}), starting_mass=70000.0)
    except TypeError:
        return False
    return True


def behaviour_guarded() -> bool:
    """True iff an unknown airport on a fresh builder surfaces as the constructor's ValueError."""
    b = make_builder({'iterate': False, 'max_iters': 5, 'reltol': 1e-2, 'use_weather': False, 'frac': [0.02] * 3})
    try:
        b.fly(c02.perf_model(None), mission_of({'o': 'XXX', 'd': 'LAX', 'lf': 1.0}))
    except AttributeError:
        return False
    except ValueError:
        return True
    return True


REFERENCE_FLIGHTS = [
    {'kind': 'valid', 'o': 'BOS', 'd': 'LAX', 'lf': 1.0, 'table': TABLES[1],
     'opts': {'iterate': False, 'max_iters': 5, 'reltol': 1e-2, 'use_weather': False, 'frac': [0.02, 0.02, 0.02]}},
    {'kind': 'valid', 'o': 'SEA', 'd': 'DEN', 'lf': 0.9, 'table': TABLES[2],
     'opts': {'iterate': True, 'max_iters': 8, 'reltol': 5e-2, 'use_weather': False, 'frac': [0.02, 0.02, 0.02]}},
]


def fly_reference(wx: Path):
    out = []
    for fl in REFERENCE_FLIGHTS:
        r = fly_once(make_builder(fl['opts']), fl, wx, fl['opts']['reltol'])
        r.pop('traj', None)
        out.append({'kind': r['kind'], 'snap': r.get('snap'), 'exc': r.get('exc')})
    return out


def check_against_fresh_process(chk: Check, wx: Path):
    """State that lives outside the builder objects (module or class level) is shared by the 'fresh' builders of
    this process too; so, after everything else has been flown, the reference flights are flown here and in a
    brand-new interpreter and compared bit for bit."""
    import subprocess
    import sys
    here = fly_reference(wx)
    env = dict(os.environ, C17_REFERENCE_TMP=str(chk.tmp), PYTHONPATH=str(REPO / 'src') + os.pathsep + str(VERIF))
    r = subprocess.run(['timeout', '300', sys.executable, '-m', 'harness.c17'], cwd=VERIF, env=env,
                       capture_output=True, text=True)
    chk.count('reference-flights-in-fresh-process', len(here))
    try:
        there = json.loads(r.stdout.strip().splitlines()[-1])
    except Exception:  # noqa: BLE001
        chk.broken('harness:fresh-process-reference', (r.stdout + r.stderr)[-1500:])
        return
    for fl, a, b in zip(REFERENCE_FLIGHTS, here, there):
        if a != b:
            chk.fail(f"{fl['o']}-{fl['d']} flown on a fresh builder at the end of this run differs from the same flight "
                     f"in a fresh interpreter ({a.get('exc') or 'trajectory'} vs {b.get('exc') or 'trajectory'}): "
                     'state outside the builder survives between flights', {'reference': fl}, signature=None)
        else:
            chk.traces_validated += 1


def common_setup(chk: Check):
    chk.rule = ('sequences of 2-8 flights on one LegacyBuilder (valid, unknown airport, airport above cruise level, '
                'outside the performance envelope, too short, missing weather directory / file, outside the weather '
                'domain, non-converging mass iteration; iteration on/off with several limits and tolerances; '
                'weather on/off; with weather also the same mission refused for a missing weather file flown two or three times in '
                'a row between successful flights), each flight repeated on a brand-new builder and its context constructor called '
                'directly; non-trivial = a flight is flown after an earlier one failed, with at least two kinds of '
                'flight in the sequence')
    chk.trusted += ['translator/c17_extract.py (names written/read through self, fields of the context, finally clause)',
                    'harness/c17.py: recording wrapper around Builder._fly_iteration, direct constructor probe, '
                    'Python differential oracle']
    chk.assumptions += ['the flight computation reads the builder only through self.<name> for the names found by the '
                        'extractor (reads through other aliases of the builder object are not tracked)',
                        'the performance model, the airports table and the weather files do not change between the '
                        'flights of a sequence (they are shared, immutable inputs)']
    chk.coq_props('props/C17_Props.v')
    return extract(chk)


def load_corpus(chk):
    return [json.loads(f.read_text())['seq'] for f in sorted((VERIF / 'corpus' / chk.pid).glob('*.json'))]


def run(chk: Check):
    facts = common_setup(chk)
    wx = setup_env(chk)
    try:
        beh = behaviour_guarded()
        guarded = facts['guarded'] if facts is not None else beh
        chk.notes['finally_clause'] = 'guarded (repaired)' if guarded else 'unguarded `del self.ctx` (as coded, F15)'
        if facts is not None and facts['guarded'] != beh:
            chk.broken('link:finally-clause-vs-behaviour',
                       f"extracted finally clause guarded={facts['guarded']} but an unknown airport behaves as guarded={beh}")
        behg = behaviour_given_fix()
        gfix = facts['given_fix'] if facts is not None else behg
        chk.notes['given_starting_mass'] = 'fuel load derived (repaired)' if gfix else 'fuel load left None (as coded, FC17a)'
        if facts is not None and facts['given_fix'] != behg:
            chk.broken('link:given-mass-vs-behaviour',
                       f"extracted given-mass handling derived={facts['given_fix']} but a given starting mass behaves as {behg}")
        seqs = load_corpus(chk)
        nw = chk.n(2, 12)
        # retries of a mission refused for missing weather (own PRNG stream: the ordinary stream is what it was)
        import random
        rrng = random.Random(f'C17-retry-{chk.seed}')
        seqs += [gen_retry_sequence(rrng, canonical=(i == 0)) for i in range(chk.n(2, 16))]
        seqs += [gen_sequence(chk.rng, weather_ok=(i < nw)) for i in range(chk.n(32, 400))]
        check_sequences(chk, seqs, guarded, gfix, wx)
        check_against_fresh_process(chk, wx)
    finally:
        c02.teardown_env()


def replay(chk: Check, rp):
    facts = common_setup(chk)
    wx = setup_env(chk)
    try:
        guarded = facts['guarded'] if facts is not None else behaviour_guarded()
        gfix = facts['given_fix'] if facts is not None else behaviour_given_fix()
        case = rp.get('case') or {}
        if 'seq' in case:
            check_sequences(chk, [case['seq']], guarded, gfix, wx)
        elif 'reference' in case:
            check_sequences(chk, load_corpus(chk), guarded, gfix, wx)      # something to have been flown before
            check_against_fresh_process(chk, wx)
    finally:
        c02.teardown_env()


if __name__ == '__main__':            # the fresh-interpreter side of check_against_fresh_process
    import types
    from harness import common as _common
    _common.setup_impl_env()
    _chk = types.SimpleNamespace(tmp=Path(os.environ['C17_REFERENCE_TMP']))
    _wx = setup_env(_chk)
    print(json.dumps(fly_reference(_wx)))

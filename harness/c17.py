"""C17 — each flight is independent of the builder's history and failures.

Tie:    translator/c17_extract.py regenerates, from builders/base.py + legacy.py, the names the builder classes
        write to / read from `self`, the fields of the context object and the shape of fly's finally clause;
        link/C17_Link.v proves the side conditions of the history theorem for that text.
        Correspondence + differential run: sequences of 2-8 flights (valid, unknown airport, airport above
        cruise level, outside the performance envelope, too short, missing weather, non-converging iteration)
        on ONE builder; every flight is also flown on a brand-new builder and its context constructor is
        called directly.  The Coq model `run_history` is driven by what the fresh builders did (constructor
        verdict, per-iteration verdicts) and must predict what the history builder did (outcome class,
        number of iterations, no context left, leftover attributes).
Oracle: bit-equality with the fresh builder; a refusal is the stage's own exception (never the AttributeError of
        `del self.ctx`); no context after the flight; with iteration the leftover fuel is within tolerance.
"""

from __future__ import annotations

import contextlib
import json
import os
import shutil
from pathlib import Path

from harness import c02
from harness.common import REPO, VERIF, Check, nat, to_coq, Raw

F15_SIG = 'ctor-error-masked-by-del-ctx'
NO_CONVERGENCE = -2
INIT_ATTRS = {'options', 'frac_step_clm', 'frac_step_crz', 'frac_step_des', 'fuel_LHV'}

HEADER = ('From Coq Require Import ZArith List String Bool.\nFrom AV Require Import model.C17_Model.\n'
          'Import ListNotations.\nOpen Scope string_scope.\n')


# ----------------------------------------------------------------------------------------------
# environment
# ----------------------------------------------------------------------------------------------

def setup_env(chk: Check):
    os.environ['AEIC_PATH'] = str(REPO / 'tests/data')
    data = chk.tmp / 'data'
    c02.write_airports(data)
    wx = chk.tmp / 'wx'
    if not wx.exists():
        shutil.copytree(REPO / 'tests/data/weather', wx)
    from AEIC.config import Config
    import AEIC.utils.airports as ap
    Config.reset()
    Config.load(data_path_overrides=[data, REPO / 'tests/data'], weather={'weather_data_dir': str(wx)})
    ap._airports = None
    return wx


@contextlib.contextmanager
def hidden(path: Path, hide: bool):
    """The weather directory is absent for the duration of the block."""
    if not hide:
        yield
        return
    away = path.with_name(path.name + '.away')
    path.rename(away)
    try:
        yield
    finally:
        away.rename(path)


def reason_code(e: BaseException) -> int:
    name, msg = type(e).__name__, str(e)
    if isinstance(e, ValueError) and msg.startswith('Unknown airport code'):
        return 1
    if isinstance(e, ValueError) and ('should not be higher' in msg or 'should not be above cruise' in msg):
        return 2
    if isinstance(e, FileNotFoundError) and 'Weather data directory not found' in msg:
        return 3
    if isinstance(e, FileNotFoundError):
        return 4
    if isinstance(e, ValueError) and 'out of bounds' in msg:
        return 5
    if name == 'Exception' and type(e).__qualname__.startswith('GroundTrack'):
        return 6
    if isinstance(e, ValueError) and 'outside weather data domain' in msg:
        return 7
    if isinstance(e, TypeError) and 'fuel_mass' in msg:
        return 8
    if isinstance(e, RuntimeError) and msg.startswith('Mass iteration failed to converge'):
        return NO_CONVERGENCE
    if isinstance(e, NotImplementedError):
        return -1
    return 99


def is_attr_ctx(e: BaseException) -> bool:
    return isinstance(e, AttributeError) and "has no attribute 'ctx'" in str(e)


DOCUMENTED = {1, 2, 3, 4, 5, 6, 7, NO_CONVERGENCE}


# ----------------------------------------------------------------------------------------------
# flights
# ----------------------------------------------------------------------------------------------

def make_builder(opts):
    import AEIC.trajectories.builders as tb
    f = opts['frac']
    return tb.LegacyBuilder(
        options=tb.Options(iterate_mass=opts['iterate'], max_mass_iters=opts['max_iters'],
                           mass_iter_reltol=opts['reltol'], use_weather=opts['use_weather']),
        legacy_options=tb.LegacyOptions(frac_step_clm=f[0], frac_step_crz=f[1], frac_step_des=f[2]))


def mission_of(fl):
    from AEIC.missions import Mission
    from AEIC.missions.mission import iso_to_timestamp
    return Mission(origin=fl['o'], destination=fl['d'], departure=iso_to_timestamp(fl.get('dep', '2024-09-01T12:00:00')),
                   arrival=iso_to_timestamp('2024-09-01T18:00:00'), aircraft_type='738', load_factor=fl['lf'])


def snapshot(traj):
    """everything observable of a returned trajectory, bit for bit"""
    import numpy as np
    out = {f: np.array(getattr(traj, f), dtype=float).tobytes().hex() for f in c02.FIELDS}
    out['meta'] = [int(traj.n_climb), int(traj.n_cruise), int(traj.n_descent), float(traj.starting_mass).hex(),
                   float(traj.total_fuel_mass).hex(), str(traj.name), len(traj)]
    return out


def fly_once(builder, fl, wx: Path, reltol: float):
    """One call of builder.fly with every _fly_iteration recorded."""
    import numpy as np
    from AEIC.trajectories.builders.base import Builder
    pm = c02.perf_model(fl.get('table'))
    iters = []
    orig = Builder._fly_iteration

    def rec(self):
        try:
            traj, res = orig(self)
        except Exception as e:  # noqa: BLE001
            iters.append(('raise', reason_code(e)))
            raise
        iters.append(('ok', bool(abs(res) < reltol), float(res)))
        return traj, res

    Builder._fly_iteration = rec
    out = {'iters': iters}
    try:
        with hidden(wx, fl.get('hide_wx', False)):
            traj = builder.fly(pm, mission_of(fl))
        out['kind'] = 'flown'
        out['snap'] = snapshot(traj)
        out['leftover'] = abs(float(np.array(traj.fuel_mass)[-1]) / float(traj.total_fuel_mass))
    except Exception as e:  # noqa: BLE001
        out['kind'] = 'attrctx' if is_attr_ctx(e) else 'raised'
        out['code'] = reason_code(e)
        out['exc'] = [type(e).__name__, str(e)[:200]]
        c = e.__context__
        out['context'] = [type(c).__name__, str(c)[:200]] if c is not None else None
    finally:
        Builder._fly_iteration = orig
    out['has_ctx'] = 'ctx' in builder.__dict__
    out['own'] = sorted(set(builder.__dict__) - INIT_ATTRS)
    return out


def ctor_probe(opts, fl, wx: Path):
    """Call the context constructor directly (no fly, no finally): the stage's own verdict."""
    from AEIC.trajectories.builders.legacy import LegacyContext
    b = make_builder(opts)
    try:
        with hidden(wx, fl.get('hide_wx', False)):
            LegacyContext(builder=b, ac_performance=c02.perf_model(fl.get('table')), mission=mission_of(fl),
                          starting_mass=None)
        return None
    except Exception as e:  # noqa: BLE001
        return {'code': reason_code(e), 'exc': [type(e).__name__, str(e)[:200]]}


# ----------------------------------------------------------------------------------------------
# generation
# ----------------------------------------------------------------------------------------------

VALID = [('BOS', 'LAX'), ('JFK', 'MIA'), ('SEA', 'DEN'), ('ORD', 'SFO'), ('NAN', 'HNL'), ('LYR', 'YLT'),
         ('LPB', 'CUZ'), ('BOS', 'ORD'), ('LAX', 'SEA')]


def gen_flight(rng, opts):
    r = rng.random()
    if opts['use_weather']:
        if r < 0.35:
            return {'kind': 'valid', 'o': 'BOS', 'd': 'JFK', 'lf': 1.0}
        if r < 0.5:
            return {'kind': 'outside-weather-domain', 'o': 'LAX', 'd': 'SFO', 'lf': 1.0}
        if r < 0.65:
            return {'kind': 'missing-weather-file', 'o': 'BOS', 'd': 'JFK', 'lf': 1.0, 'dep': '2024-09-02T12:00:00'}
        if r < 0.85:
            return {'kind': 'missing-weather-dir', 'o': 'BOS', 'd': 'JFK', 'lf': 1.0, 'hide_wx': True}
        return {'kind': 'unknown-airport', 'o': 'BOS', 'd': 'QQQ', 'lf': 1.0}
    if r < 0.42:
        o, d = rng.choice(VALID)
        fl = {'kind': 'valid', 'o': o, 'd': d, 'lf': rng.choice([1.0, 0.9, 0.75])}
        if rng.random() < 0.3:
            fl['table'] = {'tas': 1.0, 'rocd': 1.0, 'ff': 1.0, 'mass': 1.0, 'ceiling_ft': 41000, 'payload': 22422,
                           'ff_climb': rng.choice([3.0, 5.0])}
        return fl
    if r < 0.55:
        o, d = rng.choice([('XXX', 'LAX'), ('BOS', 'ZZZ'), ('QQQ', 'QQQ')])
        return {'kind': 'unknown-airport', 'o': o, 'd': d, 'lf': 1.0}
    if r < 0.68:
        o, d = rng.choice([('HI4', 'LAX'), ('LAX', 'HI3'), ('BOS', 'HI2'), ('HI3', 'LXA')])
        return {'kind': 'airport-above-cruise', 'o': o, 'd': d, 'lf': 1.0}
    if r < 0.82:
        o, d = rng.choice([('BOS', 'LAX'), ('MAD', 'WLG'), ('LHR', 'LAX')])
        return {'kind': 'outside-envelope', 'o': o, 'd': d, 'lf': 0.0 if (o, d) == ('BOS', 'LAX') else 1.0}
    if r < 0.9:
        o = rng.choice(['BOS', 'DEN'])
        return {'kind': 'too-short', 'o': o, 'd': o, 'lf': 1.0}
    o, d = rng.choice(VALID)
    return {'kind': 'valid', 'o': o, 'd': d, 'lf': 1.0}


def gen_sequence(rng, weather_ok: bool):
    use_weather = weather_ok and rng.random() < 1.0
    iterate = (not use_weather) and rng.random() < 0.45
    f = rng.choice([0.02, 0.02, 0.01])
    opts = {'iterate': iterate, 'max_iters': rng.choice([1, 3, 5, 5, 8]) if iterate else 5,
            'reltol': rng.choice([1e-2, 5e-2, 5e-2, 1e-3, 1e-6]) if iterate else 1e-2, 'use_weather': use_weather,
            'frac': [f, f, f] if rng.random() < 0.8 or use_weather else [0.02, 0.0125, 0.02]}
    n = rng.randint(2, 3) if use_weather else rng.randint(2, 8)
    flights = [gen_flight(rng, opts) for _ in range(n)]
    if not any(fl['kind'] != 'valid' for fl in flights):
        flights[rng.randrange(n)] = {'kind': 'unknown-airport', 'o': 'XXX', 'd': 'LAX', 'lf': 1.0}
    if flights[-1]['kind'] != 'valid' and not use_weather:
        o, d = rng.choice(VALID)
        flights.append({'kind': 'valid', 'o': o, 'd': d, 'lf': 1.0})       # a flight after the last failure
    return {'opts': opts, 'flights': flights}


# ----------------------------------------------------------------------------------------------
# check
# ----------------------------------------------------------------------------------------------

def extract(chk: Check):
    from translator import c17_extract, py2coq
    try:
        facts = c17_extract.facts(REPO)
        text = c17_extract.extract(REPO)
    except py2coq.Untranslatable as e:
        chk.obligations.append({'name': 'extract:builders/base.py+legacy.py:self-attributes,finally', 'ok': False})
        chk.broken('extract:builders/base.py:Builder', str(e))
        return None
    chk.obligations.append({'name': 'extract:builders/base.py+legacy.py:self-attributes,finally', 'ok': True})
    if chk.coq_compile_gen('C17_Extracted', text) is None:
        return None
    chk.coq_link('C17_Link.v')
    return facts


def coq_script(probe, fresh):
    ctor = 'None' if probe is None else f"(Some ({probe['code']})%Z)"
    its = []
    for j, it in enumerate(fresh['iters']):
        if it[0] == 'ok':
            its.append(f"(inl ({100 + j}%Z, {to_coq(it[1])}))")
        else:
            its.append(f"(inr ({it[1]})%Z)")
    return f"(mkscript {ctor} [{'; '.join(its)}])"


def check_sequences(chk: Check, seqs, guarded: bool, wx: Path):
    exprs, runs = [], []
    for seq in seqs:
        opts, flights = seq['opts'], seq['flights']
        hist_builder = make_builder(opts)
        hist, fresh, probes = [], [], []
        for fl in flights:
            hist.append(fly_once(hist_builder, fl, wx, opts['reltol']))
            fresh.append(fly_once(make_builder(opts), fl, wx, opts['reltol']))
            probes.append(ctor_probe(opts, fl, wx))
        runs.append((hist, fresh, probes))
        ss = '[' + '; '.join(coq_script(p, f) for p, f in zip(probes, fresh)) + ']'
        ids = '[' + '; '.join(f'{i}%Z' for i in range(len(flights))) + ']'
        given = '[' + '; '.join('None' for _ in flights) + ']'
        o = f"(mkopts false {to_coq(opts['iterate'])} {nat(opts['max_iters'])} 0%Z)"
        exprs.append(f"run_history {to_coq(guarded)} {o} {ss} {ids} {given}")
    models = chk.coq_eval(HEADER, exprs, shard=max(1, len(exprs) // 16 + 1), label='histories')
    for seq, (hist, fresh, probes), mo in zip(seqs, runs, models):
        flights, opts = seq['flights'], seq['opts']
        kinds = [fl['kind'] for fl in flights]
        failed_before = any(h['kind'] != 'flown' for h in hist[:-1])
        chk.case(seq, nontrivial=failed_before and len({fl['kind'] for fl in flights}) >= 2)
        for k in kinds:
            chk.count('flight:' + k)
        chk.count('builder:' + ('weather' if opts['use_weather'] else 'iterate' if opts['iterate'] else 'plain'))
        bad = None
        sig = None
        for h in hist:
            chk.count('outcome:' + (h['kind'] if h['kind'] != 'raised' else f"reason{h['code']}"))
        for j, (fl, h, f, p) in enumerate(zip(flights, hist, fresh, probes)):
            # (a) bit-identical to a brand-new builder
            same = (h['kind'] == f['kind'] and h.get('snap') == f.get('snap') and h.get('exc') == f.get('exc'))
            if not same:
                bad = f"flight {j} ({fl['kind']}) after {j} earlier flights differs from a fresh builder: {h.get('exc') or 'trajectory'} vs {f.get('exc') or 'trajectory'}"
                break
            # (c) nothing of the flight is left on the builder
            if h['has_ctx']:
                bad = f"flight {j} ({fl['kind']}) leaves the simulation context on the builder"
                break
            # (b) a refusal is the stage's own exception
            if h['kind'] != 'flown':
                if p is not None and h.get('exc') != p['exc']:
                    bad = (f"flight {j} ({fl['kind']}): the context constructor refuses with {p['exc'][0]}: {p['exc'][1]!r}, "
                           f"fly raises {h['exc'][0]}: {h['exc'][1]!r}")
                    if h['kind'] == 'attrctx' and h['context'] == p['exc'] and not guarded:
                        sig = F15_SIG
                    break
                if h['kind'] == 'attrctx' or (p is None and h['code'] not in DOCUMENTED):
                    bad = f"flight {j} ({fl['kind']}): rejected with an unrelated internal error {h['exc'][0]}: {h['exc'][1]!r}"
                    break
            # (d) mass iteration
            if h['kind'] == 'flown' and opts['iterate'] and not (h['leftover'] < opts['reltol']):
                bad = (f"flight {j} ({fl['kind']}): returned with leftover trip fuel {h['leftover']:.3e} of the fuel load, "
                       f"tolerance {opts['reltol']:.1e}")
                break
        if bad is not None:
            chk.fail(bad, {'seq': seq}, signature=sig)
        # model vs implementation (against the reading of the finally clause this tree has)
        if mo is None:
            continue
        shown, ctx_none, leftovers = mo
        want = []
        for h in hist:
            if h['kind'] == 'flown':
                want.append(('SFlown', 100 + len(h['iters']) - 1, len(h['iters'])))
            elif h['kind'] == 'attrctx':
                want.append('SAttrCtx')
            else:
                want.append(('SReason', h['code']))
        got = [tuple(x) if isinstance(x, (tuple, list)) else x for x in shown]
        own_impl = hist[-1]['own']
        if got != want or ctx_none is not True or sorted(leftovers) != own_impl:
            chk.broken('correspondence:C17_Model.run_history',
                       f'model {got} ctx_none={ctx_none} leftovers={leftovers} vs implementation {want} leftovers={own_impl}',
                       {'seq': seq})
        else:
            chk.traces_validated += 1


def behaviour_guarded() -> bool:
    """True iff an unknown airport on a fresh builder surfaces as the constructor's ValueError."""
    b = make_builder({'iterate': False, 'max_iters': 5, 'reltol': 1e-2, 'use_weather': False, 'frac': [0.02] * 3})
    try:
        b.fly(c02.perf_model(None), mission_of({'o': 'XXX', 'd': 'LAX', 'lf': 1.0}))
    except AttributeError:
        return False
    except ValueError:
        return True
    return True


def common_setup(chk: Check):
    chk.rule = ('sequences of 2-8 flights on one LegacyBuilder (valid, unknown airport, airport above cruise level, '
                'outside the performance envelope, too short, missing weather directory / file, outside the weather '
                'domain, non-converging mass iteration; iteration on/off with several limits and tolerances; '
                'weather on/off), each flight repeated on a brand-new builder and its context constructor called '
                'directly; non-trivial = a flight is flown after an earlier one failed, with at least two kinds of '
                'flight in the sequence')
    chk.trusted += ['translator/c17_extract.py (names written/read through self, fields of the context, finally clause)',
                    'harness/c17.py: recording wrapper around Builder._fly_iteration, direct constructor probe, '
                    'Python differential oracle']
    chk.assumptions += ['the flight computation reads the builder only through self.<name> for the names found by the '
                        'extractor (reads through other aliases of the builder object are not tracked)',
                        'the performance model, the airports table and the weather files do not change between the '
                        'flights of a sequence (they are shared, immutable inputs)']
    chk.coq_props('props/C17_Props.v')
    return extract(chk)


def load_corpus(chk):
    return [json.loads(f.read_text())['seq'] for f in sorted((VERIF / 'corpus' / chk.pid).glob('*.json'))]


def run(chk: Check):
    facts = common_setup(chk)
    wx = setup_env(chk)
    try:
        beh = behaviour_guarded()
        guarded = facts['guarded'] if facts is not None else beh
        chk.notes['finally_clause'] = 'guarded (repaired)' if guarded else 'unguarded `del self.ctx` (as coded, F15)'
        if facts is not None and facts['guarded'] != beh:
            chk.broken('link:finally-clause-vs-behaviour',
                       f"extracted finally clause guarded={facts['guarded']} but an unknown airport behaves as guarded={beh}")
        seqs = load_corpus(chk)
        nw = chk.n(2, 12)
        seqs += [gen_sequence(chk.rng, weather_ok=(i < nw)) for i in range(chk.n(40, 400))]
        check_sequences(chk, seqs, guarded, wx)
    finally:
        c02.teardown_env()


def replay(chk: Check, rp):
    facts = common_setup(chk)
    wx = setup_env(chk)
    try:
        guarded = facts['guarded'] if facts is not None else behaviour_guarded()
        case = rp.get('case') or {}
        if 'seq' in case:
            check_sequences(chk, [case['seq']], guarded, wx)
    finally:
        c02.teardown_env()

"""C19 — BADA-3 fuel-burn integration keeps mass, thrust and fuel flow consistent.

Tie:    translator/c19_extract.py regenerates the engine models, drag polar, total-energy thrust and thrust
        limiting from BADA/model.py (+ ISA, constants, units) -> Gen.C19_Extracted; link/C19_Link.v proves every
        regenerated definition equal to the model text (all number domains); the mass-update / driver shapes are
        recognised fail-closed and reported as two switches (shift, bwrev);
        correspondence: the four iterate_flight_simulation_* drivers, calculate_thrust and
        calculate_specific_ground_range of the real Bada3FuelBurnModel vs `C19_Model` evaluated in Coq (FNum).
Oracle: BADA-3 user-manual equations transcribed here in SI units (plain Python) + exact per-step trapezoid:
        the vector returned for n_iter = k must be the trapezoid update of the vector returned for k-1 (or equal to
        it after an early exit), start / end at the prescribed mass, never increase, initial mass <= MTOW.
"""

from __future__ import annotations

import json
import math

from harness.common import REPO, VERIF, Check, close, coq_float, nat

F17_SIG = 'bada-parameter-object-not-subscriptable'
F18_SIG = 'fuel-dependent-driver-first-step-not-trapezoid'
FA_SIG = 'backward-update-nonuniform-segment-lengths-in-forward-order'
FB_SIG = 'piston-fuel-flow-kg-per-min-used-as-kg-per-s'

HEADER = ('From Coq Require Import ZArith List PrimFloat.\nFrom AV Require Import lib.Num lib.FloatMath model.C19_Model.\n'
          'Import ListNotations.\nOpen Scope float_scope.\n')

PARAM_ORDER = ['c_f1', 'c_f2', 'c_fcr', 'c_d0cr', 'c_d2cr', 'S_ref', 'c_tc1', 'c_tc2', 'c_tc3', 'c_tc4', 'c_tc5', 'c_tcr',
               'c_tdes_low', 'c_tdes_high', 'h_p_des']

# representative coefficient sets (orders of magnitude of published BADA 3 OPF files; not BADA data)
BASE = {
    'Jet': dict(c_f1=0.70, c_f2=1068.0, c_f3=14.2, c_f4=65900.0, c_fcr=0.93, c_d0cr=0.0255, c_d2cr=0.0358, S_ref=124.65,
                c_tc1=146590.0, c_tc2=53872.0, c_tc3=3.0453e-11, c_tc4=9.6, c_tc5=0.0085, c_tcr=0.95,
                c_tdes_low=0.046, c_tdes_high=0.12, h_p_des=11653.0, c_tdes_app=0.15, c_tdes_ld=0.35,
                ref_mass=64000.0, min_mass=39000.0, max_mass=77000.0, max_payload=21500.0),
    'Turboprop': dict(c_f1=0.45, c_f2=650.0, c_f3=5.0, c_f4=40000.0, c_fcr=0.95, c_d0cr=0.028, c_d2cr=0.034, S_ref=61.0,
                      c_tc1=3.6e6, c_tc2=32000.0, c_tc3=600.0, c_tc4=8.0, c_tc5=0.007, c_tcr=0.95,
                      c_tdes_low=0.05, c_tdes_high=0.10, h_p_des=8000.0, c_tdes_app=0.15, c_tdes_ld=0.3,
                      ref_mass=20000.0, min_mass=13000.0, max_mass=23000.0, max_payload=7500.0),
    'Piston': dict(c_f1=0.65, c_f2=0.0, c_f3=0.3, c_f4=0.0, c_fcr=1.0, c_d0cr=0.032, c_d2cr=0.06, S_ref=16.2,
                   c_tc1=2600.0, c_tc2=22000.0, c_tc3=12000.0, c_tc4=0.0, c_tc5=0.009, c_tcr=0.95,
                   c_tdes_low=0.1, c_tdes_high=0.2, h_p_des=5000.0, c_tdes_app=0.2, c_tdes_ld=0.4,
                   ref_mass=1100.0, min_mass=800.0, max_mass=1200.0, max_payload=300.0),
}

FT = 0.3048            # m per ft (exact)
KT = 1852.0 / 3600.0   # m/s per knot (exact)
G0 = 9.80665
R_AIR = 287.05287


# ---------------------------------------------------------------------------------------------
# independent BADA-3 equations (user manual rev. 3.x, equation numbers in comments), SI units
# ---------------------------------------------------------------------------------------------

def isa_T(h):
    return 288.15 - 0.0065 * h if h <= 11000.0 else 216.65


def isa_p(h):
    if h <= 11000.0:
        return 101325.0 * (isa_T(h) / 288.15) ** (G0 / (0.0065 * R_AIR))
    p11 = 101325.0 * (216.65 / 288.15) ** (G0 / (0.0065 * R_AIR))
    return p11 * math.exp(-G0 / (R_AIR * 216.65) * (h - 11000.0))


def ref_max_climb(eng, P, h, v, T):
    hp = h / FT
    vk = v / KT
    if eng == 'Jet':                                                   # (3.7-1)
        t = P['c_tc1'] * (1.0 - hp / P['c_tc2'] + P['c_tc3'] * hp * hp)
    elif eng == 'Turboprop':                                           # (3.7-2)
        t = P['c_tc1'] / vk * (1.0 - hp / P['c_tc2']) + P['c_tc3']
    else:                                                              # (3.7-3)
        t = P['c_tc1'] * (1.0 - hp / P['c_tc2']) + P['c_tc3'] / vk
    dteff = (T - isa_T(h)) - P['c_tc4']                                # (3.7-5)
    corr = min(max(dteff * max(P['c_tc5'], 0.0), 0.0), 0.4)            # (3.7-4, -6, -7)
    return t * (1.0 - corr)


def ref_cond(eng, P, pt, m):
    """conditioning of the point: (magnitude of the largest term that enters the thrust, d fuel flow / d thrust).
    Total-energy thrust is drag + m g rocd / v + m a, the maximum thrust a polynomial whose terms reach 1e4-1e5 N and may
    cancel (above the altitude where it changes sign the result is a few N): the 1e-6 .. 1e-5 relative difference between
    AEIC's rounded unit constants and the exact ones used here is relative to THOSE terms, not to the result."""
    h, v, T = pt['alt'], pt['v'], pt['T']
    hp, vk = h / FT, v / KT
    rho = isa_p(h) / (R_AIR * T)
    cl = 2.0 * m * G0 / (rho * v * v * P['S_ref'])
    drag = (P['c_d0cr'] + P['c_d2cr'] * cl * cl) * rho * v * v * P['S_ref'] / 2.0
    if eng == 'Jet':
        poly = abs(P['c_tc1']) * max(1.0, abs(hp / P['c_tc2']), abs(P['c_tc3'] * hp * hp))
        dfdt = abs(P['c_f1'] * (1.0 + vk / P['c_f2'])) / 60000.0
    elif eng == 'Turboprop':
        poly = max(abs(P['c_tc1'] / vk) * max(1.0, abs(hp / P['c_tc2'])), abs(P['c_tc3']))
        dfdt = abs(P['c_f1'] * (1.0 - vk / P['c_f2']) * (vk / 1000.0)) / 60000.0
    else:
        poly = max(abs(P['c_tc1']) * max(1.0, abs(hp / P['c_tc2'])), abs(P['c_tc3'] / vk))
        dfdt = 0.0
    scale = max(abs(drag), abs(m * G0 * pt['rocd'] / v), abs(m * pt['acc']), poly, 1.0)
    return scale, dfdt * (P['c_fcr'] if pt['cruise'] else 1.0)


REL = 1e-5          # oracle tolerance, relative to the magnitude of the terms involved (see ref_cond)


def ref_thrust(eng, P, pt, m):
    h, v, T = pt['alt'], pt['v'], pt['T']
    rho = isa_p(h) / (R_AIR * T)
    cl = 2.0 * m * G0 / (rho * v * v * P['S_ref'])                     # (3.6-1)
    cd = P['c_d0cr'] + P['c_d2cr'] * cl * cl                           # (3.6-2)
    drag = cd * rho * v * v * P['S_ref'] / 2.0                         # (3.6-5)
    te = drag + m * G0 * pt['rocd'] / v + m * pt['acc']                # (3.2-1)
    tmax_climb = ref_max_climb(eng, P, h, v, T)
    tmax = P['c_tcr'] * tmax_climb if pt['cruise'] else tmax_climb     # (3.7-8)
    thr = min(te, tmax)
    if thr < 0.0:
        c = P['c_tdes_high'] if h / FT > P['h_p_des'] else P['c_tdes_low']     # (3.7-9, -10)
        thr = c * tmax_climb
    return thr, tmax, te


def ref_flow(eng, P, pt, m, piston_per_second=True):
    """fuel flow in kg/s"""
    thr, _, _ = ref_thrust(eng, P, pt, m)
    vk = pt['v'] / KT
    if eng == 'Jet':
        eta = P['c_f1'] * (1.0 + vk / P['c_f2'])                       # (3.9-1) kg/(min kN)
        f = eta * thr / 1000.0 / 60.0                                  # (3.9-3)
    elif eng == 'Turboprop':
        eta = P['c_f1'] * (1.0 - vk / P['c_f2']) * (vk / 1000.0)       # (3.9-2)
        f = eta * thr / 1000.0 / 60.0
    else:
        f = P['c_f1'] / 60.0 if piston_per_second else P['c_f1']      # (3.9-?) piston: C_f1 in kg/min
    if pt['cruise']:
        f *= P['c_fcr']                                                # (3.9-6)
    return f


def ref_rate(eng, P, pt, m, **kw):
    """fuel burnt per metre of ground distance as the code integrates it: flow / ground speed, nothing where the
    specific ground range is below 1 m/kg or the flow is zero"""
    f = ref_flow(eng, P, pt, m, **kw)
    if f == 0.0:
        return 0.0
    sgr = pt['gs'] / f
    return 0.0 if sgr < 1.0 else 1.0 / sgr


def ref_steps(eng, P, pts, prev, ds, **kw):
    y = [ref_rate(eng, P, pt, m, **kw) for pt, m in zip(pts, prev)]
    return [ds[k] * (y[k] + y[k + 1]) / 2.0 for k in range(len(pts) - 1)]


def ref_step_tols(eng, P, pts, prev, ds):
    """absolute slack of each step from the conditioning of the thrust at its two end points:
    ds * (dflow/dthrust * REL * term scale / ground speed), averaged as the trapezoid does"""
    yt = []
    for pt, m in zip(pts, prev):
        scale, dfdt = ref_cond(eng, P, pt, m)
        yt.append(REL * dfdt * scale / pt['gs'])
    return [abs(ds[k]) * (yt[k] + yt[k + 1]) / 2.0 for k in range(len(pts) - 1)]


# ---------------------------------------------------------------------------------------------
# generation
# ---------------------------------------------------------------------------------------------

def gen_params(rng, eng):
    P = dict(BASE[eng])
    for k in list(P):
        if k in ('c_tc4', 'c_f2', 'c_f4') and P[k] == 0.0:
            continue
        P[k] = P[k] * rng.uniform(0.85, 1.15)
    P['c_tcr'] = min(P['c_tcr'], 1.0)
    if rng.random() < 0.15:
        P['c_tc5'] = -abs(P['c_tc5'])          # negative C_Tc5 is clamped to 0 by (3.7-7)
    P['engine_type'] = eng
    return P


def gen_profile(rng, eng, P):
    n = rng.choice([2, 3, 5, 8, 12, 20, 30])
    ceil = {'Jet': 11500.0, 'Turboprop': 7000.0, 'Piston': 3000.0}[eng]
    vcr = {'Jet': 230.0, 'Turboprop': 140.0, 'Piston': 55.0}[eng]
    shape = rng.choice(['cruise', 'climb-cruise-descent', 'climb', 'descent', 'mixed'])
    pts = []
    for i in range(n):
        x = i / max(n - 1, 1)
        if shape == 'cruise':
            ph = 'cr'
        elif shape == 'climb':
            ph = 'cl'
        elif shape == 'descent':
            ph = 'de'
        elif shape == 'mixed':
            ph = rng.choice(['cl', 'cr', 'de'])
        else:
            ph = 'cl' if x < 0.25 else ('cr' if x < 0.75 else 'de')
        if ph == 'cr':
            alt, rocd, acc, cruise = ceil * rng.uniform(0.8, 1.0), 0.0, 0.0, True
            v = vcr * rng.uniform(0.9, 1.05)
        elif ph == 'cl':
            alt = ceil * (rng.uniform(0.05, 0.9) if shape != 'climb-cruise-descent' else max(0.05, 3.6 * x))
            rocd, acc, cruise = rng.uniform(2.0, 15.0) * (0.3 if eng == 'Piston' else 1.0), rng.uniform(0.0, 0.3), False
            v = vcr * rng.uniform(0.55, 0.9)
        else:
            alt = ceil * (rng.uniform(0.05, 0.9) if shape != 'climb-cruise-descent' else max(0.05, 3.6 * (1 - x)))
            rocd, acc, cruise = -rng.uniform(3.0, 18.0) * (0.3 if eng == 'Piston' else 1.0), -rng.uniform(0.0, 0.3), False
            v = vcr * rng.uniform(0.6, 0.95)
        if rng.random() < 0.05:
            cruise = not cruise
        if eng != 'Piston' and rng.random() < 0.06:
            # above the altitude where the BADA maximum-thrust polynomial changes sign: thrust limit, descent thrust and
            # therefore fuel flow are NEGATIVE there (specific ground range < 0: nothing is burnt)
            alt = min(24500.0, P['c_tc2'] * FT * (rng.uniform(1.15, 1.35) if eng == 'Jet' else rng.uniform(1.08, 1.3)))
        if rng.random() < 0.12:
            # acceleration independent of the sign of the climb rate: a level or climbing point that decelerates harder than
            # drag / mass (negative total-energy thrust without descending), an accelerating descent
            acc = rng.choice([-1.0, -0.7, -1.5, 0.6, 0.9]) if ph != 'de' else rng.choice([0.5, 0.9, -1.2])
        T = isa_T(alt) + rng.choice([0.0, 0.0, rng.uniform(-15.0, 25.0)])      # (T from the final altitude)
        gs = v + rng.uniform(-0.2, 0.2) * v
        pts.append({'T': T, 'alt': alt, 'v': v, 'rocd': rocd, 'acc': acc, 'cruise': cruise, 'gs': gs})
    seg = {'Jet': 60000.0, 'Turboprop': 30000.0, 'Piston': 12000.0}[eng] * rng.uniform(0.2, 2.0) * (12.0 / max(n, 4))
    if rng.random() < 0.45:
        ds = [seg * rng.uniform(0.3, 2.0) for _ in range(n - 1)]
        scalar = False
    else:
        ds = [seg] * (n - 1)
        scalar = True
    return pts, ds, scalar


def gen_case(rng, cid):
    eng = rng.choice(['Jet', 'Jet', 'Turboprop', 'Piston'])
    P = gen_params(rng, eng)
    pts, ds, scalar = gen_profile(rng, eng, P)
    drv = rng.choice(['ci', 'ci', 'cf', 'cf', 'fd_fraction', 'fd_value', 'fd_fraction'])
    n_iter = rng.choice([0, 1, 1, 2, 2, 3, 5, 10, 10])
    mref = P['ref_mass']
    c = {'id': cid, 'engine': eng, 'params': P, 'pts': pts, 'ds': ds, 'scalar_dx': scalar, 'driver': drv, 'n_iter': n_iter,
         'flag_kind': rng.choice(['bool', 'bool', 'int8', 'int64', 'list-bool', 'list-int', 'float'])}
    if drv == 'ci':
        c['m'] = mref * rng.uniform(0.8, 1.15)
    elif drv == 'cf':
        c['m'] = mref * rng.uniform(0.7, 1.0)
    else:
        oew = P['min_mass'] * rng.uniform(0.95, 1.05)
        lf = rng.uniform(0.3, 1.0)
        mtow = P['max_mass'] * rng.choice([1.0, 1.0, 0.8])
        r = rng.random()
        if r < (0.6 if drv == 'fd_value' else 0.35):        # MTOW limit active, or reached only by the reserve
            mtow = (oew + P['max_payload'] * lf) * rng.choice([1.0, 1.01, 1.03, 1.06])
        c.update(m=mref * rng.uniform(0.75, 1.25), mtow=mtow, oew=oew,
                 mpl=P['max_payload'], lf=lf,
                 reserve=rng.uniform(0.03, 0.1) if drv == 'fd_fraction' else rng.uniform(0.01, 0.06) * mref)
    return c


def gen_long_case(rng, cid, fixed=False):
    """long, heavy flight: the fuel burnt is a sizeable fraction of the mass, so that the SECOND and the THIRD pass of the
    iteration still move the free end of the profile by more than the 0.01 % criterion (the ordinary profiles converge in
    two passes).  Level cruise of 3500 - 7500 km (jet) with an optional climb / descent point at the ends, n_iter in
    {3, 5, 10}, mostly the backward (constant-final-mass) driver.  fixed=True: A320-like, 6000 km, final mass 56 t."""
    eng = 'Jet' if fixed or rng.random() < 0.8 else 'Turboprop'
    P = dict(BASE[eng])
    if not fixed:
        for k in list(P):
            if P[k] != 0.0:
                P[k] = P[k] * rng.uniform(0.95, 1.05)
        P['c_tcr'] = min(P['c_tcr'], 1.0)
    P['engine_type'] = eng
    n = 61 if fixed else rng.choice([21, 31, 41, 61])
    total = 6.0e6 if fixed else ({'Jet': 1.0, 'Turboprop': 0.45}[eng] * rng.uniform(3.5e6, 7.5e6))
    alt0 = {'Jet': 10668.0, 'Turboprop': 6500.0}[eng]
    vcr = {'Jet': 230.0, 'Turboprop': 140.0}[eng]
    ends = (not fixed) and rng.random() < 0.5
    wind = 0.0 if fixed else rng.uniform(-0.1, 0.1)
    pts = []
    for i in range(n):
        alt, v, rocd, acc, cruise = alt0, vcr, 0.0, 0.0, True
        if ends and i == 0:
            alt, v, rocd, acc, cruise = 0.5 * alt0, 0.8 * vcr, 8.0, 0.1, False
        elif ends and i == n - 1:
            alt, v, rocd, acc, cruise = 0.5 * alt0, 0.8 * vcr, -8.0, -0.1, False
        elif not fixed:
            alt = alt0 * rng.uniform(0.93, 1.02)
            v = vcr * rng.uniform(0.97, 1.03)
        pts.append({'T': isa_T(alt), 'alt': alt, 'v': v, 'rocd': rocd, 'acc': acc, 'cruise': cruise, 'gs': v * (1.0 + wind)})
    seg = total / (n - 1)
    scalar = fixed or rng.random() < 0.5
    ds = [seg] * (n - 1) if scalar else [seg * rng.uniform(0.6, 1.4) for _ in range(n - 1)]
    drv = 'cf' if fixed or rng.random() < 0.75 else 'ci'
    c = {'id': cid, 'engine': eng, 'params': P, 'pts': pts, 'ds': ds, 'scalar_dx': scalar, 'driver': drv,
         'n_iter': 10 if fixed else rng.choice([3, 5, 10]), 'flag_kind': 'bool', 'long': True}
    c['m'] = (56000.0 if fixed else P['ref_mass'] * rng.uniform(0.8, 0.95)) if drv == 'cf' else P['ref_mass'] * rng.uniform(1.05, 1.18)
    return c


def gen_param_twin(rng, c, cid):
    """the same flight again on the SAME model / parameter object after some coefficients were changed on that object,
    by attribute assignment or by assign_parameters_fromdict: the result must be that of a fresh object with the new values"""
    t = json.loads(json.dumps(c))
    t['id'] = cid
    t.pop('first_flight', None)
    names = rng.sample(['c_f1', 'c_tc1', 'c_tdes_high', 'c_tdes_low', 'c_fcr', 'c_d0cr', 'c_tc2', 'c_f2'], rng.choice([1, 2, 3]))
    vals = {}
    for k_ in names:
        if t['params'].get(k_):
            vals[k_] = t['params'][k_] * rng.choice([0.7, 0.85, 1.2, 1.4])
    if 'c_fcr' in vals:
        vals['c_fcr'] = min(vals['c_fcr'], 1.0)
    t['params'].update(vals)
    t['mutate_params'] = {'how': rng.choice(['attr', 'attr', 'fromdict']), 'values': vals}
    t['twin_of'] = c['id']
    t['first_flight'] = json.loads(json.dumps(c))
    return t


def gen_twin(rng, c, cid):
    """a second flight for the SAME model object: byte-identical altitude and cruise-flag arrays, different
    temperature (hot / cold day) and true airspeed — anything memoised per altitude profile would be stale"""
    t = json.loads(json.dumps(c))
    t['id'] = cid
    dT = rng.choice([28.0, 20.0, -12.0, 35.0])
    fv = rng.choice([1.0, 0.85, 1.12])
    for p in t['pts']:
        p['T'] = p['T'] + dT
        p['v'] = p['v'] * fv
        p['gs'] = p['gs'] * fv
    t['twin_of'] = c['id']
    t['first_flight'] = json.loads(json.dumps(c))      # replayed first, on the same model object
    return t


# ---------------------------------------------------------------------------------------------
# implementation side
# ---------------------------------------------------------------------------------------------

_shim = None


def make_model(P, own: bool):
    """own=True: the library's own Bada3AircraftParameters; own=False: harness subclass that adds item access
    (only used while F17 is present, so that the rest of the code can be exercised)"""
    global _shim
    from AEIC.BADA.aircraft_parameters import Bada3AircraftParameters
    from AEIC.BADA.model import Bada3FuelBurnModel
    if own:
        ap = Bada3AircraftParameters()
    else:
        if _shim is None:
            class Shim(Bada3AircraftParameters):
                def __getitem__(self, key):
                    return getattr(self, key)
            _shim = Shim
        ap = _shim()
    ap.assign_parameters_fromdict(dict(P))
    return Bada3FuelBurnModel(ap)


def arrays(c):
    import numpy as np
    p = c['pts']
    col = lambda k: np.array([float(x[k]) for x in p])  # noqa: E731
    # the cruise flags as a caller may hold them: a bool array, 0/1 integers of either width, or plain Python lists
    fk = c.get('flag_kind', 'bool')
    flags = [bool(x['cruise']) for x in p]
    cruise = {'bool': lambda: np.array(flags), 'int8': lambda: np.array(flags, dtype='int8'),
              'int64': lambda: np.array(flags, dtype='int64'), 'list-bool': lambda: list(flags),
              'list-int': lambda: [int(f) for f in flags], 'float': lambda: np.array(flags, dtype='float64')}[fk]()
    return dict(temperature=col('T'), altitude=col('alt'), v_tas=col('v'), rocd=col('rocd'), acceleration=col('acc'),
                in_cruise=cruise, groundspeed=col('gs'),
                segment_distance=(float(c['ds'][0]) if c['scalar_dx'] and c['ds'] else np.array([float(d) for d in c['ds']])))


def run_driver(model, c, n_iter, a=None, raw=False):
    a = arrays(c) if a is None else a
    d = c['driver']
    if d == 'ci':
        r = model.iterate_flight_simulation_constant_initial_mass(**a, initial_mass=c['m'], n_iter=n_iter)
    elif d == 'cf':
        r = model.iterate_flight_simulation_constant_final_mass(**a, final_mass=c['m'], n_iter=n_iter)
    elif d == 'fd_fraction':
        r = model.iterate_flight_simulation_fuel_burn_dependent_initial_mass_rf_fraction(
            **a, initial_mass_estimate=c['m'], mtow=c['mtow'], oew=c['oew'], mpl=c['mpl'], load_factor=c['lf'],
            reserve_fuel_fraction=c['reserve'], n_iter=n_iter)
    else:
        r = model.iterate_flight_simulation_fuel_burn_dependent_initial_mass_rf_value(
            **a, initial_mass_estimate=c['m'], mtow=c['mtow'], oew=c['oew'], mpl=c['mpl'], load_factor=c['lf'],
            reserve_fuel=c['reserve'], n_iter=n_iter)
    return r if raw else [float(x) for x in r]


_models: dict = {}


def impl_case(c, own):
    """-> dict(result=[...], prev=[...] or None, thrust=[...], sgr=[...]) or dict(error=[cls, msg])
    Cases carrying the same 'model_key' are evaluated on ONE Bada3FuelBurnModel object, one after the other."""
    import numpy as np
    try:
        key = (c.get('model_key'), own)
        if c.get('model_key') is not None and key in _models:
            model = _models[key]
            mp = c.get('mutate_params')
            if mp:        # the SAME parameter object is changed between two evaluations, as a calibration loop would do
                if mp['how'] == 'attr':
                    for k_, v_ in mp['values'].items():
                        setattr(model.aircraft_parameters, k_, v_)
                else:
                    model.aircraft_parameters.assign_parameters_fromdict(dict(mp['values']))
        else:
            model = make_model(c['params'], own)
            if c.get('model_key') is not None:
                _models[key] = model
        k = c['n_iter']
        # the caller's arrays are created once and handed to every call of this case, as a caller would do
        a = arrays(c)
        pristine = {n_: (v.copy() if hasattr(v, 'copy') else v) for n_, v in a.items()}
        held = run_driver(model, c, k, a, raw=True)          # the returned ndarray is kept across the later calls
        out = {'result': [float(x) for x in held]}
        fd = c['driver'].startswith('fd')
        base = 0 if fd else 1            # smallest meaningful n_iter: one update of the constant vector
        # the iterate the last update started from: the result for the largest j < k that differs (early exits repeat)
        j = max(k, base) - 1
        prev = None
        same_as_fewer = False
        while j >= base:
            cand = run_driver(model, c, j, a)
            if cand != out['result']:
                prev = cand
                break
            same_as_fewer = True          # asking for fewer passes gives the same vector: the driver returned early
            j -= 1
        out['prev'] = prev
        out['same_as_fewer'] = same_as_fewer
        if c.get('long') and not fd:
            f_ = 0 if c['driver'] == 'cf' else -1
            p2, p3 = run_driver(model, c, 2, a), run_driver(model, c, 3, a)
            out['third_pass_moves'] = bool(abs(p3[f_] - p2[f_]) / abs(p2[f_]) * 100.0 >= 0.01)
        out['installed'] = bool(fd and prev is not None)
        mass = np.array(out['result'])
        out['thrust'] = [float(x) for x in np.atleast_1d(model.calculate_thrust(
            mass, a['temperature'], a['altitude'], a['v_tas'], a['rocd'], a['acceleration'], a['in_cruise']))]
        out['sgr'] = [float(x) for x in np.atleast_1d(model.calculate_specific_ground_range(
            mass, a['temperature'], a['altitude'], a['v_tas'], a['rocd'], a['acceleration'], a['in_cruise'],
            a['groundspeed']))]
        out['mutated'] = [n_ for n_, v in a.items() if not np.array_equal(np.asarray(v), np.asarray(pristine[n_]))]
        out['result_changed_later'] = [float(x) for x in held] != out['result']
        return out
    except Exception as e:  # noqa: BLE001
        return {'error': [type(e).__name__, str(e)[:200]]}


# ---------------------------------------------------------------------------------------------
# Coq side
# ---------------------------------------------------------------------------------------------

def fl(xs):
    return '[' + '; '.join(coq_float(float(x)) for x in xs) + ']'


def coq_params(P):
    return '(Build_params FNum ' + ' '.join(coq_float(float(P[k])) for k in PARAM_ORDER) + ')'


def coq_points(pts):
    return '[' + '; '.join(
        '(Build_point FNum ' + ' '.join(coq_float(float(p[k])) for k in ('T', 'alt', 'v', 'rocd', 'acc'))
        + (' true ' if p['cruise'] else ' false ') + coq_float(float(p['gs'])) + ')' for p in pts) + ']'


def coq_case(c, flags):
    sh = 'true' if flags.get('shift_whole_vector') else 'false'
    bw = 'true' if flags.get('backward_dx_reversed') else 'false'
    ps = 'true' if flags.get('piston_per_second') else 'false'
    n = len(c['pts'])
    pre = (f'let P := {coq_params(c["params"])} in let pts := {coq_points(c["pts"])} in\n'
           f' let sgr := @bada_sgr FNum {ps} {c["engine"]} P pts in let ds := {fl(c["ds"])} in\n')
    d = c['driver']
    if d == 'ci':
        run = f'@iterate_ci FNum sgr ds {nat(n)} {coq_float(c["m"])} {nat(c["n_iter"])}'
    elif d == 'cf':
        run = f'@iterate_cf FNum sgr ds {bw} {nat(n)} {coq_float(c["m"])} {nat(c["n_iter"])}'
    else:
        rule = 'new_initial_fraction' if d == 'fd_fraction' else 'new_initial_value'
        ni = (f'(@{rule} FNum {coq_float(c["mtow"])} {coq_float(c["oew"])} {coq_float(c["mpl"])} '
              f'{coq_float(c["lf"])} {coq_float(c["reserve"])})')
        run = f'@iterate_fd FNum sgr ds {sh} {ni} {nat(n)} {coq_float(c["m"])} {nat(c["n_iter"])}'
    return (pre + f' let r := {run} in\n'
            ' (r, map (fun pm => @point_thrust FNum ' + c['engine'] + ' P (fst pm) (snd pm)) (combine pts r), sgr r)')


# ---------------------------------------------------------------------------------------------
# extraction + link
# ---------------------------------------------------------------------------------------------

def extract(chk: Check):
    from translator import c19_extract, py2coq
    name = 'extract:BADA/model.py+fuel_burn_base.py+standard_atmosphere.py'
    try:
        text, flags = c19_extract.extract_c19(REPO)
    except py2coq.Untranslatable as e:
        chk.obligations.append({'name': name, 'ok': False})
        chk.broken(name, str(e))
        try:            # the state of the two repaired sites is recognised independently of the numeric translation
            return c19_extract.extract_flags(REPO)
        except py2coq.Untranslatable:
            return {}
    chk.obligations.append({'name': name, 'ok': True})
    if chk.coq_compile_gen('C19_Extracted', text) is not None:
        chk.coq_link('C19_Link.v')
    return flags


# ---------------------------------------------------------------------------------------------
# oracle
# ---------------------------------------------------------------------------------------------

def vec_close(a, b, scale, rel=1e-7):
    return len(a) == len(b) and all(abs(x - y) <= rel * max(abs(x), abs(y)) + 1e-9 * scale for x, y in zip(a, b))


def judge(chk: Check, c, io, tag):
    """property clauses on one implementation answer; -> True if passed"""
    full = {'case': c, 'impl': io, 'with': tag}
    eng, P, pts, ds = c['engine'], c['params'], c['pts'], c['ds']
    r, prev = io['result'], io['prev']
    n, d, k = len(pts), c['driver'], c['n_iter']
    scale = abs(c['m'])
    if len(r) != n or not all(math.isfinite(x) for x in r):
        chk.fail(f'mass vector has wrong length or non-finite entries: {r[:6]}', full)
        return False
    steps = [r[j] - r[j + 1] for j in range(n - 1)]
    fd = d.startswith('fd') and io.get('installed', False)
    # what the last update started from (see impl_case)
    start = prev if prev is not None else [c['m']] * n
    bad, sig = None, None

    step_tol = ref_step_tols(eng, P, pts, start, ds)

    def step_ok(g, w, t):
        return abs(g - w) <= REL * max(abs(w), abs(g)) + 1e-9 * scale + t

    def steps_ok(want, got=steps, lo=0):
        return all(step_ok(g, w, t) for g, w, t in list(zip(got, want, step_tol))[lo:])

    want = ref_steps(eng, P, pts, start, ds)

    def explain():
        """which combination of the recorded defects (and nothing else) reproduces the returned steps"""
        for first in ((False, True) if fd else (False,)):
            for bw in ((False, True) if (d == 'cf' and not c['scalar_dx']) else (False,)):
                for pm in ((False, True) if eng == 'Piston' else (False,)):
                    if not (first or bw or pm):
                        continue
                    w = ref_steps(eng, P, pts, start, ds[::-1] if bw else ds, piston_per_second=not pm)
                    if steps_ok(w, lo=1 if first else 0):
                        return F18_SIG if first else (FA_SIG if bw else FB_SIG)
        return None

    def early_return_unjustified():
        """the driver stopped before n_iter passes. That is the property's 'decrease = trapezoid of fuel flow' only up to
        the convergence criterion, so it needs (a) the free end of the profile (initial mass of the backward driver, final
        mass of the forward one) to have moved by less than 0.01 % in the last pass that was done [prev -> r], or (b) the
        returned profile to be a fixed point already: its steps are the trapezoid of the fuel flow at the RETURNED masses
        (e.g. every point thrust-limited, so that a further pass changes nothing).  Neither: unjustified."""
        f_ = 0 if d == 'cf' else n - 1
        if abs(r[f_] - prev[f_]) / abs(prev[f_]) * 100.0 < 0.01 * (1.0 + 1e-9):
            return False
        want_r = ref_steps(eng, P, pts, r, ds)
        tol_r = ref_step_tols(eng, P, pts, r, ds)
        return not all(step_ok(g, w, t) for g, w, t in zip(steps, want_r, tol_r))

    if d.startswith('fd') and not fd and r[0] != c['m']:
        bad = f'without an iteration (n_iter = {k}) the profile starts at {r[0]!r}, not at the given estimate {c["m"]!r}'
    elif d == 'ci' and r[0] != c['m']:
        bad = f'mass profile starts at {r[0]!r}, prescribed initial mass {c["m"]!r}'
    elif d == 'cf' and r[-1] != c['m']:
        bad = f'mass profile ends at {r[-1]!r}, prescribed final mass {c["m"]!r}'
    elif any(s < -1e-9 * scale for s in steps):
        j = next(i for i, s in enumerate(steps) if s < -1e-9 * scale)
        bad = f'mass increases along the flight at step {j}: {r[j]!r} -> {r[j + 1]!r}'
        sig = explain() if (fd and j == 0) else None
        sig = sig if sig == F18_SIG else None
    elif not steps_ok(want):
        j = next(i for i, (g, w, t) in enumerate(zip(steps, want, step_tol)) if not step_ok(g, w, t))
        bad = (f'decrease of mass over step {j} is {steps[j]!r} kg, trapezoid of fuel flow / ground speed over that '
               f'segment is {want[j]!r} kg')
        sig = explain()
    elif d in ('ci', 'cf') and io.get('same_as_fewer') and prev is not None and early_return_unjustified():
        f_ = 0 if d == 'cf' else n - 1
        want_r = ref_steps(eng, P, pts, r, ds)
        tol_r = ref_step_tols(eng, P, pts, r, ds)
        j = next(i for i, (g, w, t) in enumerate(zip(steps, want_r, tol_r)) if not step_ok(g, w, t))
        drift = (sum(want_r) - sum(steps)) * (1.0 if d == 'cf' else -1.0)
        bad = (f'returned before the {k} requested passes were done (n_iter = {k} gives the vector of fewer passes) although '
               f'the free end of the profile ({"initial" if d == "cf" else "final"} mass) still moved by '
               f'{abs(r[f_] - prev[f_]) / prev[f_] * 100.0!r} % (criterion 0.01 %) in its last pass, and the returned profile is '
               f'not the trapezoid of the BADA-3 fuel flow AT THE RETURNED MASSES: step {j} decreases by {steps[j]!r} kg, '
               f'trapezoid {want_r[j]!r} kg; one more pass would move the free end by {drift!r} kg')
    elif fd:
        if r[0] > c['mtow'] * (1 + 1e-12):
            bad = f'initial mass {r[0]!r} exceeds maximum take-off mass {c["mtow"]!r}'
        else:
            burn = sum(want)
            extra = burn * (1.0 + c['reserve']) if d == 'fd_fraction' else burn + c['reserve']
            wi = min(c['oew'] + c['mpl'] * c['lf'] + extra, c['mtow'])
            if abs(r[0] - wi) > 1e-6 * scale:
                bad = f'initial mass {r[0]!r} is not min(OEW + payload + fuel (+ reserve), MTOW) = {wi!r}'
    if bad is None:
        # point-wise: thrust and specific ground range the library reports for the returned masses
        for j, (pt, m) in enumerate(zip(pts, r)):
            thr, tmax, te = ref_thrust(eng, P, pt, m)
            tscale, dfdt = ref_cond(eng, P, pt, m)
            if abs(io['thrust'][j] - thr) > REL * max(abs(thr), tscale):
                bad = (f'calculate_thrust at point {j}: {io["thrust"][j]!r} N, BADA-3 equations give {thr!r} N '
                       f'(total-energy {te!r}, applicable maximum {tmax!r}, largest term {tscale!r})')
                break
            # specific ground range, compared as the fuel flow it stands for: |flow - reference| within REL of the flow
            # plus REL of (d flow / d thrust) x (largest thrust term)
            f = ref_flow(eng, P, pt, m)
            ftol = REL * dfdt * tscale
            si = io['sgr'][j]
            fi = 0.0 if si == 0.0 else pt['gs'] / si
            if abs(fi - f) > REL * max(abs(f), abs(fi)) + ftol:
                ws = 0.0 if f == 0.0 else pt['gs'] / f
                bad = (f'specific ground range at point {j}: {si!r} m/kg (fuel flow {fi!r} kg/s), ground speed / BADA-3 fuel '
                       f'flow = {ws!r} m/kg (fuel flow {f!r} kg/s)')
                if eng == 'Piston' and abs(fi - 60.0 * f) <= REL * abs(fi):
                    sig = FB_SIG
                break
    if bad is None:
        return True
    chk.fail(bad, full, signature=sig)
    return False


# ---------------------------------------------------------------------------------------------
# the check
# ---------------------------------------------------------------------------------------------

def process(chk: Check, cases, flags):
    exprs = []
    impls = []
    for c in cases:
        own = impl_case(c, True)
        used = 'library parameter object'
        if 'error' in own and own['error'][0] == 'TypeError' and 'not subscriptable' in own['error'][1]:
            # F17: the engine models subscript the parameter object
            chk.fail(f'every entry point raises {own["error"][0]}: {own["error"][1]} with the library\'s own '
                     f'Bada3AircraftParameters', {'case': c, 'impl': own, 'with': used}, signature=F17_SIG)
            own = impl_case(c, False)
            used = 'harness subclass adding item access (F17 present)'
        impls.append((own, used))
        exprs.append(coq_case(c, flags))
    vals = chk.coq_eval(HEADER, exprs, shard=12, timeout=1500)
    for c, (io, used), v in zip(cases, impls, vals):
        chk.case({k: c[k] for k in ('id', 'engine', 'driver', 'n_iter', 'scalar_dx', 'm')} | {'n': len(c['pts']),
                                                                                                 'T0': c['pts'][0]['T']},
                 'error' not in io and len(c['pts']) > 2)
        chk.count(f'case:{c["engine"]}/{c["driver"]}/n_iter={c["n_iter"]}/{"scalar" if c["scalar_dx"] else "array"}-dx')
        chk.count('cruise-flags-as:' + c.get('flag_kind', 'bool'))
        if c.get('long'):
            chk.count('long-heavy-flight' + ('/second-and-third-pass-above-criterion' if io.get('third_pass_moves') else ''))
        if 'twin_of' in c:
            chk.count('second-flight-on-same-model-object' + ('/parameters-changed-by-' + c['mutate_params']['how']
                                                              if c.get('mutate_params') else ''))
        if 'error' in io:
            chk.fail(f'{c["driver"]} raised {io["error"][0]}: {io["error"][1]}', {'case': c, 'impl': io, 'with': used})
            continue
        if io.get('mutated'):
            chk.fail(f'{c["driver"]} modified the caller\'s input array(s) {io["mutated"]} in place: the returned profile no '
                     f'longer belongs to the inputs the caller holds', {'case': c, 'impl': io, 'with': used})
        if io.get('result_changed_later'):
            chk.fail(f'the mass vector returned by {c["driver"]} was changed by a later call on the same model object',
                     {'case': c, 'impl': io, 'with': used})
        judge(chk, c, io, used)
        if v is None:
            continue
        mr, mt, ms = v
        scale = abs(c['m'])
        # model and implementation use the same constants; where the thrust is a small difference of large terms (series
        # exp / ln vs libm, 1e-15 of the terms) the comparison is relative to those terms: 1e-11 of the largest one
        tsc = [ref_cond(c['engine'], c['params'], pt, m_)[0] for pt, m_ in zip(c['pts'], io['result'])]
        ok = (len(mr) == len(io['result'])
              and all(close(a, b, rel=1e-9, scale=scale) for a, b in zip(mr, io['result']))
              and all(close(a, b, rel=1e-8, scale=10.0 * ts) for a, b, ts in zip(mt, io['thrust'], tsc))
              and all(close(a, b, rel=1e-8 + 1e-11 * ts / max(abs(t_), 1e-300), scale=1.0)
                      for a, b, ts, t_ in zip(ms, io['sgr'], tsc, io['thrust'])))
        if not ok:
            chk.broken('correspondence:C19_Model.' + c['driver'],
                       f'model masses {mr[:4]}… thrust {mt[:2]}… sgr {ms[:2]}… vs implementation {io["result"][:4]}… '
                       f'{io["thrust"][:2]}… {io["sgr"][:2]}…', {k: c[k] for k in ('id', 'engine', 'driver', 'n_iter')})
        else:
            chk.traces_validated += 1


def load_corpus(chk):
    out = []
    for f in sorted((VERIF / 'corpus' / chk.pid).glob('*.json')):
        c = json.loads(f.read_text())['case']
        for k in ('model_key', 'twin_of', 'mutate_params', 'first_flight'):      # corpus cases stand alone
            c.pop(k, None)
        out.append(c)
    return out


def run(chk: Check):
    chk.rule = ('parameter sets for Jet / Turboprop / Piston (representative coefficients +-15 %, occasionally negative '
                'C_Tc5), profiles of 2-30 points (cruise, climb, descent, climb-cruise-descent, mixed; ISA and non-ISA '
                'temperature; cruise flag; head/tail wind), scalar or per-segment distances, the four drivers with '
                'n_iter in {1,2,3,5,10}; each driver is run for n_iter and n_iter-1; plus long / heavy cruise flights (3500-7500 km, '
                'fuel a sizeable fraction of the mass, n_iter in {3,5,10}, mostly the backward driver) on which the third pass '
                'still exceeds the 0.01 % criterion: a return before n_iter passes must be justified by the free end having '
                'converged or by the profile being the trapezoid of the fuel flow at the returned masses; 30 % of the cases are followed by a second '
                'flight on the SAME model object (identical altitude / cruise arrays, other temperature and airspeed);  one PRNG stream; '
                'non-trivial = more than two points and the driver returned')
    chk.trusted += ['translator/c19_extract.py + py2coq.NumModule', 'harness/c19.py: correspondence, independent BADA-3 '
                    'equations (user-manual transcription, SI units), trapezoid oracle',
                    'numpy / scipy.integrate.cumulative_trapezoid exercised for real',
                    'lib/FloatMath.v exp/ln at binary64 (within 1e-9, validated by the correspondence)']
    chk.assumptions += ['profiles have at least two points, finite inputs, v_tas > 0, altitude <= 25 km',
                        'segment_distance is a scalar or one length per segment',
                        'theorems: real-number semantics; the early-exit test (0.01 %) and the thrust switches are '
                        'discrete decisions on floats, compared through the correspondence only',
                        'the trapezoid clause is checked against the iterate the last update started from '
                        '(obtained by running the same entry point with n_iter - 1)']
    chk.coq_props('props/C19_Props.v')
    flags = extract(chk)
    chk.notes['tree_state'] = {'fuel_dependent_drivers': 'shift whole vector (repaired)' if flags.get('shift_whole_vector')
                               else 'overwrite mass[0] only (F18 present)',
                               'backward_update': 'segment lengths reversed with the integrand (repaired)'
                               if flags.get('backward_dx_reversed') else 'segment lengths in forward order (FC19a present)',
                               'piston_fuel_flow': 'C_f1 / 60, kg/s (repaired)' if flags.get('piston_per_second')
                               else 'C_f1 as it is, kg/min used as kg/s (FC19b present)'}
    cases = load_corpus(chk)
    # long / heavy flights (their own PRNG stream, so that the ordinary stream is what it was)
    import random
    lrng = random.Random(f'C19-long-{chk.seed}')
    cases.append(gen_long_case(lrng, 900, fixed=True))
    for i in range(chk.n(8, 60)):
        cases.append(gen_long_case(lrng, 901 + i))
    for i in range(chk.n(150, 1500)):
        c = gen_case(chk.rng, 1000 + 2 * i)
        cases.append(c)
        r_ = chk.rng.random()
        if r_ < 0.3:
            # one model object, two flights over the same altitude profile under different conditions
            c['model_key'] = f'm{c["id"]}'
            t = gen_twin(chk.rng, c, 1001 + 2 * i)
            cases.append(t)
        elif r_ < 0.5:
            # one model / parameter object, coefficients changed on it between two evaluations
            c['model_key'] = f'm{c["id"]}'
            cases.append(gen_param_twin(chk.rng, c, 1001 + 2 * i))
    process(chk, cases, flags)


def replay(chk: Check, rp):
    chk.coq_props('props/C19_Props.v')
    flags = extract(chk)
    case = (rp.get('case') or {}).get('case')
    if not case:
        chk.broken('replay', 'replay file carries no case (broken obligation: re-run the check)')
        return
    first = case.pop('first_flight', None)
    process(chk, ([first] if first else []) + [case], flags)
